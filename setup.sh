#!/bin/sh
# Builds /verif/.venv (python 3.12) offline: z3-solver + cvc5 from the wheelhouse, plus a .pth that
# exposes /venv's site-packages (the repository's own third-party dependencies).  Idempotent.
set -e
cd "$(dirname "$0")"
if [ -x .venv/bin/python ] && .venv/bin/python -c "import z3, cvc5, jschon" 2>/dev/null; then
    exit 0
fi
rm -rf .venv
/venv/bin/python -m venv .venv
PIP_NO_INDEX=1 .venv/bin/pip install -q --no-index --find-links /opt/veriftools/wheels z3-solver cvc5 jsonschema >/dev/null
echo "import site; site.addsitedir('/venv/lib/python3.12/site-packages')" > .venv/lib/python3.12/site-packages/_repo_deps.pth
.venv/bin/python -c "import z3, cvc5, jschon; print('verif venv ok', z3.get_version_string())"
