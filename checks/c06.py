"""C06 -- multiply-driven bits and combinational loops are rejected; legal designs are not.

 edges      PROOF per cell kind and width: `Cell.comb_edges_to(bit)` against the SEMANTIC dependency of output bit
            i on input net j (exists an input assignment where flipping j changes i -- an SMT query on the cell
            semantics of spec/nir_eval.py): the listed edges are a superset of the true dependencies (no missed
            cycle) and, for cells that claim per-bit precision (`comb_edges_is_per_bit`), no listed edge is
            spurious for the bit-precise operators (no false cycle).
 cycles     exception safety and decision of `Netlist.check_comb_cycles` on enumerated designs (bit-precise
            constructs: slices, concatenation, bitwise operators, Mux, conditions; and word-level operators) over a
            3-bit signal: converting raises CombinationalCycle iff the reference bit-dependency graph (computed
            from the AST: per-bit for bit-precise constructs, all-to-all for word-level operators) has a cycle,
            raises nothing otherwise, and never any other exception.  [structures enumerated]
 drivers    `build_netlist` raises DriverConflict iff some bit of a signal is driven from two (module, domain)
            pairs or both by logic and by an instance output -- enumerated placements of bit ranges of a 3-bit
            signal over 2 modules x 2 domains, with and without an instance output; bit-disjoint drivers accepted.
 early      `Module._add_statement`: SyntaxError iff some bit is already driven from another domain of the same
            module (enumerated sequences of slice/domain pairs).
 dfs        BOUNDED, small scope: the real `check_comb_cycles` on EVERY netlist of N <= 3 (4 thorough) nets -- all groupings
            into cells, each per-bit or word-level, every edge relation -- raises CombinationalCycle iff the net graph
            has a cycle and nothing else.
 connect    `NetlistEmitter.connect` contract: DriverConflict iff some left net is already connected; otherwise the
            connection map is extended by exactly the zipped pairs (exhaustive over small net lists).
"""
import itertools

from pyvc.explore import Exploration
from pyvc.sym import SInt, to_sint, And, Or, Not, Implies, ite
from pyvc import runner, source
from spec.sem import mask
from spec.nir_eval import NirEval

PROPERTY = "C06"

META = {
    "level": "proof",
    "trusted_base": [
        "pyvc symbolic integer encoding; z3",
        "spec/nir_eval.py cell semantics (shared with C04)",
        "reference bit-dependency analysis of the AST in this file (per-bit for Slice/Cat/~/&/|/^/Mux, all-to-all otherwise)",
    ],
    "assumptions": [
        "comb_edges lemmas: cell input widths <= W per cell kind (3 quick, 4 thorough)",
        "cycle / driver decisions: designs enumerated (listed generators), i.e. structure is bounded; the iff over arbitrary "
        "hierarchies is not decided",
    ],
    "bounds": {"quick": {"W": 3}, "thorough": {"W": 4}},
    "explanation": "semantic edge lemmas by SMT + enumerated design decisions",
}


def functions():
    out = [source.describe("amaranth/hdl/_nir.py", q, arith="SMT on cell semantics", bound="widths <= W")
           for q in ("Operator.comb_edges_to", "Operator.comb_edges_is_per_bit", "Part.comb_edges_to", "Match.comb_edges_to",
                     "AssignmentList.comb_edges_to", "Netlist.check_comb_cycles")]
    out += [source.describe("amaranth/hdl/_ir.py", q, arith="closed / enumerated", bound="placements enumerated")
            for q in ("NetlistEmitter.connect", "NetlistEmitter.emit_drivers")]
    out += [source.describe("amaranth/hdl/_dsl.py", "Module._add_statement", arith="enumerated", bound="sequences <= 3")]
    return out


def tasks(tier):
    W = META["bounds"][tier]["W"]
    ts = [("edges", kind, W) for kind in ("unary", "binary", "mux", "part", "match", "assignlist", "readport", "iobuffer")]
    ts += [("cycles", k) for k in range(0, len(cycle_designs()), 8)]
    ts += [("drivers",), ("early",), ("connect",), ("arst-cycles",)]
    ts += [("dfs", n) for n in ((1, 2, 3) if tier == "quick" else (1, 2, 3, 4))]
    return ts


def canaries(tier):
    return [("canary-edges",)]


# ------------------------------------------------------------------------------------------------
# comb_edges_to vs semantic dependency

def _mk_netlist(cell_builder, in_widths, memory=False):
    """A netlist with one top-level input per entry of in_widths and one cell built from their Values."""
    from amaranth.hdl import _nir
    nl = _nir.Netlist()
    nl.add_module(None, ("top",))
    top = nl.cells[0]
    vals = []
    pos = 2
    for k, w in enumerate(in_widths):
        top.ports_i[f"in{k}"] = (pos, w)
        vals.append(_nir.Value(_nir.Net.from_cell(0, pos + b) for b in range(w)))
        pos += w
    if memory:
        nl.add_cell(_nir.Memory(0, width=2, depth=1 << in_widths[0], init=[0] * (1 << in_widths[0]), name="mem", attributes={}, src_loc=None))
    cell = cell_builder(vals)
    idx = nl.add_cell(cell)
    return nl, idx, cell, vals


def to_int(v):
    return int(v)


def check_edges(kind, W, broken=False):
    from amaranth.hdl import _nir
    name = f"comb-edges[{kind}]"
    cases = []
    if kind == "unary":
        for op in ("-", "~", "b", "r|", "r&", "r^"):
            for w in range(1, W + 1):
                cases.append((f"{op}/{w}", [w], lambda v, op=op: _nir.Operator(0, operator=op, inputs=[v[0]], src_loc=None)))
    elif kind == "binary":
        for op in ("+", "-", "*", "&", "|", "^", "u//", "s//", "u%", "s%", "<<", "u>>", "s>>", "==", "!=", "u<", "s<", "u>", "s>", "u<=", "s<=", "u>=", "s>="):
            for w in range(1, W + 1):
                bw = w if op not in ("<<", "u>>", "s>>") else 2
                cases.append((f"{op}/{w}", [w, bw], lambda v, op=op: _nir.Operator(0, operator=op, inputs=[v[0], v[1]], src_loc=None)))
    elif kind == "mux":
        for w in range(1, W + 1):
            cases.append((f"m/{w}", [1, w, w], lambda v: _nir.Operator(0, operator="m", inputs=[v[0], v[1], v[2]], src_loc=None)))
    elif kind == "part":
        for w in range(1, W + 1):
            for signed in (False, True):
                for stride in (1, 2):
                    cases.append((f"part/{w}/{signed}/{stride}", [w, 2],
                                  lambda v, signed=signed, stride=stride: _nir.Part(0, value=v[0], value_signed=signed, offset=v[1],
                                                                                   width=2, stride=stride, src_loc=None)))
    elif kind == "match":
        for w in range(1, W + 1):
            pats = (("1" + "-" * (w - 1),), ("0" * w, "1" * w), ("-" * w,))
            cases.append((f"match/{w}", [1, w], lambda v, pats=pats: _nir.Match(0, en=v[0][0], value=v[1], patterns=pats, src_loc=None)))
    elif kind == "assignlist":
        for w in range(2, W + 2):
            cases.append((f"assignment_list/{w}", [w, 1, 1, 1, 2],
                          lambda v, w=w: _nir.AssignmentList(0, default=v[0], assignments=[
                              _nir.Assignment(cond=v[1][0], start=0, value=v[3], src_loc=None),
                              _nir.Assignment(cond=v[2][0], start=w - 1, value=v[4], src_loc=None)], src_loc=None)))
    elif kind == "readport":
        for aw in range(1, min(W, 2) + 1):
            cases.append((f"read_port/{aw}", [aw], lambda v: _nir.AsyncReadPort(0, 1, width=2, addr=v[0], src_loc=None)))
    elif kind == "iobuffer":
        for w in range(1, W + 1):
            cases.append((f"iob/{w}", [w, 1], lambda v, w=w: _nir.IOBuffer(0, port=[_nir.IONet.from_port(0, b) for b in range(w)],
                                                                           dir="inout", o=v[0], oe=v[1][0], src_loc=None)))
    parts = []
    for label, in_widths, builder in cases:
        nl, idx, cell, vals = _mk_netlist(builder, in_widths, memory=(kind == "readport"))
        out_w = len(cell.output_nets(idx))
        per_bit = cell.comb_edges_is_per_bit()
        all_in = [n for v in vals for n in v]

        def body(path, nl=nl, idx=idx, cell=cell, in_widths=in_widths, out_w=out_w, all_in=all_in, label=label, per_bit=per_bit):
            xs = {f"in{k}": path.var(f"in{k}", 0, mask(w)) for k, w in enumerate(in_widths)}
            st = {}
            if label.startswith("read_port"):
                st = {1: [path.var(f"row{r}", 0, 3) for r in range(1 << in_widths[0])]}
            ext = {idx: path.var("pad", 0, mask(out_w))} if label.startswith("iob") else {}
            base = to_sint(NirEval(nl, xs, st, ext).cell(idx))
            for j, net in enumerate(all_in):
                # which input / bit is this net
                k, b = None, None
                for kk, (start, w) in enumerate((nl.cells[0].ports_i[f"in{q}"] for q in range(len(in_widths)))):
                    if start <= (net & 0xffff) < start + w:
                        k, b = kk, (net & 0xffff) - start
                flipped = dict(xs)
                flipped[f"in{k}"] = xs[f"in{k}"] ^ (1 << b)
                other = to_sint(NirEval(nl, flipped, st, ext).cell(idx))
                for i in range(out_w):
                    listed = any(src == net for src, _loc in cell.comb_edges_to(i))
                    if broken:
                        listed = not listed
                    differs = ((base >> i) & 1) != ((other >> i) & 1)
                    if not listed:
                        # an edge that is not listed must not be a real dependency
                        path.prove(f"{name}::{label}::out{i}<-in{k}[{b}]::no-missed-dependency", Not(differs))
            path.prove(f"{name}::{label}::evaluated", True)
        parts.append(runner.from_exploration(name, Exploration(f"{name}::{label}", body).run()))
        if not broken:
            # the claim itself: bit-precise constructs must be per-bit (else legal shuffles through them are rejected or,
            # with siblings marked checked wholesale, cycles are missed); word-level cells that are not per-bit must list
            # the same edges for every output bit, which is what makes checking their outputs as one unit sound
            want_per_bit = label.split("/")[0] in ("~", "&", "|", "^", "m", "assignment_list", "iob")
            uniform = per_bit or all(sorted(s_ for s_, _l in cell.comb_edges_to(i)) == sorted(s_ for s_, _l in cell.comb_edges_to(0))
                                     for i in range(out_w))
            okc = per_bit == want_per_bit and uniform
            parts.append({"task": name, "paths": 0, "solver_s": 0.0, "obligations": [
                {"name": f"{name}::{label}::per-bit-claim", "kind": "post", "status": "proved" if okc else "refuted",
                 "backend": "closed", "time_s": 0.0,
                 **({} if okc else {"failing_input": {"cell": label, "comb_edges_is_per_bit": per_bit, "expected": want_per_bit,
                                                      "edges identical for all output bits": uniform}})}]})
        if per_bit and not broken:
            # precision: a cell that claims per-bit edges lists no edge that is not a real dependency
            # (a spurious edge would reject legal designs); decided by exhaustive concrete evaluation
            spurious = None
            ports = [nl.cells[0].ports_i[f"in{q}"] for q in range(len(in_widths))]
            for i in range(out_w):
                for src, _loc in cell.comb_edges_to(i):
                    k, b = next((kk, (src & 0xffff) - st) for kk, (st, w) in enumerate(ports) if st <= (src & 0xffff) < st + w)
                    real = False
                    for vals_ in itertools.product(*[range(1 << w) for w in in_widths], (range(1 << out_w) if label.startswith("iob") else [0])):
                        xs = {f"in{q}": v for q, v in enumerate(vals_[:-1])}
                        ys = dict(xs)
                        ys[f"in{k}"] ^= 1 << b
                        ext = {idx: vals_[-1]}
                        if ((to_int(NirEval(nl, xs, {}, ext).cell(idx)) ^ to_int(NirEval(nl, ys, {}, ext).cell(idx))) >> i) & 1:
                            real = True
                            break
                    if not real and spurious is None:
                        spurious = {"cell": label, "output bit": i, "listed input": f"in{k}[{b}]"}
            parts.append({"task": name, "paths": 0, "solver_s": 0.0, "obligations": [
                {"name": f"{name}::{label}::per-bit-edges-are-real", "kind": "post", "status": "proved" if spurious is None else "refuted",
                 "backend": "closed(exhaustive)", "time_s": 0.0, **({} if spurious is None else {"failing_input": spurious})}]})
    return runner.merge_results(name, parts)


# ------------------------------------------------------------------------------------------------
# reference bit-dependency analysis and design enumeration

def bit_deps(expr):
    """per bit of expr: set of (id(signal), bit) it may depend on"""
    from amaranth.hdl import _ast as A
    if isinstance(expr, A.Const):
        return [set() for _ in range(len(expr))]
    if isinstance(expr, A.Signal):
        return [{(id(expr), i)} for i in range(len(expr))]
    if isinstance(expr, A.Slice):
        return bit_deps(expr.value)[expr.start:expr.stop]
    if isinstance(expr, A.Concat):
        out = []
        for p in expr.parts:
            out += bit_deps(p)
        return out
    if isinstance(expr, A.Operator):
        ds = [bit_deps(o) for o in expr.operands]
        w = len(expr)
        if expr.operator in ("~",) or (expr.operator in ("&", "|", "^") and len(ds) == 2):
            out = []
            for i in range(w):
                s = set()
                for d, o in zip(ds, expr.operands):
                    if i < len(d):
                        s |= d[i]
                    elif o.shape().signed and d:
                        s |= d[-1]
                out.append(s)
            return out
        if expr.operator in ("u", "s"):
            return ds[0]
        allb = set().union(*[b for d in ds for b in d]) if any(ds) else set()
        return [set(allb) for _ in range(w)]
    if isinstance(expr, A.SwitchValue):
        w = len(expr)
        tdeps = set().union(*bit_deps(expr.test)) if len(expr.test) else set()
        out = [set(tdeps) for _ in range(w)]
        for _p, elem in expr.cases:
            d = bit_deps(elem)
            for i in range(w):
                if i < len(d):
                    out[i] |= d[i]
                elif elem.shape().signed and d:
                    out[i] |= d[-1]
        return out
    if isinstance(expr, A.Part):
        allb = set().union(*bit_deps(expr.value), *bit_deps(expr.offset)) if len(expr.value) or len(expr.offset) else set()
        return [set(allb) for _ in range(len(expr))]
    raise NotImplementedError(type(expr).__name__)


def has_cycle(stmts_with_cond, sigs):
    """stmts_with_cond: list of (lhs signal, lo, hi, rhs expr, cond exprs).  Reference graph over (signal, bit)."""
    graph = {}
    for sig, lo, hi, rhs, conds in stmts_with_cond:
        d = bit_deps(rhs)
        cdeps = set()
        for c in conds:
            cdeps |= set().union(*bit_deps(c)) if len(c) else set()
        for k, bit in enumerate(range(lo, hi)):
            tgt = (id(sig), bit)
            src = set(cdeps)
            if k < len(d):
                src |= d[k]
            elif rhs.shape().signed and d:
                src |= d[-1]
            graph.setdefault(tgt, set()).update(src)
    color = {}

    def dfs(n):
        color[n] = 1
        for m in graph.get(n, ()):
            if color.get(m) == 1:
                return True
            if color.get(m) is None and dfs(m):
                return True
        color[n] = 2
        return False
    return any(color.get(n) is None and dfs(n) for n in list(graph))


def cycle_designs():
    """descriptions: list of assignment tuples (lo, hi, rhs kind...) over a 3-bit signal `a`, inputs x (3 bits), s (1 bit)"""
    rhs_forms = [
        ("a[0]", lambda a, x, s: a[0]), ("a[1]", lambda a, x, s: a[1]), ("a[2]", lambda a, x, s: a[2]),
        ("~a[0]", lambda a, x, s: ~a[0]), ("a[1]&x[0]", lambda a, x, s: a[1] & x[0]), ("x[1]", lambda a, x, s: x[1]),
        ("a[1]+1", lambda a, x, s: a[1] + 1), ("Mux(s,a[2],x[0])", lambda a, x, s: __import__("amaranth").hdl.Mux(s, a[2], x[0])),
        ("a[0]|a[2]", lambda a, x, s: a[0] | a[2]),
    ]
    designs = []
    # single-bit targets: every pair of assignments to two different bits
    for (b1, b2) in [(0, 1), (1, 2), (2, 0), (0, 2)]:
        for (n1, f1), (n2, f2) in itertools.product(rhs_forms, repeat=2):
            designs.append(("pair", b1, n1, b2, n2))
    # whole-signal assignments
    whole = [
        ("Cat(x[0],a[0:2])", False), ("Cat(a[1:3],x[0])", False), ("Cat(a[0],a[1],x[2])", True), ("a[1]+1", True),
        ("Mux(s,Cat(x[0],a[1],x[1]),x)", True), ("Mux(s,Cat(a[1],x[0],x[1]),x)", False), ("a^x", True), ("x+1", False),
        ("Cat(a[2],a[0],a[1])", True), ("(a>>1)|x", False), ("a.rotate_left(1)", True), ("Cat(x[0],a[0],a[1])&x", False),
        ("~Cat(a[1:3],x[1])", False), ("a.bit_select(x[0:2],3)", True), ("Cat(a[1],a[2],s)", False),
    ]
    for txt, _ in whole:
        designs.append(("whole", txt))
    # conditional assignments: the condition is a dependency too
    for txt in ("a[2]", "x[0]", "a[0]", "s"):
        designs.append(("cond", txt))
    # constant-offset bit_select / word_select inside the signal (documented as the equivalent slice), as targets and operands,
    # including the selections that end exactly at the most significant bit
    sel = [n for n, _f in sel_forms()]
    for (b1, b2) in [(0, 1), (1, 2), (2, 0), (0, 2), (2, 1)]:
        for n1, n2 in itertools.product(sel, repeat=2):
            designs.append(("sel", b1, n1, b2, n2))
    return designs


def sel_forms():
    """name -> (expression with bit_select / word_select, the same with slices)"""
    from amaranth.hdl import Const
    return [
        ("a.bit_select(2,1)", (lambda a, x, s: a.bit_select(2, 1), lambda a, x, s: a[2:3])),
        ("a.bit_select(0,1)", (lambda a, x, s: a.bit_select(0, 1), lambda a, x, s: a[0:1])),
        ("a.bit_select(Const(1,2),1)&x[0]", (lambda a, x, s: a.bit_select(Const(1, 2), 1) & x[0], lambda a, x, s: a[1:2] & x[0])),
        ("a.word_select(2,1)", (lambda a, x, s: a.word_select(2, 1), lambda a, x, s: a[2:3])),
        ("a.bit_select(1,2)[1]", (lambda a, x, s: a.bit_select(1, 2)[1], lambda a, x, s: a[2:3])),
        ("x.bit_select(2,1)", (lambda a, x, s: x.bit_select(2, 1), lambda a, x, s: x[2:3])),
    ]


def build_cycle_design(desc):
    from amaranth.hdl import Signal, Module, Cat, Mux
    a, x, s = Signal(3, name="a"), Signal(3, name="x"), Signal(name="s")
    m = Module()
    ref = []
    forms = dict(cycle_designs_forms())
    if desc[0] == "pair":
        _, b1, n1, b2, n2 = desc
        for b, n in ((b1, n1), (b2, n2)):
            rhs = forms[n](a, x, s)
            m.d.comb += a[b].eq(rhs)
            from amaranth.hdl import Value
            ref.append((a, b, b + 1, Value.cast(rhs), []))
    elif desc[0] == "sel":
        from amaranth.hdl import Value
        _, b1, n1, b2, n2 = desc
        sf = dict(sel_forms())
        for b, n in ((b1, n1), (b2, n2)):
            real, refx = sf[n]
            m.d.comb += a.bit_select(b, 1).eq(real(a, x, s))
            ref.append((a, b, b + 1, Value.cast(refx(a, x, s)), []))
    elif desc[0] == "whole":
        from amaranth.hdl import Value
        rhs = Value.cast(eval(desc[1], {"a": a, "x": x, "s": s, "Cat": Cat, "Mux": Mux}))
        m.d.comb += a.eq(rhs)
        ref.append((a, 0, 3, rhs, []))
    else:
        from amaranth.hdl import Value
        c = Value.cast(eval(desc[1], {"a": a, "x": x, "s": s}))
        with m.If(c):
            m.d.comb += a[0].eq(x[0])
        ref.append((a, 0, 1, Value.cast(x[0]), [c]))
    return m, [a, x, s], ref


def cycle_designs_forms():
    return [
        ("a[0]", lambda a, x, s: a[0]), ("a[1]", lambda a, x, s: a[1]), ("a[2]", lambda a, x, s: a[2]),
        ("~a[0]", lambda a, x, s: ~a[0]), ("a[1]&x[0]", lambda a, x, s: a[1] & x[0]), ("x[1]", lambda a, x, s: x[1]),
        ("a[1]+1", lambda a, x, s: a[1] + 1), ("Mux(s,a[2],x[0])", lambda a, x, s: __import__("amaranth").hdl.Mux(s, a[2], x[0])),
        ("a[0]|a[2]", lambda a, x, s: a[0] | a[2]),
    ]


def check_cycles(start):
    from amaranth.hdl._ir import build_netlist, Fragment
    from amaranth.hdl._nir import CombinationalCycle
    from amaranth.back import rtlil
    designs = cycle_designs()[start:start + 8]
    obs = []
    for desc in designs:
        m, ports, ref = build_cycle_design(desc)
        want = has_cycle(ref, ports)
        outcome = "ok"
        try:
            build_netlist(Fragment.get(m, None), ports)
        except CombinationalCycle:
            outcome = "cycle"
        except Exception as e:
            outcome = f"other exception: {type(e).__name__}: {e}"[:200]
        ok = outcome == ("cycle" if want else "ok")
        obs.append({"name": f"cycles::{desc!r}".replace(" ", ""), "kind": "bounded", "status": "proved" if ok else "refuted", "backend": "closed",
                    "time_s": 0.0,
                    **({} if ok else {"failing_input": {"design": repr(desc), "reference says": "cycle" if want else "no cycle",
                                                        "build_netlist": outcome,
                                                        "how": "3-bit comb signal a, inputs x (3 bits) and s; real build_netlist"}})})
    return {"task": f"cycles[{start}]", "paths": 0, "solver_s": 0.0, "obligations": obs,
            "bounded": [{"name": "check_comb_cycles decision on enumerated designs", "bound": "designs of cycle_designs(): 3-bit signal, 2 assignments",
                         "cases": len(obs), "failures": sum(o["status"] == "refuted" for o in obs)}]}


# ------------------------------------------------------------------------------------------------
# driver conflicts

def check_arst_cycles():
    """A register's ASYNCHRONOUS reset is a combinational input of the register (asserting it changes the output with no
    clock edge): a design in which a register of an async-reset domain drives that domain's reset -- directly, through logic,
    through ResetSignal() in a submodule -- has a bit that depends on itself and is rejected with CombinationalCycle; the same
    designs with a synchronous reset, or with the reset derived from a register of ANOTHER domain, are accepted."""
    from amaranth.hdl import Signal, Module, ClockDomain, ResetSignal
    from amaranth.hdl._ir import build_netlist, Fragment
    from amaranth.hdl._nir import CombinationalCycle
    obs = []
    for async_reset in (True, False):
        for form in ("direct", "through-logic", "submodule-ResetSignal", "other-domain-register"):
            m = Module()
            cd = ClockDomain("d", async_reset=async_reset)
            od = ClockDomain("o")
            m.domains += [cd, od]
            r, q, x = Signal(2, name="r"), Signal(2, name="q"), Signal(name="x")
            m.d.d += r.eq(r + 1)
            m.d.o += q.eq(q + 1)
            if form == "direct":
                m.d.comb += cd.rst.eq(r[1])
            elif form == "through-logic":
                m.d.comb += cd.rst.eq((r == 3) & x)
            elif form == "submodule-ResetSignal":
                sub = Module()
                sub.d.comb += ResetSignal("d").eq(r[0] | x)
                m.submodules.sub = sub
            else:
                m.d.comb += cd.rst.eq(q[1])
            want = async_reset and form != "other-domain-register"
            try:
                build_netlist(Fragment.get(m, None), [r, q, x, cd.clk, od.clk, od.rst])
                got = False
            except CombinationalCycle:
                got = True
            except Exception as e:
                got = repr(e)[:160]
            ok = got == want
            obs.append({"name": f"arst-cycles::{'async' if async_reset else 'sync'}-reset::{form}", "kind": "bounded", "status": "proved" if ok else "refuted",
                        "backend": "closed", "time_s": 0.0,
                        **({} if ok else {"failing_input": {"reset": "asynchronous" if async_reset else "synchronous", "reset driven": form,
                                                            "CombinationalCycle": got, "expected": want,
                                                            "how": "register r in domain d; d's reset driven combinationally as described; real build_netlist"}})})
    return {"task": "arst-cycles", "paths": len(obs), "solver_s": 0.0, "obligations": obs,
            "bounded": [{"name": "cycles through an asynchronous reset", "bound": "4 ways of driving the reset x async / sync", "cases": len(obs),
                         "failures": sum(o["status"] == "refuted" for o in obs)}]}


def check_drivers():
    from amaranth.hdl import Signal, Module, ClockDomain, Instance
    from amaranth.hdl._ir import build_netlist, Fragment, DriverConflict
    from amaranth.hdl._ast import SyntaxError as ASyntaxError
    obs = []
    ranges = [(0, 1), (0, 2), (1, 3), (2, 3), (0, 3), (1, 2)]
    places = [("top", "comb"), ("top", "sync"), ("sub", "comb"), ("sub", "sync")]
    n = 0
    bad = None
    def tgt(v, lo, hi, form):
        if form == "bit_select":
            return v.bit_select(lo, hi - lo)
        if form == "word_select" and lo % (hi - lo) == 0:
            return v.word_select(lo // (hi - lo), hi - lo)
        if form == "as_signed":
            return v.as_signed()[lo:hi]
        if form == "cat":
            from amaranth.hdl import Cat
            return Cat(v[0:1], v[1:3])[lo:hi]
        return v[lo:hi]
    for ((r1, p1), (r2, p2)), form in itertools.product(itertools.product(itertools.product(ranges, places), repeat=2), ("slice", "bit_select", "word_select", "as_signed", "cat")):
        for inst_bits in (None, (2, 3)):
            n += 1
            sig = Signal(3, name="sig")
            x = Signal(3, name="x")
            top, sub = Module(), Module()
            top.domains += ClockDomain("sync")
            top.submodules.sub = sub
            mods = {"top": top, "sub": sub}
            # same (module, domain) twice is one driver in Amaranth unless the early check refuses it
            early = False
            for (lo, hi), (mn, dn) in ((r1, p1), (r2, p2)):
                try:
                    mods[mn].d[dn] += tgt(sig, lo, hi, form).eq(tgt(x, lo, hi, form))
                except ASyntaxError:
                    early = True       # refused at construction (same module, other domain): also a rejection
            if inst_bits:
                top.submodules.inst = Instance("blk", o_q=tgt(sig, inst_bits[0], inst_bits[1], form))
            overlap = max(r1[0], r2[0]) < min(r1[1], r2[1])
            want = (overlap and p1 != p2)
            if inst_bits:
                for (lo, hi) in (r1, r2):
                    if max(lo, inst_bits[0]) < min(hi, inst_bits[1]):
                        want = True
            try:
                if early:
                    raise DriverConflict("refused by Module._add_statement")
                build_netlist(Fragment.get(top, None), [sig, x])
                got = False
            except DriverConflict:
                got = True
            except Exception as e:
                got = repr(e)[:120]
            if got != want and bad is None:
                bad = {"drivers": [(r1, p1), (r2, p2)], "target form": form, "instance output bits": inst_bits, "DriverConflict": got, "expected": want,
                       "how": "3-bit signal, bit ranges (written as slices / constant bit_select / constant word_select) driven from (module, domain) pairs, real build_netlist"}
    ok = bad is None
    obs.append({"name": f"drivers::{n}-placements", "kind": "bounded", "status": "proved" if ok else "refuted", "backend": "closed(exhaustive)",
                "time_s": 0.0, **({} if ok else {"failing_input": bad})})
    return {"task": "drivers", "paths": n, "solver_s": 0.0, "obligations": obs,
            "bounded": [{"name": "DriverConflict decision on enumerated placements", "bound": "3-bit signal, 2 slice drivers x 2 modules x 2 domains, optional instance output",
                         "cases": n, "failures": 0 if ok else 1}]}


def check_early():
    from amaranth.hdl import Signal, Module
    from amaranth.hdl._ast import SyntaxError as ASyntaxError
    ranges = [(0, 1), (0, 2), (1, 3), (2, 3), (0, 3)]
    doms = ["comb", "sync", "other"]
    n = 0
    bad = None
    def tgt(v, lo, hi, form):
        if form == "as_signed":
            return v.as_signed()[lo:hi]
        if form == "as_unsigned-of-slice":
            return v[lo:hi].as_unsigned()
        if form == "cat":
            from amaranth.hdl import Cat
            return Cat(v[0:2], v[2:3])[lo:hi]
        return v.bit_select(lo, hi - lo) if form == "bit_select" else v[lo:hi]
    for seq, form in itertools.product(itertools.product(itertools.product(ranges, doms), repeat=3), ("slice", "bit_select", "as_signed", "as_unsigned-of-slice", "cat")):
        n += 1
        m = Module()
        sig, x = Signal(3), Signal(3)
        owner = [None] * 3
        want = None
        got = None
        for k, ((lo, hi), dn) in enumerate(seq):
            conflict = any(owner[b] is not None and owner[b] != dn for b in range(lo, hi))
            try:
                m.d[dn] += tgt(sig, lo, hi, form).eq(x[lo:hi])
                raised = False
            except ASyntaxError:
                raised = True
            if raised != conflict:
                bad = bad or {"sequence": seq[:k + 1], "target form": form, "SyntaxError": raised, "expected": conflict}
                break
            if raised:
                break
            for b in range(lo, hi):
                owner[b] = dn
        if bad:
            break
    ok = bad is None
    return {"task": "early", "paths": n, "solver_s": 0.0, "obligations": [
        {"name": f"early-domain-check::{n}-sequences", "kind": "bounded", "status": "proved" if ok else "refuted", "backend": "closed(exhaustive)",
         "time_s": 0.0, **({} if ok else {"failing_input": bad})}],
        "bounded": [{"name": "Module._add_statement domain table", "bound": "3 assignments to slices of a 3-bit signal over 3 domains", "cases": n,
                     "failures": 0 if ok else 1}]}


def check_connect():
    from amaranth.hdl import _nir
    from amaranth.hdl._ir import NetlistEmitter, DriverConflict, Design, Fragment
    from amaranth.hdl import Module, Signal
    n = 0
    bad = None
    pool = [_nir.Net.from_late(-k) for k in range(1, 5)]
    srcs = [_nir.Net.from_cell(0, 2 + k) for k in range(4)]
    for pre in itertools.chain.from_iterable(itertools.combinations(pool, r) for r in range(0, 3)):
        for lhs in itertools.chain.from_iterable(itertools.permutations(pool, r) for r in range(0, 3)):
            n += 1
            nl = _nir.Netlist()
            em = object.__new__(NetlistEmitter)
            em.netlist = nl
            em.connect_src_loc = {}
            em.late_net_to_signal = {p: (Signal(4, name="q"), k) for k, p in enumerate(pool)}
            for p in pre:
                nl.connections[p] = srcs[0]
                em.connect_src_loc[p] = ("f.py", 1)
            before = dict(nl.connections)
            rhs = [srcs[1 + i] for i in range(len(lhs))]
            want = any(l in before for l in lhs)
            try:
                em.connect(_nir.Value(lhs), _nir.Value(rhs), src_loc=("g.py", 2))
                got = False
            except DriverConflict:
                got = True
            after = dict(nl.connections)
            exp_after = dict(before)
            if not want:
                exp_after.update(dict(zip(lhs, rhs)))
            okk = got == want and (want or after == exp_after)
            if not okk and bad is None:
                bad = {"already connected": [int(p) for p in pre], "connect left": [int(l) for l in lhs], "raised": got, "expected raise": want,
                       "connections after": {int(k): int(v) for k, v in after.items()}}
    ok = bad is None
    return {"task": "connect", "paths": n, "solver_s": 0.0, "obligations": [
        {"name": f"connect::{n}-cases", "kind": "bounded", "status": "proved" if ok else "refuted", "backend": "closed(exhaustive)", "time_s": 0.0,
         **({} if ok else {"failing_input": bad})}],
        "bounded": [{"name": "NetlistEmitter.connect contract", "bound": "<= 2 left nets from a pool of 4, <= 2 already connected", "cases": n,
                     "failures": 0 if ok else 1}]}


# ------------------------------------------------------------------------------------------------
# the graph search itself, on ALL graphs of a small scope: fake cells (real Cell subclasses) over N nets

def _partitions(n):
    """ordered partitions of n nets into cells (compositions)"""
    if n == 0:
        yield ()
        return
    for first in range(1, n + 1):
        for rest in _partitions(n - first):
            yield (first,) + rest


def check_dfs_small_scope(N):
    """`Netlist.check_comb_cycles` on every netlist of N nets grouped into cells in every way, every cell per-bit or
    word-level, and EVERY edge relation the cell kind allows (per-bit: any subset of nets per output; word-level: one
    subset shared by all outputs of the cell): CombinationalCycle iff the net graph has a cycle, nothing else raised."""
    from amaranth.hdl import _nir

    class FakeCell(_nir.Cell):
        def __init__(self, width, per_bit, edges):
            super().__init__(0, src_loc=None)
            self.width, self.per_bit, self.edges = width, per_bit, edges      # edges: per output bit -> tuple of nets

        def input_nets(self):
            return {n for e in self.edges for n in e}

        def output_nets(self, self_idx):
            return {_nir.Net.from_cell(self_idx, b) for b in range(self.width)}

        def resolve_nets(self, netlist):
            pass

        def comb_edges_to(self, bit):
            for n in self.edges[bit]:
                yield (n, None)

        def comb_edges_is_per_bit(self):
            return self.per_bit
    cases = 0
    bad = None
    for part in _partitions(N):
        # net k lives in cell index (1 + position), bit offset
        nets = []
        for ci, w in enumerate(part):
            nets += [_nir.Net.from_cell(1 + ci, b) for b in range(w)]
        subsets = [tuple(nets[k] for k in range(N) if (m >> k) & 1) for m in range(1 << N)]
        for flags in itertools.product((False, True), repeat=len(part)):
            # number of independent edge sets: per-bit cell -> one per output, word-level cell -> one
            slots = sum(w if f else 1 for w, f in zip(part, flags))
            for choice in itertools.product(range(1 << N), repeat=slots):
                cases += 1
                nl = _nir.Netlist()
                nl.add_module(None, ("top",))
                graph = {}
                pos = 0
                k = 0
                for ci, (w, f) in enumerate(zip(part, flags)):
                    if f:
                        edges = [subsets[choice[k + b]] for b in range(w)]
                        k += w
                    else:
                        edges = [subsets[choice[k]]] * w
                        k += 1
                    nl.add_cell(FakeCell(w, f, edges))
                    for b in range(w):
                        graph[nets[pos + b]] = set(edges[b])
                    pos += w
                # reference: cycle in the net graph
                color = {}

                def dfs(n):
                    color[n] = 1
                    for m2 in graph[n]:
                        c = color.get(m2)
                        if c == 1 or (c is None and dfs(m2)):
                            return True
                    color[n] = 2
                    return False
                want = any(color.get(n) is None and dfs(n) for n in nets)
                try:
                    nl.check_comb_cycles()
                    got = False
                except _nir.CombinationalCycle:
                    got = True
                except Exception as e:
                    got = f"{type(e).__name__}: {e}"
                if got != want and bad is None:
                    bad = {"cells (widths)": part, "per-bit flags": flags,
                           "edges (net <- nets)": {int(n): sorted(int(x) for x in graph[n]) for n in nets},
                           "reference": "cycle" if want else "no cycle", "check_comb_cycles": "CombinationalCycle" if got is True else ("accepted" if got is False else got),
                           "how": "real Netlist.check_comb_cycles on a netlist of stub cells (Cell subclasses) with these edges"}
    ok = bad is None
    return {"task": f"dfs-small-scope[{N}]", "paths": cases, "solver_s": 0.0, "obligations": [
        {"name": f"dfs-small-scope::all-netlists-of-{N}-nets", "kind": "bounded", "status": "proved" if ok else "refuted", "backend": "closed(exhaustive)",
         "time_s": 0.0, **({} if ok else {"failing_input": bad})}],
        "bounded": [{"name": "check_comb_cycles graph search, small scope", "bound": f"every netlist of {N} nets: all groupings into cells, per-bit/word-level, all edge relations",
                     "cases": cases, "failures": 0 if ok else 1}]}


def run_task(task):
    k = task[0]
    if k == "edges":
        return check_edges(task[1], task[2])
    if k == "cycles":
        return check_cycles(task[1])
    if k == "arst-cycles":
        return check_arst_cycles()
    if k == "drivers":
        return check_drivers()
    if k == "early":
        return check_early()
    if k == "connect":
        return check_connect()
    if k == "dfs":
        return check_dfs_small_scope(task[1])
    if k == "canary-edges":
        return check_edges("mux", 2, broken=True)
    raise KeyError(k)


def find_failing_input(res, ob):
    if ob.get("model"):
        return {"model": ob["model"], "how": "input assignment of the cell for which flipping the named input bit changes the named output "
                "bit although comb_edges_to does not list the edge; obligation " + ob["name"]}
    return None


def replay(data):
    for t in tasks("quick"):
        r = run_task(t)
        if any(o["name"] == data["obligation"] and o["status"] == "refuted" for o in r["obligations"]):
            return True
    return False
