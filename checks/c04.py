"""C04 -- emitted RTLIL is behaviourally equivalent to the simulated design.

Whole-design equivalence for all designs is a statement about two interpreters; what is decided here is the
chain of per-construct lowering lemmas it rests on (DESIGN.md 4/C04), each for ALL input values and register
contents, against the SAME reference semantics (`spec.sem`, `spec.stmt`) the simulator's generated code is proved
against in C01/C02/C03 -- so simulator == reference == netlist == RTLIL per construct:

 nir      the netlist the real `build_netlist` produces (NetlistEmitter.emit_rhs / emit_assign / emit_stmt /
          emit_drivers / operand extension / operator variants / Match + AssignmentList / per-chunk flip-flops /
          undriven bits tied to init), evaluated under the cell semantics documented in hdl/_nir.py
          (spec/nir_eval.py), gives every port signal the reference value (combinational) / reference next value
          (clocked; reset lowered as the last assignment or as arst)
 rtlil    the text the real `rtlil.convert` emits for the same design, parsed and evaluated under the published
          RTLIL cell and process semantics (spec/rtlil_eval.py), gives the same values: operator table and
          signedness, operand shortening, $shift for part-select, $divfloor/$modfloor guarded by $mux, nested
          switch reconstruction from Match cells, $dff/$adff, sigspec chunking, hierarchy and ports
 hier     the same for designs split over submodules (signal driven in one module, used in ancestors, siblings and
          cousins; three levels; the same assignment target under two different conditions)
 design   whole-design one-step equivalence (checks/c04_designs.py): simulator code, netlist and RTLIL of ONE prepared
          Design agree on every signal now and after every clock event, from EVERY common state and input (counter,
          FSM, inserters, synchronisers, crc.Processor, Memory, SyncFIFO/-Buffered, hierarchies; thorough: AsyncFIFO)
Templates: every C01 expression template, every C02 assignment-target template and control-flow program, the C03
domain flavours, hierarchical designs.  Not decided: designs outside these templates and listed designs (net-flow/port
inference for arbitrary module trees); instances are opaque.  Memories / I/O buffers: C11 behaviour, C18 real-port.
"""
from pyvc.explore import Exploration
from pyvc.sym import SInt, to_sint, And, Or, Not, Implies, ite
from pyvc import runner, source
from spec.sem import sem, Env, norm, mask, shape_range
from spec.stmt import exec_stmts, driven_masks
from spec.nir_eval import NirEval
from spec.rtlil_eval import RtlilEval
from harness import rtlil_parse as RP
from . import templates as T
from . import c01, c02

PROPERTY = "C04"

META = {
    "level": "proof",
    "trusted_base": [
        "pyvc symbolic integer encoding; z3 / cvc5",
        "spec/nir_eval.py: NIR cell semantics transcribed from the docstrings of amaranth/hdl/_nir.py",
        "spec/rtlil_eval.py + harness/rtlil_parse.py: RTLIL text grammar and cell/process semantics transcribed from the "
        "Yosys manual (x bits read as 0; $divfloor/$modfloor by zero read as 0, as the emitted $mux guard makes them)",
        "spec/sem.py, spec/stmt.py reference semantics (shared with C01/C02)",
    ],
    "assumptions": [
        "per-construct templates (widths <= W, structures enumerated); whole-design equivalence for arbitrary designs and "
        "input sequences is NOT decided -- it is the composition of these lemmas plus net-flow/port inference, which is "
        "only exercised on the listed hierarchical templates and on 12 (quick) / 120 (thorough) hierarchical designs drawn with a "
        "fixed seed (2-5 modules in a random tree, signals driven from one or -- by halves -- two modules, read anywhere)",
        "memories / instances / I/O buffers at RTLIL level: only C11's parameter lemmas and C18's single-use rule",
    ],
    "bounds": {"quick": {"W": 3}, "thorough": {"W": 5}},
    "explanation": "per-construct translation lemmas AST -> NIR -> RTLIL against the shared reference semantics",
}


def functions():
    out = [source.describe("amaranth/hdl/_ir.py", q, arith="netlist evaluated symbolically", bound="templates enumerated")
           for q in ("NetlistEmitter.emit_rhs", "NetlistEmitter.emit_operator", "NetlistEmitter.emit_assign", "NetlistEmitter.emit_stmt",
                     "NetlistEmitter.emit_drivers", "NetlistEmitter.emit_match", "NetlistEmitter.extend", "NetlistEmitter.emit_undriven",
                     "NetlistDriver.emit_value", "_compute_net_flows", "_compute_ports", "build_netlist")]
    out += [source.describe("amaranth/back/rtlil.py", q, arith="RTLIL text evaluated symbolically", bound="templates enumerated")
            for q in ("convert_fragment", "ModuleEmitter.emit_operator", "ModuleEmitter.shorten_operand", "ModuleEmitter.emit_part", "ModuleEmitter.emit_flip_flop",
                      "ModuleEmitter.emit_assignment_list", "ModuleEmitter.sigspec", "ModuleEmitter.emit_connects",
                      "ModuleEmitter.emit_submodules", "ModuleEmitter.emit_port_wires", "_const")]
    return out


def tasks(tier):
    ts = [("expr", t) for t in c01.all_templates(tier) if t[0] not in ("index",)]
    W = 3 if tier == "quick" else 5
    cat = c02.lhs_catalogue(W)
    for k, (name, tshs, ashs, fn) in enumerate(cat):
        for rsh in ((W + 2, True), (1, False)) if tier == "quick" else c02.rhs_shapes(W):
            for dom in ("comb", "sync"):
                ts.append(("lhs", W, k, name, rsh, dom))
    for k in range(c02.n_programs(tier)):
        for dom in ("comb", "sync"):
            ts.append(("prog-sim", k, dom))
    chunk = 20
    out = [("chunk", tuple(ts[i:i + chunk])) for i in range(0, len(ts), chunk)]
    out += [("hier", k) for k in range(len(HIER))]
    out += [("hier-gen", k) for k in range(N_HIER_GEN["quick" if tier == "quick" else "thorough"])]
    out += [("ff", e, kind) for e in ("pos", "neg") for kind in ("noreset", "sync", "async")]
    from . import c04_designs
    out += c04_designs.design_tasks(tier)
    return out


def canaries(tier):
    return [("canary-nir",), ("canary-rtlil",), ("canary-design-nir",), ("canary-design-rtlil",)]


# ------------------------------------------------------------------------------------------------

def check_module(name, m, ports, comb_spec=None, domain="comb", break_nir=False, break_rtlil=False, assume=None):
    """`ports`: list of signals exposed; every one of them is compared.  Reference: the fragment's own statements
    under exec_stmts (single fragment designs) unless `comb_spec(env) -> {signal: value}` is given."""
    from amaranth.hdl._ir import build_netlist, Fragment, Design
    from amaranth.back import rtlil
    frag = Fragment.get(m, None)
    nl = build_netlist(frag, ports)
    text = rtlil.convert(m, ports=ports, emit_src=False)
    mods = RP.parse(text)
    top = nl.cells[0]
    # statements of every fragment of the design, per domain (reference)
    design_frag = Fragment.get(m, None)

    def all_stmts(fr, dom):
        out = list(fr.statements.get(dom, []))
        for sub, _n, _s in fr.subfragments:
            out += all_stmts(sub, dom)
        return out
    prepared = frag
    comb_stmts = all_stmts(prepared, "comb")
    doms = []

    def collect_doms(fr):
        for dname in fr.statements:
            if dname != "comb" and dname not in doms:
                doms.append(dname)
        for sub, _n, _s in fr.subfragments:
            collect_doms(sub)
    collect_doms(prepared)
    comb_masks, _t = driven_masks(comb_stmts)
    in_names = list(top.ports_i)
    sig_by_name = {}
    for s in ports:
        sig_by_name[s.name] = s
    ffs = [i for i, c in enumerate(nl.cells) if type(c).__name__ == "FlipFlop"]

    def body(path):
        from amaranth.hdl import _nir
        # --- symbolic inputs and register contents
        env = Env()
        inputs = {}
        for s in ports:
            sh = s.shape()
            lo, hi = shape_range(sh.width, sh.signed)
            v = path.var(f"sig_{s.name}", lo, hi)
            env[s] = v
        for nm in in_names:
            if nm in sig_by_name:
                inputs[nm] = env[sig_by_name[nm]] & mask(len(sig_by_name[nm]))
            else:
                inputs[nm] = 0          # clk / rst inputs: low
        if assume is not None:
            path.assume(assume(env))
        # bits of a non-input signal that no statement of any domain drives are tied to the initial value
        all_masks = dict(comb_masks)
        for dom in doms:
            dmk, _x = driven_masks(all_stmts(prepared, dom))
            for k_, v_ in dmk.items():
                all_masks[k_] = all_masks.get(k_, 0) | v_
        for s in ports:
            if s.name not in in_names:
                und = mask(len(s)) & ~all_masks.get(id(s), 0)
                if und:
                    path.assume((env[s] & und) == (s.init & und))
        state = {i: path.var(f"ff{i}", 0, mask(len(nl.cells[i].data))) for i in ffs}
        ev = NirEval(nl, inputs, state)
        # registers hold the current values of the signals they implement
        for s in ports:
            if s in nl.signals and s.name not in in_names:
                val = nl.signals[s]
                if any(n >= 2 and (n >> 16) in ffs for n in val):
                    for b, n in enumerate(val):
                        if n >= 2 and (n >> 16) in ffs:
                            path.assume(ev.net(n) == ((env[s] >> b) & 1))
        # --- reference: combinational values = the fixed point of the comb statements (acyclic: at most one round
        # per comb-driven signal), starting from the inputs and register contents
        n_comb = sum(1 for s in ports if id(s) in comb_masks)
        curr = Env(env)
        new = Env(env)
        for _round in range(n_comb + 1):
            new = Env(curr)
            for s in ports:
                if id(s) in comb_masks:
                    dm = comb_masks[id(s)]
                    sh = s.shape()
                    new[s] = norm((env[s] & ~dm) | (s.init & dm), sh.width, sh.signed)
            exec_stmts(comb_stmts, curr, new)
            curr = Env(new)
        if comb_spec is not None:
            for s, v in comb_spec(env):
                new[s] = v
        for s in ports:
            if id(s) in comb_masks or (comb_spec is not None and any(s is k for k, _v in comb_spec(env))):
                want = to_sint(new[s]) & mask(len(s))
                if break_nir:
                    want = (want + 1) & mask(len(s))
                if s.name in top.ports_o:
                    path.prove(f"{name}::nir::{s.name}", to_sint(ev.value(top.ports_o[s.name])) == want)
        # --- RTLIL
        rstate = {}
        rev = RtlilEval(mods, inputs={**{k: v for k, v in inputs.items()}}, state=rstate)
        regs = rev_registers(rev, mods)
        for (ipath, cname, width) in regs:
            rstate[(ipath, cname)] = path.var(f"rq_{'_'.join(ipath)}_{cname}".replace("$", "d").replace("\\", ""), 0, mask(width))
        for s in ports:
            if s.name in in_names:
                continue
            wname = "\\" + s.name
            if wname in mods["\\top"].wires and id(s) not in comb_masks:
                # a register-backed (or undriven) output shows the signal's current value
                path.assume(to_sint(rev.out(s.name)) == (to_sint(env[s]) & mask(len(s))))
        for s in ports:
            if id(s) in comb_masks or (comb_spec is not None and any(s is k for k, _v in comb_spec(env))):
                want = to_sint(new[s]) & mask(len(s))
                if break_rtlil:
                    want = (want ^ 1) & mask(len(s)) if len(s) else want + 1
                path.prove(f"{name}::rtlil::{s.name}", to_sint(rev.out(s.name)) == want)
        # --- clocked next values
        for dom in doms:
            stmts = all_stmts(prepared, dom)
            dmasks, _tt = driven_masks(stmts)
            nxt = Env(env)
            # right-hand sides read current values, where comb-driven signals show their settled values
            cur2 = Env(env)
            for s in ports:
                if id(s) in comb_masks:
                    cur2[s] = new[s]
            exec_stmts(stmts, cur2, nxt)
            cd = prepared.domains[dom]
            clk_net = None
            for nm, (start, width) in top.ports_i.items():
                if cd.clk.name == nm:
                    clk_net = (0 << 16) | start
            lvl = 1 if cd.clk_edge == "pos" else 0
            ns = ev.next_state({clk_net: lvl})
            ev2 = NirEval(nl, inputs, {**state, **ns})
            for s in ports:
                if id(s) in dmasks and s.name in top.ports_o:
                    want = to_sint(nxt[s]) & mask(len(s))
                    path.prove(f"{name}::nir::{dom}::{s.name}", to_sint(ev2.value(top.ports_o[s.name])) == want)
            # RTLIL: every register takes D at its active edge
            rnext = {}
            clkname = cd.clk.name
            before = RtlilEval(mods, inputs={**inputs, clkname: 1 - lvl}, state=rstate)
            after = RtlilEval(mods, inputs={**inputs, clkname: lvl}, state=rstate)
            for (ipath, cname, width) in regs:
                inst_b, cell = find_cell(before, ipath, cname)
                inst_a, _c = find_cell(after, ipath, cname)
                cb = inst_b.sig(cell.ports["\\CLK"])
                ca = inst_a.sig(cell.ports["\\CLK"])
                pol = 1 if cell.params["\\CLK_POLARITY"] else 0
                active = (int(cb) != int(ca)) and int(ca) == pol
                rnext[(ipath, cname)] = before.next_register(inst_b, cell, lambda i, c, active=active: active)
            rev2 = RtlilEval(mods, inputs=inputs, state=rnext)
            for s in ports:
                if id(s) in dmasks:
                    want = to_sint(nxt[s]) & mask(len(s))
                    path.prove(f"{name}::rtlil::{dom}::{s.name}", to_sint(rev2.out(s.name)) == want)
    x = Exploration(name, body).run()
    res = runner.from_exploration(name, x, {"source_excerpt": text[:600]})
    # closed: the design went through build_netlist, rtlil.convert and the RTLIL reader
    res["obligations"].append({"name": f"{name}::converts-and-parses", "kind": "post", "status": "proved", "backend": "closed",
                               "time_s": 0.0})
    # closed: POWER-ON state.  In RTLIL a flip-flop's initial value exists only as the `init` attribute of its Q wire; with the
    # registers holding those values, every register-backed bit of every exposed signal reads as the signal's initial value --
    # which is what the simulator starts from
    if doms:
        res["obligations"] += power_on_obligations(name, mods, ports, in_names, prepared, doms, all_stmts)
    return res


def power_on_state(mods):
    """{(instance path, cell name): value of the Q wire's init attribute, or None when a register has none}"""
    out = {}

    def walk(m, path):
        for c in m.cells.values():
            if c.kind in ("$dff", "$adff"):
                q = c.ports["\\Q"]
                val, pos, known = 0, 0, True
                for (wname, bit) in RP.bits_of(q, m):
                    w = m.wires.get(wname)
                    init = w.attrs.get("\\init") if w is not None else None
                    if init is None:
                        known = False
                    else:
                        bits = str(init).split("'")[-1]
                        b = bits[len(bits) - 1 - bit] if bit < len(bits) else "0"
                        if b not in "01":
                            known = False
                        else:
                            val |= int(b) << pos
                    pos += 1
                out[(path, c.name)] = val if known else None
            elif c.kind in mods:
                walk(mods[c.kind], path + (c.name,))
    walk(mods["\\top"], ())
    return out


def power_on_obligations(name, mods, ports, in_names, prepared, doms, all_stmts):
    obs = []
    pstate = power_on_state(mods)
    missing = [f"{'.'.join(p)}.{c}" for (p, c), v in pstate.items() if v is None]
    obs.append({"name": f"{name}::power-on::every-register-has-an-initial-value", "kind": "post", "status": "proved" if not missing else "refuted",
                "backend": "closed", "time_s": 0.0,
                **({} if not missing else {"failing_input": {"registers whose Q wire carries no init attribute": missing,
                                                             "how": "rtlil.convert of the design; $dff / $adff cells and the attributes of their Q wires"}})})
    rev = RtlilEval(mods, inputs={nm: 0 for nm in in_names}, state={k: (v or 0) for k, v in pstate.items()})
    reg_masks = {}
    for dom in doms:
        dmk, _x = driven_masks(all_stmts(prepared, dom))
        for k_, v_ in dmk.items():
            reg_masks[k_] = reg_masks.get(k_, 0) | v_
    for s in ports:
        rm = reg_masks.get(id(s), 0)
        if s.name in in_names or not rm:
            continue
        try:
            got = int(to_sint(rev.out(s.name)).concrete()) if hasattr(to_sint(rev.out(s.name)), "concrete") else int(rev.out(s.name))
        except Exception:
            got = rev.out(s.name)
            got = int(got) if isinstance(got, int) else None
        want = s.init & mask(len(s))
        ok = got is not None and (got & rm) == (want & rm)
        obs.append({"name": f"{name}::power-on::{s.name}", "kind": "post", "status": "proved" if ok else "refuted", "backend": "closed", "time_s": 0.0,
                    **({} if ok else {"failing_input": {"signal": s.name, "register-backed bits": bin(rm), "initial value (Signal.init)": want,
                                                        "value with the RTLIL registers at their init attributes": got,
                                                        "how": "rtlil.convert; registers set from the init attribute of their Q wires; inputs 0"}})})
    return obs


def rev_registers(rev, mods):
    out = []

    def walk(m, path):
        for c in m.cells.values():
            if c.kind in ("$dff", "$adff"):
                out.append((path, c.name, c.params["\\WIDTH"]))
            elif c.kind in mods:
                walk(mods[c.kind], path + (c.name,))
    walk(mods["\\top"], ())
    return out


def find_cell(rev, ipath, cname):
    inst = rev.top
    for step in ipath:
        c = inst.m.cells[step]
        rev.eval_cell(inst, c)
        inst = inst.children[(inst.path, step)]
    return inst, inst.m.cells[cname]


# ------------------------------------------------------------------------------------------------
# template wrappers

def unit_expr(t):
    from amaranth.hdl import Signal, Module, Value
    name = T.tid(("expr", t))
    shapes, make_expr, direct = T.build(t)
    pre = T.precondition(t)
    sigs = c01._signals(shapes)
    expr = Value.cast(make_expr(*sigs))
    out = Signal(expr.shape(), name="out")
    m = Module()
    m.d.comb += out.eq(expr)
    ports = sigs + [out]

    def spec(env):
        vals = [env[s] for s in sigs]
        r = direct(*vals) if direct is not None else sem(expr, env)
        return [(out, r)]
    assume = (lambda env: pre(*[env[s] for s in sigs])) if pre is not None else None
    return check_module(name, m, ports, comb_spec=spec, assume=assume)


def unit_lhs(t):
    from amaranth.hdl import Signal, Shape
    m = c02.build_lhs_module(t)
    from amaranth.hdl._ir import Fragment
    frag = Fragment.get(m, None)
    sigs = []

    def add(s):
        if not any(s is x for x in sigs):
            sigs.append(s)
    for dom, stmts in frag.statements.items():
        for st in stmts:
            for s in st._lhs_signals():
                add(s)
            for s in st._rhs_signals():
                add(s)
    return check_module(T.tid(t), m, sigs)


def unit_prog(t):
    m, inputs, targets = c02.build_program(c02.PROGRAMS[t[1]], t[2])
    return check_module(T.tid(t), m, inputs + targets)


def _hier_designs():
    from amaranth.hdl import Signal, Module, Elaboratable, Cat

    def h0():
        # computed in submodule A, used in sibling B and at top
        a, b = Signal(3, name="a"), Signal(3, name="b")
        x, y, z = Signal(4, name="x"), Signal(4, name="y"), Signal(5, name="z")
        top, A, B = Module(), Module(), Module()
        A.d.comb += x.eq(a + b)
        B.d.comb += y.eq(x ^ 5)
        top.d.comb += z.eq(x + y)
        top.submodules.A = A
        top.submodules.B = B
        return top, [a, b, x, y, z]

    def h1():
        # driven in top.a.b, exported at top, read in cousin top.a.c and in a child of the driver
        a = Signal(3, name="a")
        n, u, v, w = Signal(3, name="n"), Signal(3, name="u"), Signal(3, name="v"), Signal(4, name="w")
        top, A, B, C, D = Module(), Module(), Module(), Module(), Module()
        B.d.comb += n.eq(~a)
        D.d.comb += v.eq(n + 1)
        B.submodules.d = D
        C.d.comb += u.eq(n & 3)
        A.submodules.b = B
        A.submodules.c = C
        top.submodules.a = A
        top.d.comb += w.eq(Cat(n, 1))
        return top, [a, n, u, v, w]

    def h2():
        # one assignment-target object with a run-time offset, assigned under two different conditions
        o, idx, c1, c2, d1 = Signal(4, name="o"), Signal(2, name="idx"), Signal(name="c1"), Signal(name="c2"), Signal(name="d1")
        m = Module()
        tgt = o.bit_select(idx, 1)
        with m.If(c1):
            m.d.comb += tgt.eq(d1)
        with m.If(c2):
            m.d.comb += tgt.eq(~d1)
        return m, [o, idx, c1, c2, d1]

    def h3():
        # registers in a submodule, read at top; a signal partially driven from two modules
        a = Signal(2, name="a")
        r, s, t = Signal(3, name="r"), Signal(4, name="s"), Signal(3, name="t")
        top, A = Module(), Module()
        A.d.sync += r.eq(r + a)
        A.d.comb += s[0:2].eq(a)
        top.d.comb += s[2:4].eq(r[0:2])
        top.d.sync += t.eq(r ^ a)
        top.submodules.A = A
        return top, [a, r, s, t]
    return [h0, h1, h2, h3]


HIER = [0, 1, 2, 3]


class _Lcg:
    def __init__(self, seed):
        self.x = seed & 0xFFFFFFFF

    def next(self, n):
        self.x = (1103515245 * self.x + 12345) & 0x7FFFFFFF
        return (self.x >> 8) % n

    def pick(self, xs):
        return xs[self.next(len(xs))]


N_HIER_GEN = {"quick": 12, "thorough": 120}


def _gen_hier_desc(g):
    """a hierarchical design drawn with a fixed seed: 2-5 modules in a random tree, 2 inputs, 3-6 derived signals, each wholly
    combinational (depending on inputs and earlier combinational signals: acyclic) or registered, driven from one module or --
    by halves -- from two different modules, read anywhere in the tree; optionally under an If/Else"""
    n_mod = 2 + g.next(4)
    parent = [None] + [g.next(i) for i in range(1, n_mod)]
    ins = [(2 + g.next(2), False), (g.pick([1, 2, 3]), g.next(3) == 0)]
    sigs = []
    for i in range(3 + g.next(4)):
        w = 2 + g.next(3)
        kind = "sync" if g.next(3) == 0 else "comb"
        split = g.next(3) == 0
        mods = (g.next(n_mod), g.next(n_mod)) if split else (g.next(n_mod),)

        def operand(allow_later):
            pool = [("in", 0), ("in", 1)] + [("sig", j) for j in range(len(sigs)) if allow_later or sigs[j][1] == "comb" or True]
            if not allow_later:
                pool = [("in", 0), ("in", 1)] + [("sig", j) for j in range(len(sigs))]
            return g.pick(pool)

        def expr():
            form = g.next(8)
            a, b, c = operand(kind == "sync"), operand(kind == "sync"), operand(kind == "sync")
            return (form, a, b, c)
        drivers = []
        for _ in mods:
            cond = g.next(3) == 0
            drivers.append((expr(), expr() if cond else None))
        sigs.append((w, kind, mods, drivers, g.next(7)))
    return (parent, ins, sigs)


def _build_hier(desc):
    from amaranth.hdl import Signal, Module, Cat, Mux, Shape
    parent, ins, sigs = desc
    mods = [Module() for _ in parent]
    for i, p in enumerate(parent):
        if p is not None:
            setattr(mods[p].submodules, f"m{i}", mods[i])
    inputs = [Signal(Shape(w, s), name=f"in{i}") for i, (w, s) in enumerate(ins)]
    signals = [Signal(w, name=f"s{i}", init=init & ((1 << w) - 1)) for i, (w, _k, _m, _d, init) in enumerate(sigs)]

    def val(o):
        return inputs[o[1]] if o[0] == "in" else signals[o[1]]

    def mk(e):
        form, a, b, c = e
        a, b, c = val(a), val(b), val(c)
        return [lambda: a + b, lambda: a ^ b, lambda: ~a, lambda: Cat(a[0], b), lambda: Mux(a[0], b, c), lambda: a[1:], lambda: (a & 3) - 1,
                lambda: a.as_signed() >> 1][form]()
    for i, (w, kind, ms, drivers, _init) in enumerate(sigs):
        halves = [(0, w)] if len(ms) == 1 or ms[0] == ms[1] else [(0, w // 2), (w // 2, w)]
        for (lo, hi), mi, (e1, e2) in zip(halves, ms, drivers):
            m = mods[mi]
            tgt = signals[i][lo:hi]
            if e2 is None:
                m.d[kind] += tgt.eq(mk(e1))
            else:
                with m.If(inputs[0][0]):
                    m.d[kind] += tgt.eq(mk(e1))
                with m.Else():
                    m.d[kind] += tgt.eq(mk(e2))
    return mods[0], inputs + signals


def _comb_depth(desc):
    """longest chain of combinational signals feeding one another (the reference evaluates the combinational fixed point by
    rounds; long chains make its terms too deep for the solver's Python API -- a limit of this harness, so such draws are
    skipped when the family is generated, before any code under test runs)"""
    _parent, _ins, sigs = desc
    depth = {}
    for i, (_w, kind, _ms, drivers, _init) in enumerate(sigs):
        if kind != "comb":
            continue
        d = 1
        for e1, e2 in drivers:
            for e in (e1, e2):
                if e is None:
                    continue
                for o in e[1:]:
                    if o[0] == "sig" and o[1] in depth:
                        d = max(d, depth[o[1]] + 1)
        depth[i] = d
    return max(depth.values(), default=0)


_gh = _Lcg(4092026)
HIER_GEN = []
while len(HIER_GEN) < N_HIER_GEN["thorough"]:
    _d = _gen_hier_desc(_gh)
    if _comb_depth(_d) <= 2:
        HIER_GEN.append(_d)


def unit_hier_gen(k):
    m, ports = _build_hier(HIER_GEN[k])
    return check_module(f"hier-gen{k}", m, ports)


def unit_hier(k):
    m, ports = _hier_designs()[k]()
    return check_module(f"hier{k}", m, ports)


def unit_ff(edge, kind):
    """Reset lowering in the netlist and in RTLIL for every domain flavour: active edge with reset low / high, and the
    asynchronous reset level."""
    from amaranth.hdl import Signal, Module, ClockDomain
    from amaranth.hdl._ir import build_netlist, Fragment
    from amaranth.back import rtlil
    name = f"ff({edge},{kind})"
    m = Module()
    cd = ClockDomain("sync", clk_edge=edge, async_reset=(kind == "async"), reset_less=(kind == "noreset"))
    m.domains += cd
    r = Signal(4, init=5, name="r")
    rl = Signal(4, init=9, reset_less=True, name="rl")
    p = Signal(4, init=6, name="p")
    d = Signal(4, name="d")
    m.d.sync += [r.eq(r + d), rl.eq(rl + d), p[1:3].eq(d[0:2])]
    ports = [d, r, rl, p, cd.clk] + ([cd.rst] if kind != "noreset" else [])
    frag = Fragment.get(m, None)
    nl = build_netlist(frag, ports)
    text = rtlil.convert(m, ports=ports, emit_src=False)
    mods = RP.parse(text)
    top = nl.cells[0]
    ffs = [i for i, c in enumerate(nl.cells) if type(c).__name__ == "FlipFlop"]
    active = 1 if edge == "pos" else 0
    regs = rev_registers(None, mods)

    def body(path):
        vals = {s.name: path.var(f"v_{s.name}", 0, 15) for s in ports if len(s) == 4}
        # bits of p that no statement drives are tied to their initial value in the netlist
        path.assume((vals["p"] & ~0b0110) == (p.init & ~0b0110))
        for rstv in ((0, 1) if kind != "noreset" else (0,)):
            inputs = {"d": vals["d"], "clk": 1 - active}
            if kind != "noreset":
                inputs["rst"] = rstv
            state = {i: path.var(f"ff{i}", 0, mask(len(nl.cells[i].data))) for i in ffs}
            ev = NirEval(nl, inputs, state)
            for s in (r, rl, p):
                for b, n in enumerate(nl.signals[s]):
                    if n >= 2 and (n >> 16) in ffs:
                        path.assume(ev.net(n) == ((vals[s.name] >> b) & 1))
            clk_net = top.ports_i["clk"][0]
            exp = {"r": (vals["r"] + vals["d"]) & 15, "rl": (vals["rl"] + vals["d"]) & 15,
                   "p": (vals["p"] & ~0b0110) | ((vals["d"] & 3) << 1)}
            if rstv:
                exp["r"] = r.init
                exp["p"] = (exp["p"] & ~0b0110) | (p.init & 0b0110)
            # --- edge
            ns = ev.next_state({clk_net: active})
            ev2 = NirEval(nl, {**inputs, "clk": active}, {**state, **ns})
            for s in (r, rl, p):
                path.prove(f"{name}::nir::rst={rstv}::edge::{s.name}", to_sint(ev2.value(top.ports_o[s.name])) == to_sint(exp[s.name]))
            # --- no edge: asynchronous reset acts, everything else holds
            ns0 = ev.next_state({})
            ev3 = NirEval(nl, inputs, {**state, **ns0})
            for s in (r, rl, p):
                hold = vals[s.name]
                if kind == "async" and rstv and s is r:
                    hold = r.init
                if kind == "async" and rstv and s is p:
                    hold = (vals["p"] & ~0b0110) | (p.init & 0b0110)
                path.prove(f"{name}::nir::rst={rstv}::no-edge::{s.name}", to_sint(ev3.value(top.ports_o[s.name])) == to_sint(hold))
            # --- RTLIL
            rstate = {(ip, cn): path.var(f"rq{rstv}_{cn}".replace("$", "d"), 0, mask(w)) for (ip, cn, w) in regs}
            before = RtlilEval(mods, inputs=inputs, state=rstate)
            for s in (r, rl, p):
                path.assume(to_sint(before.out(s.name)) == vals[s.name])
            rnext = {}
            rhold = {}
            for (ip, cn, w) in regs:
                inst, cell = find_cell(before, ip, cn)
                pol = 1 if cell.params["\\CLK_POLARITY"] else 0
                rnext[(ip, cn)] = before.next_register(inst, cell, lambda i, c, pol=pol: pol == active)
                rhold[(ip, cn)] = before.next_register(inst, cell, lambda i, c: False)
            after = RtlilEval(mods, inputs={**inputs, "clk": active}, state=rnext)
            held = RtlilEval(mods, inputs=inputs, state=rhold)
            for s in (r, rl, p):
                path.prove(f"{name}::rtlil::rst={rstv}::edge::{s.name}", to_sint(after.out(s.name)) == to_sint(exp[s.name]))
                hold = vals[s.name]
                if kind == "async" and rstv and s is r:
                    hold = r.init
                if kind == "async" and rstv and s is p:
                    hold = (vals["p"] & ~0b0110) | (p.init & 0b0110)
                path.prove(f"{name}::rtlil::rst={rstv}::no-edge::{s.name}", to_sint(held.out(s.name)) == to_sint(hold))
        # closed: flip-flop parameters
    res = runner.from_exploration(name, Exploration(name, body).run())
    ok = all(c.clk_edge == edge for c in nl.cells if type(c).__name__ == "FlipFlop")
    res["obligations"].append({"name": f"{name}::nir::clk_edge", "kind": "post", "status": "proved" if ok else "refuted",
                               "backend": "closed", "time_s": 0.0})
    return res


def run_one(t):
    if t[0] == "expr":
        return unit_expr(t[1])
    if t[0] == "lhs":
        return unit_lhs(t)
    if t[0] == "prog-sim":
        return unit_prog(t)
    raise KeyError(t[0])


def run_task(task):
    k = task[0]
    if k == "chunk":
        parts = [runner.guarded(T.tid(t), run_one, t) for t in task[1]]
        return runner.merge_results(f"chunk[{T.tid(task[1][0])}..]", parts)
    if k == "hier":
        return runner.guarded(f"hier{task[1]}", unit_hier, task[1])
    if k == "hier-gen":
        return runner.guarded(f"hier-gen{task[1]}", unit_hier_gen, task[1])
    if k == "ff":
        return unit_ff(task[1], task[2])
    if k == "design":
        from . import c04_designs
        return c04_designs.run_design(task[1], task[2], task[3])
    if k in ("canary-design-nir", "canary-design-rtlil"):
        from . import c04_designs
        return c04_designs.run_design("quick", 7, break_n=(k == "canary-design-nir"), break_r=(k == "canary-design-rtlil"))
    if k in ("canary-nir", "canary-rtlil"):
        from amaranth.hdl import Signal, Module
        a, b, o = Signal(3, name="a"), Signal(3, name="b"), Signal(4, name="o")
        m = Module()
        m.d.comb += o.eq(a + b)
        return check_module(k, m, [a, b, o], break_nir=(k == "canary-nir"), break_rtlil=(k == "canary-rtlil"))
    raise KeyError(k)


# ------------------------------------------------------------------------------------------------
# replay: concrete evaluation of the real emitted RTLIL against the real simulator

def _capture_design(t):
    """(name, module, ports) of a template unit, through the unit builders (check_module is intercepted)"""
    captured = {}
    global check_module
    real = check_module

    def fake(name, m, ports, **kw):
        captured["d"] = (name, m, ports)
        return {"task": name, "paths": 0, "solver_s": 0.0, "obligations": []}
    check_module = fake
    try:
        if t[0] == "hier":
            unit_hier(t[1])
        elif t[0] == "hier-gen":
            unit_hier_gen(t[1])
        else:
            run_one(t)
    finally:
        check_module = real
    return captured.get("d")


def replay_unit(t, model):
    """Concrete replay of a combinational unit: the real Simulator, the real netlist (evaluated with integers) and the real
    RTLIL text (parsed and evaluated with integers) on the counter-model's input values."""
    from amaranth.hdl._ir import build_netlist, Fragment
    from amaranth.back import rtlil
    from amaranth.sim import Simulator
    d = _capture_design(t)
    if d is None:
        return None
    name, m, ports = d
    nl = build_netlist(Fragment.get(m, None), ports)
    top = nl.cells[0]
    vals = {s.name: model.get(f"sig_{s.name}", 0) for s in ports}
    ins = [s for s in ports if s.name in top.ports_i]
    outs = [s for s in ports if s.name in top.ports_o]
    if any(type(c).__name__ == "FlipFlop" for c in nl.cells):
        return None          # register contents cannot be forced in the real simulator
    d2 = _capture_design(t)
    _n2, m2, ports2 = d2
    by_name = {s.name: s for s in ports2}
    sim_vals = {}
    sim = Simulator(m2)

    async def tb(ctx):
        for s in ins:
            ctx.set(by_name[s.name], vals[s.name])
        for s in outs:
            sim_vals[s.name] = ctx.get(by_name[s.name])
    sim.add_testbench(tb)
    sim.run()
    inputs = {s.name: vals[s.name] & mask(len(s)) for s in ins}
    ev = NirEval(nl, inputs, {})
    nir_vals = {s.name: int(ev.value(top.ports_o[s.name])) for s in outs}
    d3 = _capture_design(t)
    mods = RP.parse(rtlil.convert(d3[1], ports=d3[2], emit_src=False))
    rev = RtlilEval(mods, inputs=dict(inputs), state={})
    rt_vals = {s.name: int(rev.out(s.name)) for s in outs}
    diff = {s.name: {"simulator": sim_vals[s.name] & mask(len(s)), "netlist": nir_vals[s.name], "rtlil": rt_vals[s.name]}
            for s in outs if len({sim_vals[s.name] & mask(len(s)), nir_vals[s.name], rt_vals[s.name]}) > 1}
    if not diff:
        return None
    return {"unit": repr(t), "inputs": {k: vals[k] for k in inputs}, "outputs that differ": diff,
            "how": "real Simulator vs. real build_netlist output (cell semantics of hdl/_nir.py) vs. real rtlil.convert text (parsed, Yosys cell "
                   "semantics), all evaluated on these input values"}


def find_failing_input(res, ob):
    if ob.get("model") is None:
        return None
    nm = ob["name"].split("::")[0]
    if not nm.startswith(("design[", "ff(", "canary")):
        try:
            t = ("hier-gen", int(nm[8:])) if nm.startswith("hier-gen") else ("hier", int(nm[4:])) if nm.startswith("hier") else _unit_of(ob["name"])
            r = replay_unit(t, ob["model"])
            if r is not None:
                return r
        except Exception:
            pass
    return {"model": ob["model"], "how": "exact counter-model: port signal values (sig_<name>) / register contents for which the "
            "netlist or RTLIL evaluation of the real build_netlist / rtlil.convert output differs from the reference; "
            "obligation " + ob["name"]}


def _unit_of(obname):
    return eval(obname.split("::")[0], {"__builtins__": {}}, {"None": None, "True": True, "False": False})


def replay(data):
    nm = data["obligation"].split("::")[0]
    if nm.startswith("design["):
        from . import c04_designs
        names = [d[0] for d in c04_designs.designs("thorough")]
        r = c04_designs.run_design("thorough", names.index(nm[len("design["):-1]))
    elif nm.startswith("hier-gen"):
        r = unit_hier_gen(int(nm[8:]))
    elif nm.startswith("hier"):
        r = unit_hier(int(nm[4:]))
    elif nm.startswith("ff("):
        import re
        mm = re.match(r"ff\((\w+),(\w+)\)", nm)
        r = unit_ff(mm.group(1), mm.group(2))
    else:
        t = _unit_of(data["obligation"])
        r = runner.guarded(T.tid(t), run_one, t)
    return any(o["status"] == "refuted" for o in r["obligations"])
