"""C01 -- operators compute exact integer results in shapes that never overflow.

Staged contracts on the real code generator `amaranth.sim._pyrtl._RHSValueCompiler` (and, for the
whole pipeline, `_StatementCompiler.on_Assign`, `_LHSValueCompiler.on_Signal`, `_FragmentCompiler`):
for each node template the real generator is run, and the code it generated is executed by CPython
on symbolic operands; the obligations are discharged by z3 for all operand values.

Per template (DESIGN.md 3B, 4/C01):
  shape     closed obligation: `expr.shape()` equals the documented shape
  contain   for all operand values in their shapes' ranges, the exact result lies in the range of
            the result shape  (no overflow / wrap / lost sign)
  rhs-raw   RHS contract: with operand texts evaluating to *un-normalised* integers raw_k in
            [-2^w, 2^w) (congruent to the operand's value modulo 2^w -- what `~`, `as_signed`,
            `as_unsigned` and friends really hand over), the generated text evaluates to an
            integer congruent to the exact result modulo 2^w_result, again inside [-2^w, 2^w).
            This is the inductive step that covers every nesting depth.
  assign    whole pipeline on canonical inputs: `out.eq(expr)` with `out` of the result shape
            leaves next(out) == exact result.
  derived   for operators defined by rewriting: `sem` of the AST the real method built equals the
            documented meaning stated directly on integers.
"""
import itertools

from pyvc.explore import Exploration
from pyvc.sym import SInt, to_sint, And, is_sym
from pyvc import sym, runner, source
from spec.sem import sem, norm, mask, in_range, shape_range, Env
from harness import capture
from . import templates as T

PROPERTY = "C01"

META = {
    "level": "proof",
    "trusted_base": [
        "pyvc symbolic integer encoding (adaptive-width bit-vectors with interval tracking; "
        "cross-checked against CPython on every run)",
        "z3 4.x / cvc5 soundness (no proof certificates checked)",
        "CPython executing the real generators and the generated code on proxy values",
        "spec/sem.py: reference semantics written from the documentation",
        "structural induction over expression trees (prose argument: each on_* uses its operands "
        "only through self(operand)/sign/mask, checked syntactically on the AST of _pyrtl.py)",
    ],
    "assumptions": [
        "operand widths enumerated up to the stated bound W (all values and all nesting depths "
        "per enumerated shape combination; widths above W are covered only by the unbounded "
        "shape lemmas of C10/C01.1); nesting is covered by the inductive step (operands are signals with arbitrary canonical "
        "values, intermediate values satisfy the raw contract) and, directly, by 60 (quick) / 500 (thorough) nested expressions "
        "drawn from the operator grammar with a fixed seed (depth <= 3, 2-3 signals of width <= 3), all values",
        "operand raw values range over [-2^w, 2^w) (the tight RHS contract); every producer is "
        "proved to stay inside it",
        "_PySignalState.update is used through its contract next' == (next & ~mask) | (value & mask) "
        "(body verified in C08)",
    ],
    "bounds": {"quick": {"W": 3, "shift_amount_bits": 2}, "thorough": {"W": 6, "extra_width": 9, "shift_amount_bits": 3}},
    "explanation": "staged verification of generated simulator code per node template",
}


def functions():
    f = "amaranth/sim/_pyrtl.py"
    out = [source.describe(f, q, arith="adaptive bit-vector (exact)", bound="shapes enumerated <= W")
           for q in ("_RHSValueCompiler.sign", "_RHSValueCompiler.on_Const", "_RHSValueCompiler.on_Signal",
                     "_RHSValueCompiler.on_Operator", "_RHSValueCompiler.on_Slice",
                     "_RHSValueCompiler.on_Part", "_RHSValueCompiler.on_Concat",
                     "_RHSValueCompiler.on_SwitchValue", "_Compiler._emit_switch",
                     "_StatementCompiler.on_Assign", "_LHSValueCompiler.on_Signal",
                     "_FragmentCompiler.__call__")]
    g = "amaranth/hdl/_ast.py"
    out += [source.describe(g, q, arith="closed/concrete + adaptive bit-vector", bound="shapes enumerated <= W")
            for q in ("Operator.shape", "Shape._unify", "Slice.shape", "Part.shape", "Concat.shape",
                      "SwitchValue.shape", "ArrayProxy.shape", "ArrayProxy.as_value", "Mux",
                      "Value.__abs__", "Value.shift_left", "Value.shift_right", "Value.rotate_left",
                      "Value.rotate_right", "Value.replicate", "Value.matches", "Value.bit_select",
                      "Value.word_select", "Value.__getitem__", "_normalize_patterns")]
    return out


# ------------------------------------------------------------------------------------------------
# template enumeration

def bounds(tier):
    return (3, 2) if tier == "quick" else (6, 3)


def all_templates(tier):
    W, SA = bounds(tier)
    shapes = T.shapes_upto(W)
    if tier == "thorough":
        shapes = shapes + [(9, False), (9, True)]          # one wider pair beyond the dense range
    ts = []
    for op in T.UNOPS:
        for sh in shapes:
            if op == "as_signed" and sh[0] == 0:
                continue
            ts.append(("unop", op, sh))
    for op in T.BINOPS:
        for sa in shapes:
            for sb in shapes:
                if op in ("<<", ">>"):
                    if sb[1] or sb[0] > SA:
                        continue
                ts.append(("binop", op, sa, sb))
    for op in T.BINOPS:
        for c in (0, 1, 2, 5, -1, -6):
            for sh in shapes:
                if sh[0] > min(W, 4):
                    continue
                if op in ("<<", ">>"):
                    if c >= 0 and c <= 3:
                        ts.append(("cbinop", op, "r", c, sh))
                    if not sh[1] and sh[0] <= SA:
                        ts.append(("cbinop", op, "l", c, sh))
                    continue
                ts.append(("cbinop", op, "l", c, sh))
                ts.append(("cbinop", op, "r", c, sh))
    for sh in shapes:
        w = sh[0]
        for start in range(w + 1):
            for stop in range(start, w + 1):
                ts.append(("slice", sh, start, stop))
        for i in range(-w, w):
            ts.append(("index", sh, i))
        for (a, b, c) in [(None, None, 2), (None, None, -1), (1, None, 2), (None, None, 3), (w, None, -2)]:
            ts.append(("stepslice", sh, a, b, c))
        for off_w in range(0, SA + 2):
            for width in range(0, min(W, 4) + 1):
                ts.append(("bit_select", sh, off_w, width))
                if width > 0:
                    ts.append(("word_select", sh, off_w, width))
        for off in (0, 1, w, w + 1):
            for width in (0, 1, 2):
                ts.append(("bit_select_const", sh, off, width))
                ts.append(("word_select_const", sh, off, width))
        ts.append(("abs", sh))
        for n in range(-w - 1, w + 2):
            ts.append(("shift_left", sh, n))
            ts.append(("shift_right", sh, n))
            ts.append(("rotate_left", sh, n))
            ts.append(("rotate_right", sh, n))
        for n in (0, 1, 2, 3):
            ts.append(("replicate", sh, n))
        # matches: integer patterns (representable or not), don't-care strings, several patterns
        pats = [(0,), (1,), (-1,), ((1 << w) - 1,), (1 << w,), (0, 1)]
        if w > 0:
            pats += [("-" * w,), ("1" + "-" * (w - 1),), ("-" * (w - 1) + "0",),
                     ("1" * w, "0" * w), (("10" * w)[:w], 1)]
            if w >= 2:
                pats += [("1 " + "-" * (w - 2) + "0",)]
        else:
            pats += [("",)]
        pats += [()]
        for p in pats:
            ts.append(("matches", sh, p))
    small = T.shapes_upto(min(W, 3))
    for sa in small:
        for sb in small:
            ts.append(("cat", (sa, sb)))
            for sel in [(0, False), (1, False), (2, False), (2, True)]:
                ts.append(("mux", sel, sa, sb))
    for shs in [((2, False), (1, True), (3, False)), ((0, False), (2, True), (1, False)),
                ((1, True), (1, True), (2, False))]:
        ts.append(("cat", shs))
    # arrays: in-range and out-of-range index widths, mixed element shapes
    for idx_w in (0, 1, 2, 3):
        for shs in [((2, False), (2, False)), ((2, False), (3, True), (1, False)),
                    ((1, True), (2, True), (0, False), (3, False)), ((3, True),),
                    ((2, False), (2, True), (1, False), (2, False), (3, True))]:
            ts.append(("array", idx_w, shs))
    # SwitchValue with explicit patterns (don't-care => if/elif form; integers => match form),
    # unreachable cases, default first / last / absent, empty pattern tuple
    sv = [
        ((2, False), (((0,), 0), ((1, 2), 1), (None, 2)), ((2, False), (3, True), (1, False))),
        ((2, False), ((("1-",), 0), (("01",), 1)), ((2, True), (2, False))),
        ((2, True), ((("--",), 0), (("11",), 1)), ((1, False), (3, True))),
        ((2, False), ((None, 0), ((1,), 1)), ((2, False), (2, True))),
        ((1, False), (((), 0), ((1,), 1)), ((2, False), (1, True))),
        ((0, False), (((0,), 0), (None, 1)), ((2, False), (2, True))),
        ((0, False), ((("",), 0),), ((3, True),)),
        ((3, True), (((-1, "0-1"), 0), (("1--",), 1), (None, 2)), ((2, True), (2, False), (0, False))),
    ]
    for test_sh, cases, shs in sv:
        ts.append(("switchvalue", test_sh, cases, shs))
    ts += [("nested", k) for k in range(T.N_NESTED["quick" if tier == "quick" else "thorough"])]
    for op in T.BINOPS:
        for sa in [(3, True), (2, False)]:
            for sb in [(1, False), (2, False)] if op in ("<<", ">>") else [(2, True), (1, False)]:
                for side in (("r",) if op in ("<<", ">>") else ("l", "r")):
                    ts.append(("dup-top-binop", op, sa, sb, side))
    for op in T.UNOPS:
        for sh in ([(1, False), (2, False), (2, True)] if tier == "quick" else [(0, False), (1, False), (2, False), (2, True), (3, True)]):
            for (lo_w, hi_w) in ((0, 1), (0, 2), (1, 0), (1, 1)):
                for ones in (False, True):
                    ts.append(("padded-unop", op, sh, lo_w, hi_w, ones))
    return ts


def tasks(tier):
    ts = all_templates(tier)
    # group into chunks to amortise process start-up
    chunk = 24
    return [("chunk", tuple(ts[i:i + chunk])) for i in range(0, len(ts), chunk)]


def canaries(tier):
    # a deliberately wrong spec (off by one) must be refuted; a deliberately wrong raw contract too
    return [("canary-spec", ("binop", "+", (2, False), (2, True))),
            ("canary-spec", ("unop", "~", (3, False))),
            ("canary-raw", ("slice", (3, True), 1, 3))]


# ------------------------------------------------------------------------------------------------

def _signals(shapes, prefix="x"):
    from amaranth.hdl import Signal, Shape
    return [Signal(Shape(w, s), name=f"{prefix}{k}") for k, (w, s) in enumerate(shapes)]


def check_template(t, wrong_spec=False, wrong_raw=False):
    from amaranth.hdl import Signal, Module, Value, Shape
    name = T.tid(t)
    shapes, make_expr, direct = T.build(t)
    pre = T.precondition(t)
    sigs = _signals(shapes)
    expr = Value.cast(make_expr(*sigs))
    rsh = expr.shape()
    rw, rs = rsh.width, rsh.signed
    parts = []
    obs_static = []

    # --- shape (closed obligation)
    exp = T.expected_shape(t, expr)
    if exp is not None:
        ok = (rw, rs) == tuple(exp)
        obs_static.append({"name": f"{name}::shape", "kind": "post",
                           "status": "proved" if ok else "refuted", "backend": "closed",
                           "time_s": 0.0,
                           **({} if ok else {"model": {"reported": [rw, rs], "documented": list(exp)}})})

    def spec_of(vals):
        env = Env(zip(sigs, vals))
        if direct is not None:
            r = direct(*vals)
        else:
            r = sem(expr, env)
        if wrong_spec:
            r = r + 1
        return r

    # --- containment + derived + rhs-raw
    rstate, rcode = capture.compile_rhs(expr)
    rcode_obj = compile(rcode, "<generated rhs>", "exec")

    def body_rhs(path):
        raws, vals = [], []
        for k, (w, s) in enumerate(shapes):
            raw = path.var(f"raw{k}", -(1 << w), (1 << w) - 1)
            raws.append(raw)
            vals.append(to_sint(norm(raw, w, s)))
        if pre is not None:
            path.assume(pre(*vals))
        for sig, raw in zip(sigs, raws):
            if sig in rstate.signals:
                rstate.slot(sig).curr = raw
        env = capture.exec_env(rstate)
        exec(rcode_obj, env)
        result = to_sint(env["result"])
        spec = spec_of(vals)
        path.prove(f"{name}::contain", in_range(to_sint(spec), rw, rs))
        if direct is not None:
            path.prove(f"{name}::derived", to_sint(sem(expr, Env(zip(sigs, vals)))) == spec)
        path.prove(f"{name}::rhs-raw-congruent", (result & mask(rw)) == (to_sint(spec) & mask(rw)))
        if wrong_raw:
            path.prove(f"{name}::rhs-raw-range", And(result >= 0, result < (1 << max(rw - 1, 0))))
        else:
            path.prove(f"{name}::rhs-raw-range", And(result >= -(1 << rw), result < (1 << rw)))

    x1 = Exploration(name + "#rhs", body_rhs).run()
    parts.append(runner.from_exploration(name, x1))

    # --- whole pipeline on canonical inputs
    if not (wrong_raw):
        m = Module()
        out = Signal(rsh, name="out")
        m.d.comb += out.eq(expr)
        design, state, procs = capture.compile_design(m)
        assert len(procs) == 1
        proc, src = procs[0]

        def body_assign(path):
            vals = []
            for k, ((w, s), sig) in enumerate(zip(shapes, sigs)):
                lo, hi = shape_range(w, s)
                v = path.var(f"v{k}", lo, hi)
                vals.append(v)
                if sig in state.signals:
                    sl = state.slot(sig)
                    sl.curr = v
                    sl.next = v
            if pre is not None:
                path.assume(pre(*vals))
            lo, hi = shape_range(rw, rs)
            prev = path.var("out_prev", lo, hi)
            so = state.slot(out)
            so.curr = prev
            so.next = prev
            so.updates = []
            proc.run()
            spec = to_sint(spec_of(vals))
            path.prove(f"{name}::assign", to_sint(so.next) == spec)

        x2 = Exploration(name + "#assign", body_assign).run()
        parts.append(runner.from_exploration(name, x2, {"source_excerpt": src[:400]}))
    res = runner.merge_results(name, parts)
    res["obligations"] = obs_static + res["obligations"]
    res["source_excerpt"] = rcode[:300]
    return res


def run_task(task):
    kind = task[0]
    if kind == "chunk":
        parts = [runner.guarded(T.tid(t), check_template, t) for t in task[1]]
        r = runner.merge_results(f"chunk[{T.tid(task[1][0])}..]", parts)
        r["source_excerpt"] = parts[0].get("source_excerpt")
        return r
    if kind == "canary-spec":
        return check_template(task[1], wrong_spec=True)
    if kind == "canary-raw":
        return check_template(task[1], wrong_raw=True)
    raise KeyError(kind)


# ------------------------------------------------------------------------------------------------
# replay: search for a concrete failing input on the real simulator

def _forms(shape):
    """Expressions of the given shape whose compiled code yields the various kinds of raw values."""
    from amaranth.hdl import Signal, Shape
    w, s = shape
    out = []
    a = Signal(Shape(w, s)); out.append(("sig", a, [a]))
    b = Signal(Shape(w, s)); out.append(("~sig", ~b, [b]))
    if w >= 1:
        if s:
            c = Signal(Shape(w, False)); out.append(("usig.as_signed()", c.as_signed(), [c]))
        else:
            c = Signal(Shape(w, True)); out.append(("ssig.as_unsigned()", c.as_unsigned(), [c]))
            d = Signal(Shape(w, True)); out.append(("(~ssig).as_unsigned()", (~d).as_unsigned(), [d]))
    return out


def find_failing_input_for_template(t):
    from amaranth.hdl import Signal, Module, Value
    from harness.realsim import comb_table, product_values
    shapes, make_expr, direct = T.build(t)
    pre = T.precondition(t)
    for combo in itertools.product(*[_forms(sh) for sh in shapes]):
        operands = [c[1] for c in combo]
        inputs = [s for c in combo for s in c[2]]
        expr = Value.cast(make_expr(*operands))
        out = Signal(expr.shape(), name="out")
        m = Module()
        m.d.comb += out.eq(expr)
        assigns = product_values(inputs)
        if assigns is None:
            continue
        assigns = list(assigns)
        rows = comb_table(m, inputs, [out], assigns)
        for vals, (got,) in zip(assigns, rows):
            env = Env(zip(inputs, vals))
            opvals = [sem(o, env) for o in operands]
            if pre is not None and not pre(*opvals):
                continue
            want = direct(*opvals) if direct is not None else sem(expr, env)
            want = int(want)
            sh = expr.shape()
            if got != want:
                return {"template": T.tid(t), "operand_forms": [c[0] for c in combo],
                        "inputs": {f"in{k}": v for k, v in enumerate(vals)},
                        "expr": repr(expr), "observed": got, "expected": want,
                        "how": "real Simulator, comb out.eq(expr), ctx.set inputs / ctx.get(out)"}
            lo, hi = shape_range(sh.width, sh.signed)
            if not (lo <= want <= hi):
                return {"template": T.tid(t), "operand_forms": [c[0] for c in combo],
                        "inputs": {f"in{k}": v for k, v in enumerate(vals)},
                        "expr": repr(expr), "expected": want, "shape": repr(sh),
                        "how": "exact result does not fit the reported shape"}
    return None


def _template_of(obname, tier_hint=None):
    tname = obname.split("::")[0].split("#")[0]
    return eval(tname, {"__builtins__": {}}, {"None": None, "True": True, "False": False})


def find_failing_input(res, ob):
    t = _template_of(ob["name"])
    if ob["name"].endswith("::shape"):
        return {"template": T.tid(t), **(ob.get("model") or {}),
                "how": "expr.shape() of the template built with the public API"}
    return find_failing_input_for_template(t)


def replay(data):
    t = _template_of(data["obligation"])
    if data["obligation"].endswith("::shape"):
        r = check_template(t)
        return any(o["status"] == "refuted" and o["name"].endswith("::shape") for o in r["obligations"])
    return find_failing_input_for_template(t) is not None
