"""C02 -- assignments and control flow: last active assignment wins, per bit.

Obligation families (DESIGN.md 4/C02):

 stmt-sim   Statement contract of the simulator code generators (`_StatementCompiler`,
            `_LHSValueCompiler`, `_FragmentCompiler`, `LHSMaskCollector`): for a module template the
            real generators are run and the generated `run()` is executed on symbolic slot values; for
            EVERY signal of the design, next' equals the reference fold `spec.stmt.exec_stmts` of the
            fragment's statements over (comb: init on the driven bits / sync: the previous next),
            for all values of all signals.  Whole-view postcondition: bits outside the addressed
            window, and bits the fragment does not drive, must be unchanged.
 dsl        Lowering contract of the Module DSL (`Module.If/Elif/Else/Switch/Case/Default/FSM/State/
            next`, `_pop_ctrl`, `_normalize_patterns`): the statements the real DSL builds for a
            program description have, under `exec_stmts`, exactly the meaning the reference
            interpreter gives the description (first non-zero test / first matching pattern /
            default; at most one block selected; program order).
 fsm        FSM contract: initial state = first defined unless `init=`; encodings distinct and
            representable (also for states referenced before definition); `ongoing()` == (state is
            that state); per-state transition/next semantics.
"""
import itertools

from pyvc.explore import Exploration
from pyvc.sym import SInt, to_sint, And, Or, Not, is_sym, ite
from pyvc import sym, runner, source
from spec.sem import sem, norm, mask, in_range, shape_range, Env, _assign, pattern_matches, any_of
from spec.stmt import exec_stmts, driven_masks, _and, _or, _not
from harness import capture
from . import templates as T

PROPERTY = "C02"

META = {
    "level": "proof",
    "trusted_base": [
        "pyvc symbolic integer encoding (cross-checked against CPython on every run)",
        "z3 / cvc5 soundness",
        "CPython executing the real generators / the real Module DSL and the generated code",
        "spec/sem.py `_assign`, spec/stmt.py `exec_stmts`: reference semantics written from the "
        "property statement and docs/guide.rst (control flow)",
    ],
    "assumptions": [
        "structures enumerated: LHS kinds nested to depth 2 over signals of width <= W, RHS narrower / "
        "equal / wider, signed and unsigned; hand-written control-flow programs (If chains up to 4 tests, nesting depth <= 2) plus "
        "40 (quick) / 400 (thorough) programs drawn from the program grammar with a fixed seed (nesting depth <= 3, 2-4 inputs of "
        "width <= 3, 1-2 targets of width <= 4) -- all values per program; FSMs up to 5 states",
        "_PySignalState.update used through its contract (body verified in C08)",
        "sync templates assume the domain reset is low (reset behaviour is C03's)",
        "netlist lowering of the same semantics (emit_assign / emit_stmt / NetlistDriver.emit_value): the control-flow programs are "
        "also run through C04's netlist and RTLIL evaluators here (netlist::* obligations); the assignment-target catalogue at "
        "netlist level is C04's",
    ],
    "bounds": {"quick": {"W": 3}, "thorough": {"W": 5}},
    "explanation": "staged statement contracts + DSL lowering contracts",
}


def functions():
    out = []
    for q in ("_LHSValueCompiler.on_Signal", "_LHSValueCompiler.on_Operator", "_LHSValueCompiler.on_Slice",
              "_LHSValueCompiler.on_Part", "_LHSValueCompiler.on_Concat", "_LHSValueCompiler.on_SwitchValue",
              "_StatementCompiler.on_statements", "_StatementCompiler.on_Assign",
              "_StatementCompiler.on_Switch", "_Compiler._emit_switch", "_FragmentCompiler.__call__"):
        out.append(source.describe("amaranth/sim/_pyrtl.py", q, arith="adaptive bit-vector (exact)",
                                   bound="structures enumerated"))
    for q in ("LHSMaskCollector.visit_value", "LHSMaskCollector.visit_stmt", "LHSMaskCollector.masks"):
        out.append(source.describe("amaranth/hdl/_xfrm.py", q, arith="closed (through stmt-sim)",
                                   bound="structures enumerated"))
    for q in ("Module.If", "Module.Elif", "Module.Else", "Module.Switch", "Module.Case", "Module.Default",
              "Module.FSM", "Module.State", "Module._pop_ctrl", "Module._add_statement", "FSM.ongoing",
              "FSMNextStatement.resolve"):
        out.append(source.describe("amaranth/hdl/_dsl.py", q, arith="symbolic conditions",
                                   bound="programs enumerated"))
    out.append(source.describe("amaranth/hdl/_ast.py", "Switch.__init__", arith="closed", bound="programs enumerated"))
    return out


# ------------------------------------------------------------------------------------------------
# LHS templates: builders taking target signals, returning an assignable expression

def lhs_catalogue(W):
    """(name, target shapes, builder(targets..., aux...) , aux shapes)"""
    from amaranth.hdl import Cat, Array
    cat = []
    shs = [(w, s) for (w, s) in T.shapes_upto(W) if w in (0, 1, W - 1, W)]
    seen = set()
    shs = [x for x in shs if not (x in seen or seen.add(x))]
    for sh_ in shs:
        w = sh_[0]
        sh = sh_
        class _S(tuple):
            def __format__(self, spec):
                return repr(tuple(self)).replace(" ", "")
            __str__ = lambda self: repr(tuple(self)).replace(" ", "")
        sh = _S(sh_)
        cat.append((f"sig{sh}", [sh], [], lambda x: x))
        if w >= 1:
            cat.append((f"as_signed{sh}", [sh], [], lambda x: x.as_signed()))
        cat.append((f"as_unsigned{sh}", [sh], [], lambda x: x.as_unsigned()))
        for (a, b) in {(0, w), (0, max(w - 1, 0)), (min(1, w), w), (min(1, w), max(w - 1, min(1, w))), (w, w)}:
            cat.append((f"slice{sh}[{a}:{b}]", [sh], [], (lambda a, b: lambda x: x[a:b])(a, b)))
        for off_w in (0, 1, 2):
            for width in (0, 1, 2, w + 1):
                cat.append((f"bit_select{sh}({off_w},{width})", [sh], [(off_w, False)],
                            (lambda width: lambda x, o: x.bit_select(o, width))(width)))
                if width > 0:
                    cat.append((f"word_select{sh}({off_w},{width})", [sh], [(off_w, False)],
                                (lambda width: lambda x, o: x.word_select(o, width))(width)))
    two = [(1, False), (2, True), (W, False)]
    for sa in two:
        for sb in two:
            sa, sb = _S(sa), _S(sb)
            cat.append((f"cat{sa}{sb}", [sa, sb], [], lambda x, y: Cat(x, y)))
            for iw in (0, 1, 2):
                cat.append((f"array{sa}{sb}[{iw}]", [sa, sb], [(iw, False)], lambda x, y, i: Array([x, y])[i]))
            # a Mux as a target: a choice whose second case is a catch-all (only the FIRST matching case is written)
            for iw in (1, 2):
                cat.append((f"mux{sa}{sb}[{iw}]", [sa, sb], [(iw, False)], lambda x, y, i: __import__("amaranth").hdl.Mux(i, x, y)))
    # depth 2
    sh = (W, False)
    shs_ = (W, True)
    d2 = [
        ("slice-of-slice", [sh], [], lambda x: x[1:W][0:max(W - 2, 0)]),
        ("slice-of-part", [sh], [(2, False)], lambda x, o: x.bit_select(o, 2)[1:2]),
        ("part-of-slice", [sh], [(2, False)], lambda x, o: x[0:W - 1].bit_select(o, 2)),
        ("part-of-slice-wide", [(W + 1, False)], [(2, False)], lambda x, o: x[0:W - 1].bit_select(o, W)),
        ("word-of-slice", [(W + 1, True)], [(1, False)], lambda x, o: x[1:W].word_select(o, 2)),
        ("part-of-part", [sh], [(1, False), (1, False)], lambda x, o, p: x.bit_select(o, 2).bit_select(p, 2)),
        ("slice-of-cat", [sh, shs_], [], lambda x, y: Cat(x, y)[W - 1:W + 1]),
        ("cat-of-slices", [sh], [], lambda x: Cat(x[W - 1:W], x[0:1])),
        ("cat-overlap", [sh], [], lambda x: Cat(x[0:2], x[1:3])),
        ("cat-of-parts", [sh, shs_], [(1, False)], lambda x, y, o: Cat(x.bit_select(o, 1), y.bit_select(o, 2))),
        ("part-of-cat", [(2, False), (2, True)], [(2, False)], lambda x, y, o: Cat(x, y).bit_select(o, 2)),
        ("array-of-slices", [sh, shs_], [(1, False)], lambda x, y, i: Array([x[0:2], y])[i]),
        ("slice-of-array", [sh, shs_], [(1, False)], lambda x, y, i: Array([x, y])[i][1:W]),
        ("slice-of-array-of-slices", [sh, shs_], [(1, False)],
         lambda x, y, i: __import__("amaranth").hdl.Value.cast(Array([x[0:2], y])[i])[1:3]),
        ("signed-of-slice", [sh], [], lambda x: x[1:W].as_signed()),
        ("slice-of-signed", [sh], [], lambda x: x.as_signed()[0:W - 1]),
        ("array-mixed-width", [(1, False), (W, True), (2, False)], [(2, False)],
         lambda x, y, z, i: Array([x, y, z])[i]),
        ("part-of-array", [sh, (2, False)], [(1, False), (2, False)],
         lambda x, y, i, o: __import__("amaranth").hdl.Value.cast(Array([x, y])[i]).bit_select(o, 2)),
        # concatenations of three and more parts of different widths, whole and through windows reaching the later parts
        ("cat3", [sh, (2, True), (1, False)], [], lambda x, y, z: Cat(x, y, z)),
        ("slice-of-cat3-tail", [sh, (2, True), sh], [], lambda x, y, z: Cat(x, y, z)[W + 1:2 * W + 1]),
        ("slice-of-cat3-all", [(2, False), (1, True), sh], [], lambda x, y, z: Cat(x, y, z)[1:W + 2]),
        ("part-of-cat3", [(2, False), (1, False), (2, True)], [(3, False)], lambda x, y, z, o: Cat(x, y, z).bit_select(o, 3)),
        ("word-of-cat3", [(2, False), (3, False), (1, True)], [(2, False)], lambda x, y, z, o: Cat(x, y, z).word_select(o, 2)),
        ("slice-of-cat4", [sh, (1, False), (2, True)], [], lambda x, y, z: Cat(x[0:1], y, z, x[1:W])[1:W + 2]),
        ("const-part-of-cat3", [(2, False), (2, False), (2, True)], [], lambda x, y, z: Cat(x, y, z).bit_select(3, 3)),
    ]
    for name, tshs, ashs, fn in d2:
        cat.append((name, tshs, ashs, fn))
    return cat


def rhs_shapes(W):
    return [(0, False), (1, False), (1, True), (2, True), (W, False), (W, True), (W + 2, False), (W + 2, True)]


def stmt_templates(tier):
    W = 3 if tier == "quick" else 5
    out = []
    cat = lhs_catalogue(W)
    for k, (name, tshs, ashs, fn) in enumerate(cat):
        for rsh in rhs_shapes(W):
            for dom in ("comb", "sync"):
                out.append(("lhs", W, k, name, rsh, dom))
    for k in range(n_programs(tier)):
        for dom in ("comb", "sync"):
            out.append(("prog-sim", k, dom))
    return out


# ------------------------------------------------------------------------------------------------
# running a compiled single-fragment design against exec_stmts

def check_design(name, m, domain_of_interest=None, extra_assume=None):
    """stmt-sim obligations for every process of module `m`."""
    design, state, procs = capture.compile_design(m)
    frag = design.fragment
    parts = []
    for proc, src in procs:
        # which domain is this process?  comb <=> is_comb; otherwise find by waker registration
        if proc.is_comb:
            dom = "comb"
        else:
            doms = [d for d in frag.statements if d != "comb"]
            assert len(doms) == 1, doms
            dom = doms[0]
        stmts = frag.statements.get(dom, [])
        dmasks, dtable = driven_masks(stmts)
        all_sigs = [sl.signal for sl in state.slots]

        def body(path, proc=proc, dom=dom, stmts=stmts):
            curr, prev = Env(), Env()
            for k, sl in enumerate(state.slots):
                sh = sl.signal.shape()
                lo, hi = shape_range(sh.width, sh.signed)
                c = path.var(f"curr{k}", lo, hi)
                n = path.var(f"next{k}", lo, hi)
                sl.curr, sl.next, sl.updates = c, n, []
                curr[sl.signal] = c
                prev[sl.signal] = n
            # signals the compiled code never mentions (read only in branches that can never be active, which the simulator
            # does not emit) have no slot: any value
            known = {id(sl.signal) for sl in state.slots}
            for st_ in stmts:
                for sig in list(st_._rhs_signals()) + list(st_._lhs_signals()):
                    if id(sig) not in known:
                        known.add(id(sig))
                        sh = sig.shape()
                        curr[sig] = path.var(f"free_{sig.name}", *shape_range(sh.width, sh.signed))
                        prev[sig] = curr[sig]
            if dom != "comb":
                cd = frag.domains[dom]
                if cd.rst is not None:
                    path.assume(curr[cd.rst] == 0)
            if extra_assume is not None:
                path.assume(extra_assume(curr))
            proc.run()
            new = Env()
            for sig in all_sigs:
                if dom == "comb" and id(sig) in dmasks:
                    dm = dmasks[id(sig)]
                    sh = sig.shape()
                    new[sig] = norm((prev[sig] & ~dm) | (sig.init & dm), sh.width, sh.signed)
                else:
                    new[sig] = prev[sig]
            exec_stmts(stmts, curr, new)
            for k, sl in enumerate(state.slots):
                path.prove(f"{name}::{dom}::{sl.signal.name}#{k}", to_sint(sl.next) == to_sint(new[sl.signal]))

        x = Exploration(f"{name}#{dom}", body).run()
        parts.append(runner.from_exploration(name, x, {"source_excerpt": src[:500]}))
    res = runner.merge_results(name, parts)
    res["source_excerpt"] = procs[0][1][:500] if procs else None
    return res


def build_lhs_module(t):
    from amaranth.hdl import Signal, Module, Shape
    _, W, k, name, rsh, dom = t
    cname, tshs, ashs, fn = lhs_catalogue(W)[k]
    assert cname == name
    targets = [Signal(Shape(w, s), name=f"t{i}", init=(5 * i + 2) & ((1 << w) - 1) if not s else -((i + 1) % (1 << max(w - 1, 0))) if w else 0)
               for i, (w, s) in enumerate(tshs)]
    aux = [Signal(Shape(w, s), name=f"aux{i}") for i, (w, s) in enumerate(ashs)]
    rhs = Signal(Shape(*rsh), name="rhs")
    m = Module()
    lhs = fn(*targets, *aux)
    m.d[dom] += lhs.eq(rhs)
    return m


# ------------------------------------------------------------------------------------------------
# DSL programs.  Statement forms:
#   ("set", tgt, lo, hi, val)      tgt index into targets; val = int or ("in", k)
#   ("if", [(test, body), ...], else_body or None)      test = ("in", k)
#   ("switch", ("in", k), [(patterns or None for Default, body), ...])
# Inputs: list of shapes.  Targets: list of shapes.

def _set(t, lo, hi, v):
    return ("set", t, lo, hi, v)


IN = lambda k: ("in", k)

PROGRAMS = [
    # inputs, targets, body
    ([(1, False)], [(4, False)], [_set(0, 0, 4, 3), ("if", [(IN(0), [_set(0, 0, 4, 9)])], None)]),
    ([(1, False), (3, False), (2, True)], [(4, False)],
     [("if", [(IN(0), [_set(0, 0, 4, 1)]), (IN(1), [_set(0, 0, 4, 2)]), (IN(2), [_set(0, 0, 4, 3)])], [_set(0, 0, 4, 4)])]),
    ([(1, False), (3, False), (2, True)], [(4, False)],
     [("if", [(IN(0), [_set(0, 0, 4, 1)]), (IN(1), [_set(0, 0, 4, 2)]), (IN(2), [_set(0, 0, 4, 3)])], None)]),
    ([(2, False), (1, False), (1, False), (2, True)], [(4, False)],
     [("if", [(IN(0), [_set(0, 0, 2, 1)]), (IN(1), [_set(0, 1, 3, 2)]), (IN(2), [_set(0, 2, 4, 3)]), (IN(3), [_set(0, 0, 4, 5)])],
       [_set(0, 3, 4, 1)])]),
    # statements before/after a block: program order
    ([(1, False), (1, False)], [(4, False)],
     [_set(0, 0, 4, 15), ("if", [(IN(0), [_set(0, 0, 2, 0)])], [_set(0, 2, 4, 0)]), _set(0, 1, 3, IN(1))]),
    # nested if in if, with else on the inner one only
    ([(1, False), (2, False), (1, False)], [(4, False), (2, True)],
     [("if", [(IN(0), [("if", [(IN(1), [_set(0, 0, 4, 7)])], [_set(1, 0, 2, 1)]), _set(0, 3, 4, 1)])],
       [("if", [(IN(2), [_set(1, 0, 2, 2)])], None)])]),
    # two adjacent ifs (second must not be taken as elif of the first)
    ([(1, False), (1, False)], [(4, False)],
     [("if", [(IN(0), [_set(0, 0, 4, 1)])], None), ("if", [(IN(1), [_set(0, 0, 4, 2)])], [_set(0, 0, 2, 3)])]),
    # switch: integers, multi-pattern, don't care strings with whitespace, default in the middle
    ([(3, False)], [(4, False)],
     [("switch", IN(0), [((0,), [_set(0, 0, 4, 1)]), ((1, 2), [_set(0, 0, 4, 2)]), (("1-0", "11 1"), [_set(0, 0, 4, 3)]),
                         (None, [_set(0, 0, 4, 4)])])]),
    ([(3, True)], [(4, False)],
     [("switch", IN(0), [((-1,), [_set(0, 0, 4, 1)]), ((3, -4), [_set(0, 0, 4, 2)]), (("0--",), [_set(0, 0, 4, 3)])])]),
    # default first then a case (never active), case after default
    ([(2, False)], [(4, False)],
     [("switch", IN(0), [((1,), [_set(0, 0, 4, 1)]), (None, [_set(0, 0, 4, 2)]), ((2,), [_set(0, 0, 4, 3)])])]),
    ([(2, False)], [(4, False)],
     [("switch", IN(0), [(None, [_set(0, 0, 4, 2)]), ((2,), [_set(0, 0, 4, 3)])])]),
    # unreachable (duplicate) case, not-representable pattern, empty pattern list
    ([(2, False)], [(4, False)],
     [("switch", IN(0), [((1,), [_set(0, 0, 4, 1)]), ((1,), [_set(0, 0, 4, 2)]), ((7,), [_set(0, 0, 4, 3)]),
                         ((), [_set(0, 0, 4, 4)]), ((3,), [_set(0, 0, 4, 5)])])]),
    # never-matching cases (empty pattern list, not-representable pattern) in a switch that also has don't-care patterns
    # (the simulator lowers such a switch to an if/elif chain instead of a match statement), before and after the default
    ([(3, False)], [(4, False)],
     [("switch", IN(0), [(("1--",), [_set(0, 0, 4, 1)]), ((), [_set(0, 0, 4, 2)]), ((2,), [_set(0, 0, 4, 3)]),
                         ((9,), [_set(0, 0, 4, 4)]), (("0-1",), [_set(0, 0, 4, 5)]), (None, [_set(0, 0, 4, 6)])])]),
    ([(3, False)], [(4, False)],
     [("switch", IN(0), [((9,), [_set(0, 0, 4, 4)]), (("-1-",), [_set(0, 0, 4, 1)]), (None, [_set(0, 0, 4, 6)]), ((), [_set(0, 0, 4, 2)])])]),
    ([(2, True)], [(4, False)],
     [("switch", IN(0), [((), [_set(0, 0, 4, 2)]), (("1-",), [_set(0, 0, 4, 1)]), ((1,), [_set(0, 0, 4, 3)])])]),
    # an unconditional whole-signal assignment AFTER conditional / partial ones wins (program order, not "default first")
    ([(1, False), (4, False)], [(4, False)],
     [("if", [(IN(0), [_set(0, 0, 4, 1)])], None), _set(0, 0, 4, IN(1))]),
    ([(2, False), (4, False)], [(4, False)],
     [("switch", IN(0), [((1,), [_set(0, 0, 4, 3)]), (None, [_set(0, 1, 3, 2)])]), _set(0, 0, 4, IN(1))]),
    ([(1, False), (4, False)], [(4, False)],
     [_set(0, 0, 2, 1), ("if", [(IN(0), [_set(0, 2, 4, 3)])], [_set(0, 0, 4, 7)]), _set(0, 0, 4, IN(1)), ("if", [(IN(0), [_set(0, 3, 4, 0)])], None)]),
    # the same inner test (same patterns, same source line) under DIFFERENT enclosing conditions -- as written by a loop
    ([(1, False), (1, False), (1, False)], [(4, False)],
     [("if", [(IN(0), [("if", [(IN(2), [_set(0, 0, 1, 1)])], None)])], None),
      ("if", [(IN(1), [("if", [(IN(2), [_set(0, 1, 2, 1)])], None)])], None)]),
    ([(1, False), (1, False), (2, False)], [(4, False)],
     [("if", [(IN(0), [("switch", IN(2), [((1,), [_set(0, 0, 2, 1)]), (None, [_set(0, 0, 2, 2)])])]),
              (IN(1), [("switch", IN(2), [((1,), [_set(0, 2, 4, 1)]), (None, [_set(0, 2, 4, 2)])])])], None)]),
    # a Case / If branch with an EMPTY body still takes part in the selection: it shadows later overlapping blocks
    ([(2, False)], [(4, False)],
     [("switch", IN(0), [((1,), []), (("-1",), [_set(0, 0, 4, 3)]), (None, [_set(0, 0, 4, 6)])])]),
    ([(2, False)], [(4, False)],
     [_set(0, 0, 4, 9), ("switch", IN(0), [((0, 2), [_set(0, 0, 2, 1)]), ((), []), ((3,), []), (None, [_set(0, 2, 4, 2)])])]),
    ([(1, False), (1, False)], [(4, False)],
     [("if", [(IN(0), []), (IN(1), [_set(0, 0, 4, 3)])], [_set(0, 0, 4, 6)])]),
    # zero-width test
    ([(0, False)], [(4, False)],
     [("switch", IN(0), [((0,), [_set(0, 0, 4, 1)]), (None, [_set(0, 0, 4, 2)])])]),
    ([(0, False)], [(4, False)],
     [("switch", IN(0), [(("",), [_set(0, 0, 2, 1)])]), ("if", [(IN(0), [_set(0, 2, 4, 3)])], [_set(0, 2, 4, 1)])]),
    # switch in if in switch
    ([(2, False), (1, False), (2, True)], [(4, False), (3, True)],
     [("switch", IN(0), [((0, 3), [("if", [(IN(1), [("switch", IN(2), [((-1,), [_set(0, 0, 4, 9)]), (None, [_set(1, 0, 3, 2)])])])],
                                     [_set(0, 0, 2, 1)])]),
                         (("1-",), [_set(1, 0, 3, IN(2))])]),
      _set(0, 3, 4, IN(1))]),
    # if in switch with assignments to slices of the same target in several branches
    ([(2, False), (2, False)], [(4, False)],
     [_set(0, 0, 4, 5), ("switch", IN(0), [((1,), [("if", [(IN(1), [_set(0, 0, 1, 0)])], [_set(0, 1, 2, 1)])]),
                                            (None, [_set(0, 2, 4, IN(1))])])]),
    # integer patterns that fit the test's WIDTH but not its sign domain (5 against signed(3), -1 against unsigned(2)): they compare as
    # integers, so they never match -- in particular not the value they are congruent to -- and must not shadow later cases
    ([(3, True)], [(4, False)],
     [("switch", IN(0), [((5,), [_set(0, 0, 4, 1)]), ((-3,), [_set(0, 0, 4, 2)]), ((4, 7), [_set(0, 0, 4, 4)]), (None, [_set(0, 0, 4, 3)])])]),
    ([(2, False)], [(4, False)],
     [("switch", IN(0), [((-1,), [_set(0, 0, 4, 1)]), ((3,), [_set(0, 0, 4, 2)]), ((-2, -3), [_set(0, 0, 4, 4)]), (None, [_set(0, 0, 4, 3)])])]),
    # a Default / Case / Else body that ENDS with an else-less If (or If/Elif): the pending If belongs to that body
    ([(2, False), (1, False)], [(4, False), (2, False)],
     [("switch", IN(0), [((1,), [_set(0, 0, 4, 1)]), (None, [_set(1, 0, 2, 1), ("if", [(IN(1), [_set(0, 0, 4, 3)])], None)])])]),
    ([(2, False), (1, False), (1, False)], [(4, False)],
     [("switch", IN(0), [((1,), [_set(0, 0, 4, 1), ("if", [(IN(1), [_set(0, 0, 2, 2)]), (IN(2), [_set(0, 2, 4, 3)])], None)]),
                         ((2,), [("if", [(IN(2), [_set(0, 0, 4, 9)])], None)]),
                         (None, [("if", [(IN(1), [_set(0, 0, 4, 7)]), (IN(2), [_set(0, 0, 4, 8)])], None)])]),
      _set(0, 3, 4, IN(1))]),
    ([(1, False), (1, False), (2, False)], [(4, False)],
     [("if", [(IN(0), [_set(0, 0, 4, 1)])], [("switch", IN(2), [(None, [("if", [(IN(1), [_set(0, 0, 4, 5)])], None)])])]),
      ("switch", IN(2), [((0,), [_set(0, 0, 1, 1)]), (None, [("switch", IN(2), [((3,), []), (None, [("if", [(IN(1), [_set(0, 1, 3, 3)])], None)])])])])]),
]


class _Lcg:
    """Own tiny generator: the generated programs must be the same on every run and every Python version."""
    def __init__(self, seed):
        self.x = seed & 0xFFFFFFFF

    def next(self, n):
        self.x = (1103515245 * self.x + 12345) & 0x7FFFFFFF
        return (self.x >> 8) % n

    def pick(self, xs):
        return xs[self.next(len(xs))]


def _gen_program(g):
    """One control-flow program drawn from the grammar above: 2-4 inputs (widths 0-3, some signed), 1-2 targets, If/Elif/Else and
    Switch/Case/Default nested up to depth 3, slices of the targets assigned constants or inputs, cases with integer, don't-care,
    unrepresentable and empty pattern lists, Default anywhere, empty bodies."""
    n_in = 2 + g.next(3)
    in_shs = []
    for _ in range(n_in):
        w = g.pick([0, 1, 1, 2, 2, 3])
        in_shs.append((w, bool(w and g.next(3) == 0)))
    tg_shs = [(g.pick([1, 2, 4, 4]), g.next(4) == 0) for _ in range(1 + g.next(2))]

    def gset():
        t = g.next(len(tg_shs))
        w = tg_shs[t][0]
        lo = g.next(w)
        hi = lo + 1 + g.next(w - lo)
        if g.next(3) == 0:
            lo, hi = 0, w
        v = IN(g.next(n_in)) if g.next(3) == 0 else g.next(1 << (hi - lo))
        return _set(t, lo, hi, v)

    def gpat(w, sg):
        k = g.next(10)
        if k < 5:
            return (-(1 << (w - 1)) + g.next(1 << w)) if sg else g.next(1 << w)
        if k < 8:
            return "".join(g.pick("01-") for _ in range(w))
        if k == 8:
            return (1 << w) + g.next(2) if not sg else (1 << (w - 1)) + g.next(2)       # not representable: never matches
        return g.next(1 << w) if not sg else -1 - g.next(1 << (w - 1)) if w else 0

    def gbody(depth):
        out = []
        for _ in range(g.pick([0, 1, 1, 1, 2]) if depth else 1 + g.next(3)):
            k = g.next(10)
            if k < 4 + 2 * depth or depth >= 3:
                out.append(gset())
            elif k < 7:
                arms = [(IN(g.next(n_in)), gbody(depth + 1)) for _ in range(g.pick([1, 1, 2, 3]))]
                els = gbody(depth + 1) if g.next(2) else None
                out.append(("if", arms, els))
            else:
                ti = g.next(n_in)
                w, sg = in_shs[ti]
                cases = []
                have_default = False
                for _ in range(g.pick([1, 2, 2, 3, 4])):
                    if not have_default and g.next(5) == 0:
                        cases.append((None, gbody(depth + 1)))
                        have_default = True
                    else:
                        npat = g.pick([0, 1, 1, 1, 2, 3])
                        cases.append((tuple(gpat(w, sg) for _ in range(npat)), gbody(depth + 1)))
                out.append(("switch", IN(ti), cases))
        return out
    return (in_shs, tg_shs, gbody(0))


N_HANDWRITTEN = len(PROGRAMS)
N_GENERATED = {"quick": 40, "thorough": 400}
_g = _Lcg(20260922)
PROGRAMS = PROGRAMS + [_gen_program(_g) for _ in range(N_GENERATED["thorough"])]


def n_programs(tier):
    return N_HANDWRITTEN + N_GENERATED["quick" if tier == "quick" else "thorough"]


def build_program(prog, dom):
    """Builds the program with the real Module DSL; returns (module, inputs, targets)."""
    from amaranth.hdl import Signal, Module, Shape
    in_shs, tg_shs, body = prog
    inputs = [Signal(Shape(w, s), name=f"in{i}") for i, (w, s) in enumerate(in_shs)]
    targets = [Signal(Shape(w, s), name=f"tg{i}", init=(3 * i + 6) & ((1 << w) - 1) if not s else -1)
               for i, (w, s) in enumerate(tg_shs)]
    m = Module()

    def val(v):
        return inputs[v[1]] if isinstance(v, tuple) else v

    def emit(stmts):
        for st in stmts:
            if st[0] == "set":
                _, t, lo, hi, v = st
                m.d[dom] += targets[t][lo:hi].eq(val(v))
            elif st[0] == "if":
                _, arms, els = st
                for i, (test, b) in enumerate(arms):
                    ctx = m.If(val(test)) if i == 0 else m.Elif(val(test))
                    with ctx:
                        emit(b)
                if els is not None:
                    with m.Else():
                        emit(els)
            elif st[0] == "switch":
                _, test, cases = st
                with m.Switch(val(test)):
                    for pats, b in cases:
                        ctx = m.Default() if pats is None else m.Case(*pats)
                        with ctx:
                            emit(b)
            else:
                raise KeyError(st[0])
    import warnings
    with warnings.catch_warnings():
        warnings.simplefilter("ignore")
        emit(body)
    return m, inputs, targets


def ref_pattern(p, tv, tsh):
    """Documented meaning of one Case pattern against a test value `tv` of shape `tsh`."""
    w, s = tsh
    if isinstance(p, str):
        bits = "".join(p.split())
        return pattern_matches(bits, tv & mask(w), w)
    return tv == p        # integers compare as integers; unrepresentable ones never match


def ref_exec(prog, dom, inputs, targets, env_curr, new, body=None, cond=True):
    in_shs, tg_shs, top = prog
    if body is None:
        body = top

    def val(v):
        return env_curr[inputs[v[1]]] if isinstance(v, tuple) else v
    for st in body:
        if st[0] == "set":
            _, t, lo, hi, v = st
            tg = targets[t]
            w, s = tg_shs[t]
            cur = new[tg] & mask(w)
            upd = (cur & ~(mask(hi - lo) << lo)) | ((val(v) & mask(hi - lo)) << lo)
            new[tg] = ite(cond, norm(upd, w, s), new[tg]) if cond is not True else norm(upd, w, s)
        elif st[0] == "if":
            _, arms, els = st
            earlier = False
            for test, b in arms:
                c = val(test) != 0
                ref_exec(prog, dom, inputs, targets, env_curr, new, b, _and(cond, _and(c, _not(earlier))))
                earlier = _or(earlier, c)
            if els is not None:
                ref_exec(prog, dom, inputs, targets, env_curr, new, els, _and(cond, _not(earlier)))
        elif st[0] == "switch":
            _, test, cases = st
            tv = val(test)
            tsh = in_shs[test[1]]
            earlier = False
            for pats, b in cases:
                if pats is None:
                    c = True
                else:
                    cs = [ref_pattern(p, tv, tsh) for p in pats]
                    c = any_of(cs) if cs else False
                ref_exec(prog, dom, inputs, targets, env_curr, new, b, _and(cond, _and(c, _not(earlier))))
                earlier = _or(earlier, c)


def check_dsl(k, dom):
    from amaranth.hdl._ir import Fragment
    prog = PROGRAMS[k]
    name = f"prog{k}/{dom}"
    m, inputs, targets = build_program(prog, dom)
    frag = Fragment.get(m, platform=None)
    stmts = frag.statements.get(dom, [])

    def body(path):
        curr, new_a, new_b = Env(), Env(), Env()
        for i, sig in enumerate(inputs + targets):
            sh = sig.shape()
            lo, hi = shape_range(sh.width, sh.signed)
            c = path.var(f"curr_{sig.name}", lo, hi)
            n = path.var(f"prev_{sig.name}", lo, hi)
            curr[sig] = c
            new_a[sig] = n
            new_b[sig] = n
        exec_stmts(stmts, curr, new_a)
        ref_exec(prog, dom, inputs, targets, curr, new_b)
        for sig in targets:
            path.prove(f"{name}::dsl::{sig.name}", to_sint(new_a[sig]) == to_sint(new_b[sig]))
        # every signal the lowered statements mention is one of ours (no hidden state)
    x = Exploration(name + "#dsl", body).run()
    return runner.from_exploration(name, x, {"source_excerpt": repr(stmts)[:500]})


# ------------------------------------------------------------------------------------------------
# FSM

FSMS = [
    # (states in definition order, init or None, transitions {state: [(cond input or None, target)]}, refs-before-def)
    (["A", "B", "C"], None, {"A": [(0, "B")], "B": [(1, "C"), (0, "A")], "C": [(None, "A")]}),
    (["A", "B", "C", "D"], "C", {"A": [(0, "D")], "B": [(None, "B")], "C": [(0, "B"), (1, "A")], "D": []}),
    (["IDLE", "RUN"], None, {"IDLE": [(0, "RUN")], "RUN": [(1, "IDLE"), (0, "RUN")]}),
    (["X"], None, {"X": [(0, "X")]}),
    # forward reference: first transition names a state defined last
    (["S0", "S1", "S2", "S3", "S4"], "S1", {"S0": [(0, "S4")], "S1": [(1, "S3"), (0, "S2")], "S2": [(None, "S0")],
                                            "S3": [(0, "S0")], "S4": [(1, "S1")]}),
]


def check_fsm(k, domain="sync"):
    from amaranth.hdl import Signal, Module
    from amaranth.hdl._ir import Fragment
    states, init, trans = FSMS[k]
    name = f"fsm{k}" + ("" if domain == "sync" else f"[domain={domain}]")
    m = Module()
    ins = [Signal(name="i0"), Signal(name="i1")]
    out = Signal(range(len(states) + 1), name="out")
    ongoing_early = {}
    with (m.FSM(init=init) if domain == "sync" else m.FSM(init=init, domain=domain)) as fsm:
        # reference `ongoing` for the last state before any state is defined
        ongoing_early[states[-1]] = fsm.ongoing(states[-1])
        for si, s in enumerate(states):
            with m.State(s):
                m.d.comb += out.eq(si + 1)
                for cond, tgt in trans[s]:
                    if cond is None:
                        m.next = tgt
                    else:
                        with m.If(ins[cond]):
                            m.next = tgt
    ongoing = {s: fsm.ongoing(s) for s in states}
    frag = Fragment.get(m, platform=None)
    st = fsm.state
    enc = dict(fsm.encoding)
    obs = []

    def closed(nm, ok, detail=None):
        obs.append({"name": f"{name}::{nm}", "kind": "post", "status": "proved" if ok else "refuted",
                    "backend": "closed", "time_s": 0.0, **({"model": detail} if not ok else {})})
    sh = st.shape()
    closed("encodings-distinct", len(set(enc.values())) == len(enc) == len(states), {"encoding": repr(enc)})
    closed("encodings-representable", all(0 <= v < (1 << sh.width) for v in enc.values()),
           {"encoding": repr(enc), "width": sh.width})
    want_init = init if init is not None else states[0]
    closed("initial-state", st.init == enc[want_init], {"init": st.init, "expected": enc.get(want_init)})
    closed("ongoing-early-is-same-signal", ongoing_early[states[-1]] is ongoing[states[-1]])

    sync = frag.statements.get(domain, [])
    comb = frag.statements.get("comb", [])
    # an FSM lives entirely in its own domain (and comb): the state register is clocked by no other
    closed("statements-only-in-the-fsm-domain", set(frag.statements) <= {"comb", domain}, {"domains with statements": sorted(frag.statements)})

    def body(path):
        lo, hi = shape_range(sh.width, sh.signed)
        sv = path.var("state", lo, hi)
        path.assume(Or(*[sv == v for v in enc.values()]))     # representation invariant
        i0, i1 = path.var("i0", 0, 1), path.var("i1", 0, 1)
        curr = Env([(st, sv), (ins[0], i0), (ins[1], i1), (out, path.var("out_c", 0, (1 << len(out)) - 1))])
        for s, sig in ongoing.items():
            curr[sig] = path.var(f"og_{s}", 0, 1)
        # comb: ongoing and out
        newc = Env(curr)
        dm, _ = driven_masks(comb)
        for sig in list(ongoing.values()) + [out]:
            newc[sig] = sig.init
        exec_stmts(comb, curr, newc)
        for si, s in enumerate(states):
            path.prove(f"{name}::ongoing[{s}]", to_sint(newc[ongoing[s]]) == ite(sv == enc[s], 1, 0))
            path.prove(f"{name}::state-body-active[{s}]", sym.Implies(sv == enc[s], to_sint(newc[out]) == si + 1))
        # sync: next state
        news = Env(curr)
        exec_stmts(sync, curr, news)
        exp = sv
        for s in states:
            tgt_v = None
            nxt = sv
            # last active m.next wins within a state
            for cond, tgt in trans[s]:
                c = True if cond is None else ([i0, i1][cond] != 0)
                nxt = ite(c, enc[tgt], nxt) if c is not True else SInt.const(enc[tgt])
            exp = ite(sv == enc[s], nxt, exp)
        path.prove(f"{name}::next-state", to_sint(news[st]) == to_sint(exp))
        path.prove(f"{name}::invariant-preserved", Or(*[to_sint(news[st]) == v for v in enc.values()]))
    x = Exploration(name, body).run()
    res = runner.from_exploration(name, x)
    res["obligations"] = obs + res["obligations"]
    return res


def check_fsm_nested():
    """An FSM nested in a State of another FSM: `m.next` binds to the innermost enclosing FSM."""
    from amaranth.hdl import Signal, Module
    from amaranth.hdl._ir import Fragment
    name = "fsm-nested"
    m = Module()
    i0, i1 = Signal(name="i0"), Signal(name="i1")
    with m.FSM(name="outer") as outer:
        with m.State("IDLE"):
            with m.If(i0):
                m.next = "BUSY"
        with m.State("BUSY"):
            with m.FSM(name="inner") as inner:
                with m.State("A"):
                    with m.If(i1):
                        m.next = "B"
                with m.State("B"):
                    m.next = "A"
                    with m.If(i0 & i1):
                        m.next = "DONE"
                with m.State("DONE"):
                    pass
            with m.If(inner.ongoing("DONE")):
                m.next = "IDLE"
    frag = Fragment.get(m, platform=None)
    so, si = outer.state, inner.state
    eo, ei = dict(outer.encoding), dict(inner.encoding)
    sync = frag.statements.get("sync", [])
    comb = frag.statements.get("comb", [])
    done = inner.ongoing("DONE")

    def body(path):
        ov = path.var("outer", *shape_range(so.shape().width, False))
        iv = path.var("inner", *shape_range(si.shape().width, False))
        path.assume(Or(*[ov == v for v in eo.values()]))
        path.assume(Or(*[iv == v for v in ei.values()]))
        a, b = path.var("i0", 0, 1), path.var("i1", 0, 1)
        curr = Env([(so, ov), (si, iv), (i0, a), (i1, b)])
        # ongoing() signals are comb outputs: evaluate comb first, then feed them as current values
        og = {}
        for fsm_ in (outer, inner):
            for nm, sig in fsm_._data["ongoing"].items():
                curr[sig] = 0
        newc = Env(curr)
        exec_stmts(comb, curr, newc)
        path.prove(f"{name}::ongoing-done", to_sint(newc[done]) == ite(iv == ei["DONE"], 1, 0))
        curr2 = Env(newc)
        news = Env(curr2)
        exec_stmts(sync, curr2, news)
        busy = ov == eo["BUSY"]
        exp_inner = ite(busy,
                        ite(iv == ei["A"], ite(b != 0, ei["B"], iv),
                            ite(iv == ei["B"], ite(sym.And(a != 0, b != 0), ei["DONE"], ei["A"]), iv)),
                        iv)
        exp_outer = ite(ov == eo["IDLE"], ite(a != 0, eo["BUSY"], ov),
                        ite(busy, ite(iv == ei["DONE"], eo["IDLE"], ov), ov))
        path.prove(f"{name}::inner-next", to_sint(news[si]) == to_sint(exp_inner))
        path.prove(f"{name}::outer-next", to_sint(news[so]) == to_sint(exp_outer))
    return runner.from_exploration(name, Exploration(name, body).run())


# ------------------------------------------------------------------------------------------------

def tasks(tier):
    ts = stmt_templates(tier)
    chunk = 12
    out = [("chunk", tuple(ts[i:i + chunk])) for i in range(0, len(ts), chunk)]
    out += [("dsl", k, dom) for k in range(n_programs(tier)) for dom in ("comb", "sync")]
    # the same programs through the netlist lowering (hdl/_ir.py) and the RTLIL back end: C04's evaluators, this property's programs
    out += [("netlist", k, dom) for k in range(n_programs(tier)) for dom in ("comb", "sync")]
    out += [("fsm", k) for k in range(len(FSMS))] + [("fsm", 0, "slow"), ("fsm", 4, "slow")]
    out += [("fsm-nested",)]
    return out


def canaries(tier):
    return [("canary-lhs",), ("canary-dsl",)]


def run_one(t):
    if t[0] == "lhs":
        return check_design(T.tid(t), build_lhs_module(t))
    if t[0] == "prog-sim":
        m, _i, _t = build_program(PROGRAMS[t[1]], t[2])
        return check_design(T.tid(t), m)
    raise KeyError(t[0])


def run_task(task):
    kind = task[0]
    if kind == "chunk":
        parts = [runner.guarded(T.tid(t), run_one, t) for t in task[1]]
        r = runner.merge_results(f"chunk[{T.tid(task[1][0])}..]", parts)
        r["source_excerpt"] = parts[0].get("source_excerpt")
        return r
    if kind == "dsl":
        return check_dsl(task[1], task[2])
    if kind == "netlist":
        from . import c04
        r = c04.unit_prog(("prog-sim", task[1], task[2]))
        for o in r["obligations"]:
            o["name"] = "netlist::" + o["name"]
        return r
    if kind == "fsm":
        return check_fsm(task[1], *(task[2:3]))
    if kind == "fsm-nested":
        return check_fsm_nested()
    if kind == "canary-lhs":
        # a module whose reference is deliberately computed on a different statement list
        from amaranth.hdl import Signal, Module
        a, b = Signal(4, name="a"), Signal(4, name="b")
        m = Module()
        m.d.comb += a[1:3].eq(b)
        m2 = Module()
        m2.d.comb += a[1:4].eq(b)
        design, state, procs = capture.compile_design(m)
        frag2 = capture.elaborate(m2).fragment

        def body(path):
            curr, prev = Env(), Env()
            for k, sl in enumerate(state.slots):
                c = path.var(f"c{k}", 0, 15)
                n = path.var(f"n{k}", 0, 15)
                sl.curr, sl.next = c, n
                curr[sl.signal], prev[sl.signal] = c, n
            procs[0][0].run()
            new = Env(prev)
            new[a] = (prev[a] & ~0b1110) | (a.init & 0b1110)
            exec_stmts(frag2.statements["comb"], curr, new)
            path.prove("canary::a", to_sint(state.slot(a).next) == to_sint(new[a]))
        return runner.from_exploration("canary-lhs", Exploration("canary-lhs", body).run())
    if kind == "canary-dsl":
        global PROGRAMS
        saved = PROGRAMS
        # reference computed for a program whose Elif order is swapped
        p = saved[1]
        swapped = (p[0], p[1], [("if", [p[2][0][1][1], p[2][0][1][0], p[2][0][1][2]], p[2][0][2])])
        m, inputs, targets = build_program(p, "comb")
        from amaranth.hdl._ir import Fragment
        stmts = Fragment.get(m, platform=None).statements["comb"]

        def body(path):
            curr, na, nb = Env(), Env(), Env()
            for sig in inputs + targets:
                sh = sig.shape()
                lo, hi = shape_range(sh.width, sh.signed)
                curr[sig] = path.var(f"c_{sig.name}", lo, hi)
                na[sig] = nb[sig] = path.var(f"p_{sig.name}", lo, hi)
            exec_stmts(stmts, curr, na)
            ref_exec(swapped, "comb", inputs, targets, curr, nb)
            path.prove("canary::dsl", to_sint(na[targets[0]]) == to_sint(nb[targets[0]]))
        return runner.from_exploration("canary-dsl", Exploration("canary-dsl", body).run())
    raise KeyError(kind)


# ------------------------------------------------------------------------------------------------
# replay: concrete run of the real simulator for the refuting model

def _concrete_replay(m, model, name):
    """Drive the real simulator: set every signal to the model's `curr` value... only meaningful for
    comb templates with inputs; returns a dict describing the mismatch, or None."""
    return None


def find_failing_input(res, ob):
    name = ob["name"]
    if name.startswith("netlist::"):
        from . import c04
        ob2 = dict(ob)
        ob2["name"] = name[len("netlist::"):]
        return c04.find_failing_input(res, ob2)
    tname = name.split("::")[0].split("#")[0]
    model = ob.get("model")
    if model is None:
        return None
    try:
        t = eval(tname, {"__builtins__": {}}, {"None": None, "True": True, "False": False})
    except Exception:
        return None
    if not isinstance(t, tuple) or t[0] not in ("lhs", "prog-sim"):
        return None
    return replay_template(t, model, name)


def replay_template(t, model, obname):
    """Re-run the design on the real simulator with the model's signal values and compare every
    signal with the reference semantics computed on plain integers."""
    from amaranth.sim import Simulator
    from amaranth.hdl import Signal
    dom = t[-1]
    if t[0] == "lhs":
        m = build_lhs_module(t)
    else:
        m, _i, _t = build_program(PROGRAMS[t[1]], t[2])
    design, state, procs = capture.compile_design(m)
    sigs = [sl.signal for sl in state.slots]
    frag = design.fragment
    stmts = frag.statements.get(dom, [])
    dmasks, _ = driven_masks(stmts)
    curr_vals = {k: model.get(f"curr{k}", 0) for k in range(len(sigs))}
    next_vals = {k: model.get(f"next{k}", 0) for k in range(len(sigs))}
    # real engine: set curr/next of the real slots directly, run the real process once
    from amaranth.sim.pysim import _PyEngineState
    from amaranth.sim._pyrtl import _FragmentCompiler
    real_state = _PyEngineState()
    real_procs = _FragmentCompiler(real_state)(frag)
    for k, sig in enumerate(sigs):
        sl = real_state.slots[real_state.get_signal(sig)]
        sl.curr = curr_vals[k]
        sl.next = next_vals[k]
    for p in real_procs:
        if p.is_comb == (dom == "comb"):
            p.run()
    curr, new = Env(), Env()
    for k, sig in enumerate(sigs):
        curr[sig] = curr_vals[k]
        if dom == "comb" and id(sig) in dmasks:
            sh = sig.shape()
            new[sig] = norm((next_vals[k] & ~dmasks[id(sig)]) | (sig.init & dmasks[id(sig)]), sh.width, sh.signed)
        else:
            new[sig] = next_vals[k]
    exec_stmts(stmts, curr, new)
    bad = {}
    for k, sig in enumerate(sigs):
        got = real_state.slots[real_state.get_signal(sig)].next
        want = int(new[sig])
        if got != want:
            bad[f"{sig.name}#{k}"] = {"observed_next": got, "expected_next": want}
    if bad:
        return {"template": T.tid(t), "statements": repr(stmts)[:400],
                "curr": {f"{s.name}#{k}": curr_vals[k] for k, s in enumerate(sigs)},
                "prev_next": {f"{s.name}#{k}": next_vals[k] for k, s in enumerate(sigs)},
                "mismatch": bad,
                "how": "real _FragmentCompiler + real _PySignalState slots set to these values, process run once"}
    return None


def replay(data):
    t = eval(data["obligation"].split("::")[0].split("#")[0], {"__builtins__": {}},
             {"None": None, "True": True, "False": False})
    if isinstance(t, tuple) and t[0] in ("lhs", "prog-sim") and data.get("model"):
        return replay_template(t, data["model"], data["obligation"]) is not None
    r = run_task(("dsl", int(data["task"].split("prog")[1].split("/")[0]), data["task"].split("/")[1])) \
        if data["task"].startswith("prog") else (run_task(("fsm-nested",)) if data["task"] == "fsm-nested"
                                                 else run_task(("fsm", int(data["task"][3:].split("[")[0]),
                                                                *([data["task"].split("domain=")[1].rstrip("]")] if "domain=" in data["task"] else []))))
    return any(o["status"] == "refuted" for o in r["obligations"])
