"""C08 -- simulation results do not depend on process scheduling order; exact time.

Function contracts on the real simulator state classes (amaranth/sim/pysim.py, _pyclock.py, _pyrtl.py
wakers), executed on proxy values over all paths:

  _PySignalState.update    next' == (next & ~mask) | (value & mask); self in pending iff it changed (or was)
  update-commutes          two masked updates with disjoint masks commute (the frame fact behind
                           order-independence of the eval phase)
  _PySignalState.commit    curr' == next; returns True iff changed; wakers run iff changed, with (old, new);
                           a waker returning False is dropped, others kept in order (_run_wakers)
  _PyMemoryState.read      committed row if 0 <= addr < depth else 0
  _PyMemoryState.write     merges under the mask into the queue entry (initialised from the committed row);
                           no-op out of range; signed rows re-normalised; commutes for disjoint masks / rows
  _PyMemoryState.commit    applies the queue; returns True iff some row changed
  _PyEngineState.commit    converged iff nothing changed; pending cleared
  edge_waker / trigger edge waker     runnable set iff the bit changed to the polarity
  _PyTimeline.advance      now' == min(deadlines); exactly the wakers with that deadline fire and are removed;
                           the others are untouched; False iff there are none
  PyClockProcess.run       first wake-up `phase` after start, then a toggle every period // 2  (ghost: k-th
                           toggle at phase + (k-1) * (period // 2))
  frame rule               every captured run() body of the designs of C12/C17 reads slots only through
                           `.curr` / its own `.next`, and writes only through update()/write() with a constant
                           mask (syntactic check on the generated text)
  testbench order          PySimEngine.advance iterates `_testbenches`, a list appended in add order
                           (ordered-source rule, syntactic)
Engine level (checks/c08_engine.py): the REAL PySimEngine -- delta-cycle loop, triggers, coroutine scheduler,
testbench context -- runs natively on symbolic register contents and stimuli (every comparison it makes forks):
  engine[chain,...]        ctx.set() returns only after all consequences have settled; tick().sample() returns pre-edge
                           values; a shift chain spread over three fragments has no race; identical for every iteration
                           order of the engine's process set
  engine[process=circuit]  an add_process coroutine (combinational / clocked) is observably equal to the circuit it replaces
  kernel-agrees[design]    the composition model of harness/kernel.py gives the same value on every signal and memory row
                           as the real engine, from the same arbitrary (consistent) state, after a clock event -- for counter,
                           FSM, inserters, FF/Async/Pulse synchronisers (simultaneous events included), crc.Processor, Memory,
                           SyncFIFO, SyncFIFOBuffered; thorough: AsyncFIFO from the states of the C13 invariant
Bounded stand-ins (never counted as proved): Period constructors are exact for integer arguments.
"""
import ast
import types

from pyvc.explore import Exploration
from pyvc.sym import SInt, SBool, to_sint, And, Or, Not, Implies, ite, is_sym
from pyvc import runner, source
from spec.sem import norm, mask, shape_range

PROPERTY = "C08"

META = {
    "level": "proof",
    "trusted_base": [
        "pyvc symbolic integer encoding; z3 / cvc5",
        "CPython executing the real methods on proxy values",
        "the diamond argument from pairwise commutation of process effects to order-independence of the eval "
        "phase is stated in prose (DESIGN.md 4/C08), not mechanised",
    ],
    "assumptions": [
        "widths <= 8, memory depth <= 3, at most 4 timeline wakers (all values)",
        "engine-level clauses (settling before set() returns, tick/sample ordering, process = circuit, order independence of the "
        "process set) are decided for the enumerated designs / testbenches of checks/c08_engine.py, all values; other testbench "
        "programs are not decided",
        "engine level: the simulator modules are run with module-global shims (int/isinstance/range/len) and Const.cast accepting "
        "proxies; in kernel-agrees the memory state object is its contract proxy (the real class is verified against it above)",
        "memory addresses are case-split by the harness before calling write/read (complete for the depth)",
    ],
    "bounds": {"quick": {"W": 4}, "thorough": {"W": 8}},
    "explanation": "function contracts on simulator state classes + syntactic frame rules",
}


def functions():
    f = "amaranth/sim/pysim.py"
    out = [source.describe(f, q, arith="adaptive bit-vector (exact)", bound="widths <= W")
           for q in ("_PySignalState.update", "_PySignalState.commit", "_run_wakers", "_PyMemoryState.read",
                     "_PyMemoryState.write", "_PyMemoryState.commit", "_PyEngineState.commit", "_PyTimeline.advance",
                     "_PyTimeline.set_waker", "_PyTriggerState.add_edge_waker", "PySimEngine.advance")]
    out += [source.describe("amaranth/sim/core.py", "Simulator.add_clock", arith="closed", bound="periods / phases enumerated")]
    out += [source.describe("amaranth/sim/_pyrtl.py", "edge_waker", arith="exact", bound="-"),
            source.describe("amaranth/sim/_pyclock.py", "PyClockProcess.run", arith="exact", bound="period/phase symbolic <= 2^20"),
            source.describe("amaranth/hdl/_time.py", "Period.__init__", arith="bounded stand-in", bound="integer arguments sampled")]
    out += [source.describe(f, q, arith="real engine on symbolic values (all paths)", bound="designs / testbenches enumerated")
            for q in ("PySimEngine.step_design", "PySimEngine.set_value", "PySimEngine.get_value", "_PyTriggerState.run",
                      "_PyTriggerState.activate", "PySimEngine.add_trigger_combination")]
    out += [source.describe("amaranth/sim/_async.py", q, arith="real engine on symbolic values (all paths)", bound="testbenches enumerated")
            for q in ("SimulatorContext.set", "SimulatorContext.get", "AsyncProcess.run", "TriggerCombination.__await__",
                      "TickTrigger.__await__")]
    return out


def tasks(tier):
    W = META["bounds"][tier]["W"]
    ts = [("sig-update", w, s) for w in (0, 1, W) for s in (False, True) if not (s and w == 0)]
    D = 2 if tier == "quick" else 3
    ts += [("sig-commute", W), ("sig-commit", W), ("mem", W, False, D), ("mem", W, True, 2), ("mem", 0, False, 1),
           ("engine-commit",), ("edge-waker",), ("timeline", 1), ("timeline", 2), ("timeline", 3), ("clock",),
           ("frame-rule",), ("tb-order",), ("period",), ("add-clock",)]
    from . import c08_engine
    ts += c08_engine.tasks(tier)
    return ts


def canaries(tier):
    return [("canary-commute",), ("canary-timeline",), ("canary-kernel-agrees",)]


def _sigstate(w, s, init=0):
    from amaranth.hdl import Signal, Shape
    from amaranth.sim.pysim import _PySignalState
    pending = set()
    st = _PySignalState(Signal(Shape(w, s), init=init), pending)
    return st, pending


def unit_sig_update(w, s):
    name = f"_PySignalState.update[{w},{s}]"

    def body(path):
        st, pending = _sigstate(w, s)
        lo, hi = shape_range(w, s)
        st.next = path.var("next", lo, hi)
        st.curr = path.var("curr", lo, hi)
        old = st.next
        value = path.var("value", -(1 << (w + 1)), (1 << (w + 1)))
        m = path.var("mask", -(1 << (w + 1)), (1 << (w + 1)))
        was_pending = path.boolvar("was_pending")
        if was_pending:
            pending.add(st)
        st.update(value, m)
        want = (old & ~m) | (value & m)
        path.prove(f"{name}::next", to_sint(st.next) == to_sint(want))
        path.prove(f"{name}::curr-untouched", to_sint(st.curr) == path.x.vars["curr"])
        changed = to_sint(want) != old
        inp = st in pending
        path.prove(f"{name}::pending-iff-changed", (Or(changed, was_pending)) if inp else Not(Or(changed, was_pending)))
        # default mask (~0) replaces everything
        st2, p2 = _sigstate(w, s)
        st2.next = old
        st2.update(value)
        path.prove(f"{name}::default-mask", to_sint(st2.next) == value)
    return runner.from_exploration(name, Exploration(name, body).run())


def unit_sig_commute(W, broken=False):
    name = "update-commutes"

    def body(path):
        lo, hi = shape_range(W, True)
        nxt = path.var("next", lo, hi)
        v1, v2 = path.var("v1", lo, hi), path.var("v2", lo, hi)
        m1 = path.var("m1", -(1 << W), (1 << W) - 1)
        m2 = path.var("m2", -(1 << W), (1 << W) - 1)
        if not broken:
            path.assume((m1 & m2) == 0)
        a, _ = _sigstate(W, True)
        b, _ = _sigstate(W, True)
        a.next = b.next = nxt
        a.update(v1, m1); a.update(v2, m2)
        b.update(v2, m2); b.update(v1, m1)
        path.prove(f"{name}::same-next", to_sint(a.next) == to_sint(b.next))
    return runner.from_exploration(name, Exploration(name, body).run())


def unit_sig_commit(W):
    name = "_PySignalState.commit"

    def body(path):
        st, pending = _sigstate(W, False)
        lo, hi = shape_range(W, False)
        c, n = path.var("curr", lo, hi), path.var("next", lo, hi)
        st.curr, st.next = c, n
        calls = []
        keep1 = path.boolvar("keep1")
        st.add_waker(lambda cu, ne: (calls.append(("w0", cu, ne)), True)[1])
        st.add_waker(lambda cu, ne: (calls.append(("w1", cu, ne)), bool(keep1))[1])
        st.add_waker(lambda cu, ne: (calls.append(("w2", cu, ne)), True)[1])
        ws = list(st.wakers)
        r = st.commit()
        changed = c != n
        path.prove(f"{name}::returns-changed", changed if r else Not(changed))
        path.prove(f"{name}::curr-is-next", to_sint(st.curr) == n)
        path.prove(f"{name}::wakers-iff-changed", changed if calls else Not(changed))
        if calls:
            path.prove(f"{name}::wakers-args-order",
                       And(*[And(to_sint(cu) == c, to_sint(ne) == n) for (_t, cu, ne) in calls])
                       if [t for t, _c, _n in calls] == ["w0", "w1", "w2"] else False)
            kept = st.wakers
            want = [ws[0]] + ([ws[1]] if bool(keep1) else []) + [ws[2]]
            path.prove(f"{name}::retain", kept == want)
    return runner.from_exploration(name, Exploration(name, body).run())


def _memstate(w, s, depth):
    from amaranth.hdl import Shape
    from amaranth.hdl._mem import MemoryData
    from amaranth.sim.pysim import _PyMemoryState
    pending = set()
    ms = _PyMemoryState(MemoryData(shape=Shape(w, s), depth=depth, init=[]), pending)
    return ms, pending


def unit_mem(w, s, depth):
    name = f"_PyMemoryState[{w},{s},{depth}]"

    def body(path):
        ms, pending = _memstate(w, s, depth)
        lo, hi = shape_range(w, s)
        rows = [path.var(f"row{i}", lo, hi) for i in range(depth)]
        ms.data = list(rows)
        # --- read
        addr = path.var("raddr", -1, depth + 1)
        a = int(addr)                    # harness case split (complete for the range)
        got = ms.read(a)
        path.prove(f"{name}::read", to_sint(got) == (rows[a] if 0 <= a < depth else 0))
        # --- two writes then commit
        for order in (0, 1):
            ms2, pend2 = _memstate(w, s, depth)
            ms2.data = list(rows)
            wr = []
            for k in range(2):
                ad = int(path.var(f"waddr{k}", -1, depth))
                val = path.var(f"wval{k}", -(1 << (w + 1)), (1 << (w + 1)))
                mk = path.var(f"wmask{k}", 0, mask(w))
                use_mask = bool(path.boolvar(f"usemask{k}"))
                wr.append((ad, val, mk if use_mask else None))
            seq = wr if order == 0 else wr[::-1]
            for (ad, val, mk) in seq:
                ms2.write(ad, val, mk)
            # reference: queue initialised from the committed row, writes applied in order
            ref = list(rows)
            for (ad, val, mk) in seq:
                if 0 <= ad < depth:
                    nv = val if mk is None else ((val & mk) | (ref[ad] & ~mk))
                    if s:
                        nv = norm(nv, w, True)
                    ref[ad] = nv
            any_in_range = any(0 <= ad < depth for ad, _v, _m in seq)
            path.prove(f"{name}::write-pending[{order}]", (ms2 in pend2) == any_in_range)
            path.prove(f"{name}::write-does-not-touch-data[{order}]",
                       And(*[to_sint(ms2.data[i]) == rows[i] for i in range(depth)]))
            if order == 0:
                first = ref
                first_wr = wr
            else:
                # commutation when the two writes address different rows or have disjoint masks
                (a0, _v0, k0), (a1, _v1, k1) = first_wr
                if a0 != a1:
                    path.prove(f"{name}::writes-commute-different-rows",
                               And(*[to_sint(first[i]) == to_sint(ref[i]) for i in range(depth)]))
                elif k0 is not None and k1 is not None:
                    path.prove(f"{name}::writes-commute-disjoint-masks",
                               Implies((k0 & k1) == 0, And(*[to_sint(first[i]) == to_sint(ref[i]) for i in range(depth)])))
            if any_in_range:
                changed = ms2.commit()
                path.prove(f"{name}::commit-data[{order}]", And(*[to_sint(ms2.data[i]) == to_sint(ref[i]) for i in range(depth)]))
                anych = Or(*[to_sint(ref[i]) != rows[i] for i in range(depth)])
                path.prove(f"{name}::commit-returns-changed[{order}]", anych if changed else Not(anych))
                path.prove(f"{name}::commit-clears-queue[{order}]", len(ms2.write_queue) == 0)
    return runner.from_exploration(name, Exploration(name, body, max_paths=60000).run())


def unit_engine_commit():
    from amaranth.hdl import Signal
    from amaranth.sim.pysim import _PyEngineState
    name = "_PyEngineState.commit"

    def body(path):
        st = _PyEngineState()
        a, b = Signal(4, name="a"), Signal(4, name="b")
        sa, sb = st.slots[st.get_signal(a)], st.slots[st.get_signal(b)]
        ca, cb = path.var("ca", 0, 15), path.var("cb", 0, 15)
        sa.curr = sa.next = ca
        sb.curr = sb.next = cb
        va, vb = path.var("va", 0, 15), path.var("vb", 0, 15)
        sa.update(va)
        sb.update(vb)
        conv = st.commit()
        changed = Or(va != ca, vb != cb)
        path.prove(f"{name}::converged-iff-unchanged", Not(changed) if conv else changed)
        path.prove(f"{name}::values", And(to_sint(sa.curr) == va, to_sint(sb.curr) == vb))
        path.prove(f"{name}::pending-cleared", len(st.pending) == 0)
    return runner.from_exploration(name, Exploration(name, body).run())


def unit_edge_waker():
    from amaranth.sim._pyrtl import edge_waker, PyRTLProcess
    name = "edge_waker"

    def body(path):
        for pol in (0, 1):
            p = PyRTLProcess(is_comb=False)
            p.runnable = False
            w = edge_waker(p, pol)
            c, n = path.var("curr", 0, 1), path.var("next", 0, 1)
            path.assume(c != n)            # wakers are only run by commit() when the value changed
            keep = w(c, n)
            path.prove(f"{name}[{pol}]::runnable-iff-polarity", (n == pol) if p.runnable else Not(n == pol))
            path.prove(f"{name}[{pol}]::kept", keep is True)
    return runner.from_exploration(name, Exploration(name, body).run())


def unit_timeline(n, broken=False):
    from amaranth.sim.pysim import _PyTimeline
    name = f"_PyTimeline.advance[{n}]"

    def body(path):
        tl = _PyTimeline()
        now = path.var("now", 0, 1 << 12)
        tl.now = now
        fired = []
        wakers, ivs = [], []
        for k in range(n):
            iv = path.var(f"interval{k}", 0, 1 << 12)
            w = (lambda k: lambda: fired.append(k))(k)
            tl.set_waker(iv, w)
            wakers.append(w)
            ivs.append(iv)
        dls = [now + iv for iv in ivs]
        r = tl.advance()
        path.prove(f"{name}::returns-true", r is True)
        mn = dls[0]
        for dl in dls[1:]:
            mn = ite(dl < mn, dl, mn)
        path.prove(f"{name}::now-is-min-deadline", to_sint(tl.now) == to_sint(mn) + (1 if broken else 0))
        for k in range(n):
            is_min = dls[k] == mn
            path.prove(f"{name}::fires-iff-nearest[{k}]", is_min if k in fired else Not(is_min))
            path.prove(f"{name}::removed-iff-fired[{k}]", (wakers[k] not in tl.wakers) == (k in fired))
            if wakers[k] in tl.wakers:
                path.prove(f"{name}::others-untouched[{k}]", to_sint(tl.wakers[wakers[k]]) == to_sint(dls[k]))
        path.prove(f"{name}::each-fired-once", len(fired) == len(set(fired)))
    res = runner.from_exploration(name, Exploration(name, body).run())
    if n == 1:
        tl = _PyTimeline()
        ok = tl.advance() is False and tl.now == 0
        res["obligations"].append({"name": f"{name}::empty-returns-false", "kind": "post",
                                   "status": "proved" if ok else "refuted", "backend": "closed", "time_s": 0.0})
    return res


def unit_clock():
    """PyClockProcess: ghost toggle counter; the k-th toggle happens at phase + (k-1)*(period//2)."""
    from amaranth.hdl import Signal
    from amaranth.sim.pysim import _PyEngineState
    from amaranth.sim._pyclock import PyClockProcess
    name = "PyClockProcess.run"

    def body(path):
        st = _PyEngineState()
        clk = Signal(name="clk")
        phase = path.var("phase", 0, 1 << 16)
        period = path.var("period", 0, 1 << 16)
        proc = PyClockProcess(st, clk, phase=phase, period=period)
        slot = st.slots[proc.slot]
        path.prove(f"{name}::initially-runnable", proc.runnable is True)
        toggles = []
        t_expected = phase
        for k in range(4):
            before = slot.next
            proc.run()
            path.prove(f"{name}::run{k}::not-runnable-until-woken", proc.runnable is False)
            if k == 0:
                path.prove(f"{name}::first-run-does-not-toggle", to_sint(slot.next) == to_sint(before))
            else:
                path.prove(f"{name}::run{k}::toggles", to_sint(slot.next) == 1 - to_sint(before))
            # exactly one waker is scheduled, at now + (phase | period // 2)
            path.prove(f"{name}::run{k}::one-waker", len(st.timeline.wakers) == 1)
            (waker, deadline), = st.timeline.wakers.items()
            path.prove(f"{name}::run{k}::deadline", to_sint(deadline) == to_sint(t_expected))
            # time advances to the deadline and the waker makes the process runnable again
            st.timeline.advance()
            path.prove(f"{name}::run{k}::woken", proc.runnable is True)
            path.prove(f"{name}::run{k}::now", to_sint(st.timeline.now) == to_sint(t_expected))
            st.commit()
            t_expected = t_expected + period // 2
    return runner.from_exploration(name, Exploration(name, body).run())


def unit_add_clock():
    """Simulator.add_clock contract: the clock process it creates gets exactly the given period and phase in integer
    femtoseconds; phase None means period / 2; an explicit phase of ZERO stays zero (first toggle at time 0); a second
    clock on the same domain is refused.  Closed obligations over an enumerated set of Period arguments, plus the first
    toggle times observed on the real engine."""
    from amaranth.hdl import Module, Signal, ClockDomain, Period, DriverConflict
    from amaranth.sim import Simulator
    from amaranth.sim._pyclock import PyClockProcess
    obs = []

    def ob(nm, ok, fi):
        obs.append({"name": f"add_clock::{nm}", "kind": "post", "status": "proved" if ok else "refuted", "backend": "closed", "time_s": 0.0,
                    **({} if ok else {"failing_input": fi})})

    def mk():
        m = Module()
        c = Signal(4, name="c")
        m.d.sync += c.eq(c + 1)
        return m, c
    for per_fs in (10, 1000, 7_000_001):
        for phase in (None, 0, 1, per_fs // 2, per_fs, 3 * per_fs + 5):
            m, c = mk()
            sim = Simulator(m)
            kw = {} if phase is None else {"phase": Period(fs=phase)}
            sim.add_clock(Period(fs=per_fs), **kw)
            procs = [p for p in sim._engine._processes if isinstance(p, PyClockProcess)]
            want_phase = per_fs // 2 if phase is None else phase
            ok = len(procs) == 1 and procs[0].period == per_fs and procs[0].phase == want_phase
            ob(f"period={per_fs}fs,phase={phase}::process-parameters", ok,
               {"call": f"add_clock(Period(fs={per_fs}), phase={'None' if phase is None else f'Period(fs={phase})'})",
                "clock process (phase, period)": [(p.phase, p.period) for p in procs], "expected": (want_phase, per_fs)})
            # first two toggles on the real engine
            times = []

            async def tb(ctx, times=times):
                clk = sim._design.fragment.domains["sync"].clk
                async for v in ctx.changed(clk):
                    times.append(sim._engine.now)
                    if len(times) == 3:
                        break
            sim.add_testbench(tb)
            sim.run_until(Period(fs=want_phase + 2 * per_fs + 1))
            # changed() reports the initial value at time 0 first; the next two reports are the first two toggles
            ok2 = times == [0, want_phase, want_phase + per_fs // 2]
            ob(f"period={per_fs}fs,phase={phase}::toggle-times", ok2, {"observed toggle times (fs)": times, "phase": want_phase, "period": per_fs})
    m, c = mk()
    sim = Simulator(m)
    sim.add_clock(Period(fs=10))
    try:
        sim.add_clock(Period(fs=10))
        refused = False
    except DriverConflict:
        refused = True
    ob("second-clock-on-a-domain-refused", refused, {"what": "a second add_clock on the same domain was accepted"})
    return {"task": "add_clock", "paths": 0, "solver_s": 0.0, "obligations": obs}


def unit_frame_rule():
    """Syntactic frame check on generated run() bodies: slots are read only as `slots[k].curr` or
    `slots[k].next` (the latter only for the process's own outputs), and written only through
    `slots[k].update(<own next_k variable or int literal>, <int literal>)` / `.write(...)`; memory is read only through `.read(...)`."""
    from amaranth.lib.fifo import SyncFIFO, SyncFIFOBuffered, AsyncFIFO
    from amaranth.lib.cdc import PulseSynchronizer
    from amaranth.hdl import Module, ClockDomain
    from harness.capture import compile_design
    obs = []
    designs = [("SyncFIFO(2,3)", SyncFIFO(width=2, depth=3)), ("SyncFIFOBuffered(2,4)", SyncFIFOBuffered(width=2, depth=4)),
               ("AsyncFIFO(2,4)", AsyncFIFO(width=2, depth=4)), ("PulseSynchronizer", PulseSynchronizer("r", "w"))]
    for dname, el in designs:
        m = Module()
        for dom in ("sync", "read", "write", "r", "w"):
            setattr(m.domains, dom, ClockDomain(dom))
        m.submodules.dut = el
        _design, _state, procs = compile_design(m)
        for k, (proc, src) in enumerate(procs):
            tree = ast.parse(src)
            bad = []
            updated = set()
            for node in ast.walk(tree):
                if isinstance(node, ast.Call) and isinstance(node.func, ast.Attribute) and \
                        isinstance(node.func.value, ast.Subscript) and getattr(node.func.value.value, "id", None) == "slots":
                    idx = node.func.value.slice.value
                    if node.func.attr == "update":
                        updated.add(idx)
                        def _int_literal(n):
                            try:
                                return isinstance(ast.literal_eval(n), int)
                            except Exception:
                                return False
                        # the value written is the process's own `next_<k>` variable or an integer literal (a reset value);
                        # the mask is an integer literal
                        first_ok = (isinstance(node.args[0], ast.Name) and node.args[0].id == f"next_{idx}") or _int_literal(node.args[0])
                        if not (len(node.args) == 2 and first_ok and _int_literal(node.args[1])):
                            bad.append(ast.unparse(node))
                    elif node.func.attr not in ("read", "write"):
                        bad.append(ast.unparse(node))
            for node in ast.walk(tree):
                if isinstance(node, ast.Attribute) and isinstance(node.value, ast.Subscript) and \
                        getattr(node.value.value, "id", None) == "slots":
                    idx = node.value.slice.value
                    if node.attr == "curr" or node.attr in ("update", "read", "write"):
                        continue
                    if node.attr == "next" and idx in updated:
                        continue
                    bad.append(ast.unparse(node))
                if isinstance(node, (ast.Global, ast.Nonlocal, ast.Import, ast.ImportFrom)):
                    bad.append(ast.unparse(node))
                # a working copy `next_k` that is loaded from a slot is loaded from THAT slot's pending value (`slots[k].next`):
                # loading `curr` would make the write-back with the full mask discard what another process queued in this delta
                if isinstance(node, ast.Assign) and len(node.targets) == 1 and isinstance(node.targets[0], ast.Name) and \
                        node.targets[0].id.startswith("next_") and isinstance(node.value, ast.Attribute) and \
                        isinstance(node.value.value, ast.Subscript) and getattr(node.value.value.value, "id", None) == "slots":
                    j = node.value.value.slice.value
                    if node.targets[0].id != f"next_{j}" or node.value.attr != "next":
                        bad.append(ast.unparse(node))
            ok = not bad
            obs.append({"name": f"frame-rule::{dname}::proc{k}", "kind": "post", "status": "proved" if ok else "refuted",
                        "backend": "rule", "time_s": 0.0,
                        **({} if ok else {"failing_input": {"design": dname, "offending": bad[:5], "source": src[:600]}})})
    return {"task": "frame-rule", "paths": 0, "solver_s": 0.0, "obligations": obs}


def unit_tb_order():
    """Ordered-source rule for testbench scheduling: `_testbenches` is a list, appended in
    add_async_testbench, iterated (not sorted / not converted to a set) in advance()."""
    seg, node = source.function_source("amaranth/sim/pysim.py", "PySimEngine.advance")
    init, _ = source.function_source("amaranth/sim/pysim.py", "PySimEngine.__init__")
    add, _ = source.function_source("amaranth/sim/pysim.py", "PySimEngine.add_async_testbench")
    checks = {
        "testbenches-is-a-list": "self._testbenches = []" in init,
        "appended-in-add-order": "self._testbenches.append(" in add,
        "iterated-in-list-order": any(isinstance(n, ast.For) and ast.unparse(n.iter) == "self._testbenches"
                                      for n in ast.walk(node)),
    }
    # behavioural closed check on the real engine: run order == add order
    from amaranth.hdl import Module, Signal
    from amaranth.sim import Simulator
    m = Module()
    s = Signal()
    m.d.comb += Signal().eq(s)
    order = []
    sim = Simulator(m)
    for k in range(5):
        async def tb(ctx, k=k):
            order.append(k)
            await ctx.delay(1e-9)
            order.append(10 + k)
        sim.add_testbench(tb)
    sim.run()
    checks["observed-run-order"] = order == [0, 1, 2, 3, 4, 10, 11, 12, 13, 14]
    obs = [{"name": f"tb-order::{k}", "kind": "post", "status": "proved" if v else "refuted", "backend": "rule",
            "time_s": 0.0, **({} if v else {"failing_input": {"rule": k, "observed_order": order}})}
           for k, v in checks.items()]
    return {"task": "tb-order", "paths": 0, "solver_s": 0.0, "obligations": obs}


def unit_period():
    """Bounded stand-in: Period is exact for integer arguments (floats are outside the technique)."""
    from amaranth.hdl._time import Period, _TIME_UNITS
    cases = fails = 0
    bad = None
    vals = list(range(0, 40)) + [10 ** k for k in range(2, 12)] + [12345678901234567, 3 ** 30]
    for unit, factor in _TIME_UNITS.items():
        for v in vals:
            for sgn in (1, -1):
                cases += 1
                p = Period(**{unit: sgn * v})
                if p.femtoseconds != sgn * v * factor or type(p.femtoseconds) is not int:
                    fails += 1
                    bad = bad or {"unit": unit, "value": sgn * v, "observed": p.femtoseconds}
                q = Period(fs=v) + Period(fs=7) - Period(fs=7)
                if q.femtoseconds != v or (Period(fs=v) * 3).femtoseconds != 3 * v:
                    fails += 1
                    bad = bad or {"op": "add/sub/mul", "value": v}
    obs = []
    if fails:
        obs.append({"name": "period::exact-for-integers", "kind": "bounded", "status": "refuted", "backend": "cpython",
                    "time_s": 0.0, "failing_input": bad})
    return {"task": "period", "paths": 0, "solver_s": 0.0, "obligations": obs,
            "bounded": [{"name": "Period exact for integer arguments", "bound": "sampled integers up to 1e17, all units",
                         "cases": cases, "failures": fails}]}


def run_task(task):
    k = task[0]
    if k in ("engine-chain", "engine-proc", "engine-tb-order", "engine-lhs-selector", "engine-castable-set", "engine-clock-phase-zero", "kernel-agrees", "canary-kernel-agrees"):
        from . import c08_engine
        return c08_engine.run_task(task)
    if k == "add-clock":
        return unit_add_clock()
    if k == "sig-update":
        return unit_sig_update(task[1], task[2])
    if k == "sig-commute":
        return unit_sig_commute(task[1])
    if k == "sig-commit":
        return unit_sig_commit(task[1])
    if k == "mem":
        return unit_mem(*task[1:])
    if k == "engine-commit":
        return unit_engine_commit()
    if k == "edge-waker":
        return unit_edge_waker()
    if k == "timeline":
        return unit_timeline(task[1])
    if k == "clock":
        return unit_clock()
    if k == "frame-rule":
        return unit_frame_rule()
    if k == "tb-order":
        return unit_tb_order()
    if k == "period":
        return unit_period()
    if k == "canary-commute":
        return unit_sig_commute(4, broken=True)
    if k == "canary-timeline":
        return unit_timeline(2, broken=True)
    raise KeyError(k)


def find_failing_input(res, ob):
    if ob.get("model") is None:
        return None
    return {"model": ob["model"], "how": "exact counter-model: arguments / field values for the real method named in "
            + ob["name"] + "; re-run with ./vcheck replay"}


def replay(data):
    import re
    t = data["task"]
    task = eval(t, {"__builtins__": {}}, {}) if isinstance(t, str) and t.startswith("(") else None
    name = data["obligation"].split("::")[0]
    for tk in tasks("quick"):
        r = run_task(tk)
        if any(o["name"] == data["obligation"] and o["status"] == "refuted" for o in r["obligations"]):
            return True
    return False
