"""C13 -- asynchronous FIFOs are safe under every interleaving of their clocks.

Data structure against an abstract view with THREE public operations: a write-clock edge, a read-clock edge, and
both at once -- each with arbitrary (w_en, w_data, r_en).  The representation is the registers, synchroniser stages
and memory of the real AsyncFIFO / AsyncFIFOBuffered (elaborated and compiled by the real code; operation bodies
are the generated `run()` functions composed by harness/kernel.py).  An invariant that holds initially and is
preserved by each operation from EVERY state satisfying it holds after every finite interleaving of the two
clocks: unbounded in time, all clock ratios and phases, including coincident edges.

 Inv (AsyncFIFO, counters B bits, M = 2^B, D = depth = M/2)
   produce_w_gry == gray(produce_w_bin); consume_r_gry == gray(consume_r_bin)
   cyclic order, as a sum of distances mod M that is <= D:
       consume_w_bin <= dec(consume_cdc.stage1) <= dec(consume_cdc.stage0) <= consume_r_bin
                     <= dec(produce_cdc.stage1) <= dec(produce_cdc.stage0) <= produce_w_bin
   w_level <= D;   reset synchroniser: stage0 <= stage1; stage1 -> consume_r_gry == produce_cdc.stage1;
   stage0 & stage1 -> produce_cdc.stage0 == produce_cdc.stage1
   read register: consume_r_gry != produce_r_gry -> r_port.data == mem[consume_r_bin mod D]
 view: n = (produce_w_bin - consume_r_bin) mod M, element i = mem[(consume_r_bin + i) mod D]

 Obligations per (variant, width, depth):
   init                 the power-on state satisfies Inv and its view is empty
   outputs              w_rdy -> n < depth;  r_rdy -> n > 0 and r_data == head;  r_level, w_level <= depth
   step[w|r|both]-inv   Inv is preserved
   step[...]-len/-elem  view' == dequeue_if(r_en & r_rdy)(enqueue_if(w_en & w_rdy)(view)) (only the side whose clock ticks)
   live-lemma::*        single-step facts whose composition gives bounded liveness: a write-clock edge does not touch the
                        read side or the produce synchroniser (frame); with w_en low it keeps the produce pointer; a
                        read-clock event shifts the produce synchroniser and the reset synchroniser by one stage; once
                        stage1 == produce_w_gry and the reset has drained, r_rdy <-> n > 0 (buffered: the output stage
                        loads on the next read-clock event).  Hence after two read-clock events (three if buffered) following the
                        last write, under any interleaving with write-clock edges, every entry is readable.
   live[seq]            cross-check of that composition by k-step unrolling from an arbitrary Inv state with w_en low, over
                        the enumerated interleavings: r_rdy <-> n > 0 at the end
   ctor                 depth rounding of the constructors (tier U, all depths) and constructor => elaborate precondition
   elaborates           BOUNDED: every depth 0..40 elaborates
   gray                 _gray_encode/_gray_decode: inverse, one-bit steps, full/empty conditions (widths <= W)
Assumption: the write-domain reset is never asserted after power-on; synchroniser stages transfer values
atomically (no metastability model).
"""
import itertools

from pyvc.explore import Exploration
from pyvc.sym import SInt, to_sint, And, Or, Not, Implies, ite, is_sym, popcount
from pyvc import runner, source
from spec.sem import mask, sem, Env
from harness.kernel import Design

PROPERTY = "C13"

META = {
    "level": "proof",
    "trusted_base": [
        "pyvc symbolic integer encoding; z3 / cvc5",
        "kernel composition model of harness/kernel.py (which processes an edge wakes; eval / commit / settle phases), "
        "with the settling proved convergent per design",
        "slot contracts of _PySignalState.update and _PyMemoryState.read/write/commit (bodies verified in C08/C11)",
        "reference queue semantics in this file",
    ],
    "assumptions": [
        "parameters enumerated: depths and widths in the stated sets",
        "the write-domain reset stays low after power-on (reset-crossing behaviour is not part of the claim)",
        "synchroniser flip-flops transfer their input atomically at the clock edge (no metastability model)",
        "liveness: k-step unrolling over the enumerated interleavings of two read-clock events with at most two non-writing "
        "write-clock events",
    ],
    "bounds": {"quick": {"async": [0, 1, 2, 4], "buffered": [0, 2], "widths": [1]},
               "thorough": {"async": [0, 1, 2, 4, 8], "buffered": [0, 2, 3, 5], "widths": [0, 1, 2]}},
    "explanation": "inductive invariant + refinement of a bounded queue with one operation per clock event kind",
}


def functions():
    f = "amaranth/lib/fifo.py"
    return [source.describe(f, q, arith="adaptive bit-vector (exact)", bound="depth/width enumerated")
            for q in ("AsyncFIFO.elaborate", "AsyncFIFOBuffered.elaborate", "_gray_encode", "_gray_decode")] + \
        [source.describe(f, q, arith="tier U (Int + pow2/blen lemmas)", bound="all depths")
         for q in ("AsyncFIFO.__init__", "AsyncFIFOBuffered.__init__")] + \
        [source.describe("amaranth/utils.py", "ceil_log2", arith="tier U", bound="all n >= 0"),
         source.describe("amaranth/lib/cdc.py", "FFSynchronizer.elaborate", arith="through generated code", bound="stages as instantiated"),
         source.describe("amaranth/lib/cdc.py", "AsyncFFSynchronizer.elaborate", arith="through generated code", bound="stages as instantiated"),
         source.describe("amaranth/lib/memory.py", "Memory.elaborate", arith="through generated code", bound="-")]


def tasks(tier):
    b = META["bounds"][tier]
    ts = [("fifo", "AsyncFIFO", w, d) for w in b["widths"] for d in b["async"]]
    ts += [("fifo", "AsyncFIFOBuffered", w, d) for w in b["widths"] for d in b["buffered"]]
    # k-step cross-check of the liveness composition: one task per (depth, sequence) so that they run in parallel
    for d in b["async"]:
        if d and d <= 4 and (tier == "thorough" or d == 2):
            ts += [("live", "AsyncFIFO", 1, d, tier, seq) for seq in LIVE_SEQS[tier]]
    if tier == "thorough":
        ts += [("live", "AsyncFIFOBuffered", 1, 2, tier, "rr")]
    ts += [("ctor", v, e) for v in ("AsyncFIFO", "AsyncFIFOBuffered") for e in (False, True)]
    ts += [("elaborates",), ("domain-names",), ("gray", 5 if tier == "quick" else 8)]
    return ts


def canaries(tier):
    return [("canary-inv",), ("canary-view",)]


# ------------------------------------------------------------------------------------------------

def gray_dec(v, bits):
    r = 0
    for k in range(bits):
        r = r ^ (v >> k)
    return r & mask(bits)


def gray_enc(v):
    return v ^ (v >> 1)


def _subsig(design, subname, signame):
    """signal driven inside the named direct subfragment of the (inner) AsyncFIFO fragment"""
    def search(fr):
        for sub, name, _ in fr.subfragments:
            if name == subname:
                for dom, stmts in sub.statements.items():
                    for st in stmts:
                        for s in st._lhs_signals():
                            if s.name == signame:
                                return s
            r = search(sub)
            if r is not None:
                return r
        return None
    s = search(design.design.fragment)
    assert s is not None, (subname, signame)
    return s


def _find(design, name):
    hits = [sl.signal for sl in design.sig_slots if sl.signal.name == name]
    assert len(hits) >= 1, name
    return hits[0]


class Model:
    def __init__(self, variant, fifo, d, weak=False):
        self.variant, self.fifo, self.d = variant, fifo, d
        self.buffered = variant == "AsyncFIFOBuffered"
        self.depth = fifo.depth
        self.weak = weak
        if self.depth == 0:
            return
        self.D = self.depth - 1 if self.buffered else self.depth
        self.B = self.D.bit_length()            # D = 2^(B-1)
        self.M = 1 << self.B
        g = lambda n: _find(d, n)
        self.P, self.pg, self.cwb, self.C, self.cg = g("produce_w_bin"), g("produce_w_gry"), g("consume_w_bin"), g("consume_r_bin"), g("consume_r_gry")
        self.ps0, self.ps1 = _subsig(d, "produce_cdc", "stage0"), _subsig(d, "produce_cdc", "stage1")
        self.cs0, self.cs1 = _subsig(d, "consume_cdc", "stage0"), _subsig(d, "consume_cdc", "stage1")
        self.rs0, self.rs1 = _subsig(d, "rst_cdc", "stage0"), _subsig(d, "rst_cdc", "stage1")
        self.rdata = g("r_port__data")
        self.mem = d.mem(0)
        # inner FIFO's interface (for the buffered variant these are the inner component's signals)
        if self.buffered:
            inner = [sl.signal for sl in d.sig_slots if sl.signal.name == "w_level"]
            self.inner_w_level = next(s for s in inner if s is not fifo.w_level)
            self.inner_r_rdy = next(sl.signal for sl in d.sig_slots if sl.signal.name == "r_rdy" and sl.signal is not fifo.r_rdy)
        else:
            self.inner_w_level = fifo.w_level
            self.inner_r_rdy = fifo.r_rdy

    def inv(self):
        if self.depth == 0:
            return True
        d, B, M, D = self.d, self.B, self.M, self.D
        v = d.val
        P, C = v(self.P), v(self.C)
        chain = [v(self.cwb), gray_dec(v(self.cs1), B), gray_dec(v(self.cs0), B), C,
                 gray_dec(v(self.ps1), B), gray_dec(v(self.ps0), B), P]
        total = 0
        for a, b in zip(chain, chain[1:]):
            total = total + ((b - a) & (M - 1))
        parts = [v(self.pg) == gray_enc(P), v(self.cg) == gray_enc(C)]
        if self.weak:
            parts.append(((P - C) & (M - 1)) <= D)
            return And(*parts)
        parts += [total <= D, v(self.inner_w_level) <= D,
                  v(self.rs0) <= v(self.rs1),
                  Implies(v(self.rs1) != 0, v(self.cg) == v(self.ps1)),
                  Implies(And(v(self.rs0) != 0, v(self.rs1) != 0), v(self.ps0) == v(self.ps1)),
                  Implies(v(self.cg) != v(self.ps1), to_sint(v(self.rdata)) == to_sint(self._row(C & (D - 1))))]
        if self.buffered:
            f = self.fifo
            parts += [v(f.r_level) <= D + 1]
        return And(*parts)

    def _row(self, idx):
        rows = self.mem.data
        e = 0
        for k in reversed(range(len(rows))):
            e = ite(idx == k, rows[k], e)
        return e

    def inner_view(self):
        d, M, D = self.d, self.M, self.D
        P, C = d.val(self.P), d.val(self.C)
        n = (P - C) & (M - 1)
        return n, [self._row((C + i) & (D - 1)) for i in range(D)]

    def view(self):
        """(length, elements)"""
        if self.depth == 0:
            return 0, []
        D = self.D
        n, inner = self.inner_view()
        d = self.d
        if not self.buffered:
            return n, inner
        f = self.fifo
        rr = d.val(f.r_rdy)
        out = d.val(f.r_data)
        elems = []
        for i in range(D + 1):
            prev = inner[i - 1] if i >= 1 else 0
            cur = inner[i] if i < D else 0
            elems.append(ite(rr != 0, out if i == 0 else prev, cur))
        return n + rr, elems


def _clocks(d):
    doms = d.design.fragment.domains
    return doms["write"].clk, doms["write"].rst, doms["read"].clk, doms["read"].rst


def _build(variant, width, depth):
    from amaranth.lib import fifo as F
    fifo = getattr(F, variant)(width=width, depth=depth)
    d = Design(fifo)
    d.register(fifo.w_en, fifo.w_data, fifo.w_rdy, fifo.w_level, fifo.r_en, fifo.r_data, fifo.r_rdy, fifo.r_level)
    return fifo, d


def _start(d, path, mdl, name):
    """an arbitrary state satisfying Inv, clocks low, write reset low, combinational network settled"""
    d.fresh(path)
    if mdl.depth > 0:
        wclk, wrst, rclk, rrst = _clocks(d)
        for s in (wclk, rclk, wrst, rrst):
            if s is not None:
                d.set(s, 0)
    d.settle(path, name + "::pre")
    path.assume(mdl.inv())


def _expect_view(n, elems, do_w, do_r, w_data, count):
    """(new length, new elements) of dequeue_if(do_r)(enqueue_if(do_w)(view))"""
    exp_n = n + ite(do_w, 1, 0) - ite(do_r, 1, 0)
    shift = ite(do_r, 1, 0)
    out = []
    for i in range(count):
        old = w_data
        for j in reversed(range(len(elems))):
            old = ite(And(i + shift == j, j < n), elems[j], old)
        out.append(old)
    return exp_n, out


def check_fifo(variant, width, depth, weak=False, canary_view=False):
    name = f"{variant}(w={width},d={depth})"
    fifo, d = _build(variant, width, depth)
    mdl = Model(variant, fifo, d, weak=weak)
    obs_closed = []
    # --- initial state
    d.reset_state()
    d.settle()
    inv0 = mdl.inv()
    n0, _ = mdl.view()
    ok = (inv0 is True or bool(inv0)) and int(n0) == 0
    obs_closed.append({"name": f"{name}::init", "kind": "post", "status": "proved" if ok else "refuted", "backend": "closed", "time_s": 0.0,
                       **({} if ok else {"failing_input": {"what": "power-on state does not satisfy the invariant / is not empty"}})})
    parts = [{"task": name, "paths": 0, "solver_s": 0.0, "obligations": obs_closed}]

    def outputs(path):
        _start(d, path, mdl, name)
        n, elems = mdl.view()
        n = to_sint(n)
        w_rdy, r_rdy, r_data = d.val(fifo.w_rdy), d.val(fifo.r_rdy), d.val(fifo.r_data)
        path.prove(f"{name}::w_rdy-only-if-space", Implies(w_rdy != 0, n < fifo.depth))
        path.prove(f"{name}::r_rdy-only-if-nonempty", Implies(r_rdy != 0, n > 0))
        if elems:
            path.prove(f"{name}::r_data-is-head", Implies(r_rdy != 0, to_sint(r_data) == to_sint(elems[0])))
        path.prove(f"{name}::levels-in-range", And(d.val(fifo.r_level) <= fifo.depth, d.val(fifo.w_level) <= fifo.depth,
                                                    d.val(fifo.r_level) >= 0, d.val(fifo.w_level) >= 0))
        if variant == "AsyncFIFO":
            path.prove(f"{name}::r_level-at-most-held", d.val(fifo.r_level) <= n)
        if depth > 0:
            # liveness lemma 4: once the produce pointer has crossed and the power-on reset has drained, the (inner)
            # queue is readable exactly when it holds something
            v = d.val
            ni, _ = mdl.inner_view()
            path.prove(f"{name}::live-lemma::synchronised-then-readable-iff-nonempty",
                       Implies(And(v(mdl.ps1) == v(mdl.pg), v(mdl.rs1) == 0), (v(mdl.inner_r_rdy) != 0) == (to_sint(ni) > 0)))
    parts.append(runner.from_exploration(name, Exploration(name + "::outputs", outputs).run()))
    if depth == 0:
        return runner.merge_results(name, parts)

    for op in ("w", "r", "both"):
        def step(path, op=op):
            _start(d, path, mdl, f"{name}::step[{op}]")
            wclk, wrst, rclk, rrst = _clocks(d)
            n, elems = mdl.view()
            n = to_sint(n)
            w_en, r_en, w_data = d.val(fifo.w_en), d.val(fifo.r_en), d.val(fifo.w_data)
            do_w = And(w_en != 0, d.val(fifo.w_rdy) != 0) if op in ("w", "both") else False
            do_r = And(r_en != 0, d.val(fifo.r_rdy) != 0) if op in ("r", "both") else False
            ev = {"w": [(wclk, 1)], "r": [(rclk, 1)], "both": [(wclk, 1), (rclk, 1)]}[op]
            v = d.val
            old = {k: v(getattr(mdl, k)) for k in ("P", "pg", "C", "cg", "ps0", "ps1", "cs0", "cs1", "rs0", "rs1", "cwb")}
            old_inner_rdy = v(mdl.inner_r_rdy)
            old_outer_rdy = v(fifo.r_rdy)
            d.edge(ev, path, f"{name}::step[{op}]::post")
            path.prove(f"{name}::step[{op}]-inv", mdl.inv())
            # liveness lemmas 1-3 (frame and shift facts; their composition is in DESIGN.md 4/C13)
            new = {k: v(getattr(mdl, k)) for k in old}
            same = lambda *ks: And(*[to_sint(new[k]) == to_sint(old[k]) for k in ks])
            if op == "w":
                path.prove(f"{name}::live-lemma::w-edge-frame", same("C", "cg", "ps0", "ps1", "rs0", "rs1"))
                path.prove(f"{name}::live-lemma::idle-w-edge-keeps-produce-pointer", Implies(w_en == 0, same("P", "pg")))
            else:
                if op == "r":
                    path.prove(f"{name}::live-lemma::r-edge-frame", same("P", "pg", "cs0", "cs1", "cwb"))
                else:
                    path.prove(f"{name}::live-lemma::idle-w-edge-keeps-produce-pointer", Implies(w_en == 0, same("P", "pg")))
                path.prove(f"{name}::live-lemma::[{op}]-synchroniser-shifts",
                           And(to_sint(new["ps0"]) == to_sint(old["pg"]), to_sint(new["ps1"]) == to_sint(old["ps0"]),
                               to_sint(new["rs0"]) == 0, to_sint(new["rs1"]) == to_sint(old["rs0"])))
                if mdl.buffered:
                    path.prove(f"{name}::live-lemma::[{op}]-output-stage-loads",
                               Implies(old_outer_rdy == 0, (v(fifo.r_rdy) != 0) == (old_inner_rdy != 0)))
            n2, elems2 = mdl.view()
            n2 = to_sint(n2)
            exp_n, exp = _expect_view(n, elems, do_w, do_r, w_data, len(elems2))
            if canary_view:
                exp_n = n + ite(do_w, 1, 0)
            path.prove(f"{name}::step[{op}]-len", n2 == exp_n)
            for i in range(len(elems2)):
                path.prove(f"{name}::step[{op}]-elem[{i}]", Implies(i < n2, to_sint(elems2[i]) == to_sint(exp[i])))
        x = Exploration(f"{name}::step[{op}]", step).run()
        parts.append(runner.from_exploration(name, x, {"source_excerpt": d.procs[0][1][:300] if d.procs else None}))
    return runner.merge_results(name, parts)


LIVE_SEQS = {"quick": ["rr"], "thorough": ["rr", "rwr", "bb", "br", "rb", "wrwr", "wbwb"]}


def check_live(variant, width, depth, tier="quick", only=None):
    name = f"live:{variant}(w={width},d={depth})"
    fifo, d = _build(variant, width, depth)
    mdl = Model(variant, fifo, d)
    parts = []
    extra_r = 1 if variant == "AsyncFIFOBuffered" else 0
    for seq in ([only] if only else LIVE_SEQS[tier]):
        seq = seq + "r" * extra_r

        def body(path, seq=seq):
            _start(d, path, mdl, f"{name}[{seq}]")
            wclk, wrst, rclk, rrst = _clocks(d)
            d.set(fifo.w_en, 0)
            r_en = d.val(fifo.r_en)
            d.set(fifo.r_en, 0)           # the reader waits; (a reading reader only shortens the queue)
            d.settle(path, f"{name}[{seq}]::pre2")
            for k, op in enumerate(seq):
                ev = {"w": [(wclk, 1)], "r": [(rclk, 1)], "b": [(wclk, 1), (rclk, 1)]}[op]
                d.edge(ev, path, f"{name}[{seq}]::e{k}")
                d.edge([(s, 0) for s, _ in ev], path, f"{name}[{seq}]::f{k}")
            n, _ = mdl.view()
            path.prove(f"{name}::[{seq}]::readable-iff-nonempty", (d.val(fifo.r_rdy) != 0) == (to_sint(n) > 0))
        parts.append(runner.from_exploration(name, Exploration(f"{name}[{seq}]", body).run()))
    return runner.merge_results(name, parts)


# ------------------------------------------------------------------------------------------------
# constructors

def check_domain_names():
    """The two sides live in the domains the user names: with r_domain='rd', w_domain='wr' every statement, memory port and
    late-bound clock / reset of the elaborated FIFO (inner FIFO and synchronisers included) is in 'rd' or 'wr' and no other
    domain is used or created; the write side's registers are clocked by 'wr' only and the read side's by 'rd' only (one
    accepted write then one read on the real simulator, next to an unrelated default-named pair of domains)."""
    from amaranth.hdl import Module, ClockDomain, Fragment
    from amaranth.hdl._xfrm import DomainCollector
    from amaranth.lib import fifo as F
    from amaranth.sim import Simulator
    obs = []
    for variant, depth in (("AsyncFIFO", 4), ("AsyncFIFOBuffered", 5), ("AsyncFIFOBuffered", 2)):
        nm = f"domains:{variant}(depth={depth},r_domain='rd',w_domain='wr')"
        dut = getattr(F, variant)(width=4, depth=depth, r_domain="rd", w_domain="wr")
        col = DomainCollector()
        col(Fragment.get(dut, None))
        used = set(col.used_domains) | set(col.defined_domains)
        ok = used <= {"rd", "wr"} and {"rd", "wr"} <= used
        obs.append({"name": f"{nm}::only-the-named-domains", "kind": "post", "status": "proved" if ok else "refuted", "backend": "closed", "time_s": 0.0,
                    **({} if ok else {"failing_input": {"domains used or defined by the elaborated FIFO": sorted(used), "expected": ["rd", "wr"]}})})
        # behaviour: clocks of unrelated domains named 'read' / 'write' run all the time and must not matter
        dut = getattr(F, variant)(width=4, depth=depth, r_domain="rd", w_domain="wr")
        m = Module()
        for dn in ("rd", "wr", "read", "write"):
            m.domains += ClockDomain(dn)
        m.submodules.dut = dut
        sim = Simulator(m)
        sim.add_clock(1e-6, domain="wr")
        sim.add_clock(1.3e-6, domain="rd")
        got = []

        async def writer(ctx):
            for v in (9, 6, 3):
                ctx.set(dut.w_data, v)
                ctx.set(dut.w_en, 1)
                await ctx.tick("wr").until(dut.w_rdy)
            ctx.set(dut.w_en, 0)

        async def reader(ctx):
            ctx.set(dut.r_en, 1)
            for _ in range(3):
                (data,) = await ctx.tick("rd").sample(dut.r_data).until(dut.r_rdy)
                got.append(data)
        sim.add_testbench(writer)
        sim.add_testbench(reader)
        try:
            sim.run_until(60e-6)
        except Exception as e:
            got.append(repr(e)[:100])
        ok2 = got == [9, 6, 3]
        obs.append({"name": f"{nm}::entries-cross-with-only-rd-and-wr-clocked", "kind": "bounded", "status": "proved" if ok2 else "refuted", "backend": "cpython",
                    "time_s": 0.0, **({} if ok2 else {"failing_input": {"written": [9, 6, 3], "read": got,
                                                                        "how": "real Simulator; clocks on 'wr' and 'rd' only, domains 'read' and 'write' exist but never toggle"}})})
    return {"task": "domain-names", "paths": 0, "solver_s": 0.0, "obligations": obs,
            "bounded": [{"name": "renamed-domain FIFOs pass three entries", "bound": "3 configurations, 3 entries", "cases": 3, "failures": 0}]}


def check_ctor(variant, exact):
    """depth rounding for ALL depths (tier U), with FIFOInterface.__init__ replaced by its contract (records its arguments)"""
    from amaranth.lib import fifo as F
    from amaranth import utils as U
    from pyvc.shims import shimmed
    from pyvc import uint
    name = f"ctor:{variant}(exact_depth={exact})"
    cls = getattr(F, variant)

    def body(path):
        depth = path.uvar("depth")
        path.assume(depth >= 0)
        rec = {}

        def fake_init(self, *, width, depth):
            rec["depth"] = depth
            self.width, self.depth = width, depth
        real = F.FIFOInterface.__init__
        F.FIFOInterface.__init__ = fake_init
        raised = None
        try:
            with shimmed(F, U):
                try:
                    obj = cls(width=1, depth=depth, exact_depth=exact)
                except ValueError as e:
                    raised = e
        finally:
            F.FIFOInterface.__init__ = real
        inner = 1 if variant == "AsyncFIFOBuffered" else 0
        if raised is not None:
            # exact_depth: raising is allowed only for a depth that is not of the supported form
            k = path.uvar("k")
            path.prove(f"{name}::raises-only-if-not-exact", Not(And(exact, k >= 0, depth == uint.pow2(k) + inner)) if exact else False)
            return
        dep = rec["depth"]
        path.prove(f"{name}::depth-not-smaller", dep >= depth)
        path.prove(f"{name}::zero-stays-zero", Implies(depth == 0, dep == 0))
        if exact:
            path.prove(f"{name}::exact-depth-kept", dep == depth)
        if variant == "AsyncFIFO":
            bits = obj._ctr_bits
            path.prove(f"{name}::ctr-bits-match", Implies(depth > 0, And(bits >= 1, dep == uint.pow2(bits - 1))))
            path.prove(f"{name}::least-power-of-two", Implies(depth > 1, dep < 2 * depth))
        else:
            path.prove(f"{name}::least-power-of-two-plus-one", Implies(depth > 2, dep - 1 < 2 * (depth - 1)))
            path.prove(f"{name}::inner-depth-at-least-one", Implies(depth > 0, dep - 1 >= 1))
    x = Exploration(name, body).run()
    return runner.from_exploration(name, x)


def check_elaborates(limit=40):
    from amaranth.lib import fifo as F
    from amaranth.hdl import Fragment
    bad = None
    n = 0
    for variant in ("AsyncFIFO", "AsyncFIFOBuffered"):
        for depth in range(0, limit + 1):
            for exact in (False, True):
                n += 1
                try:
                    f = getattr(F, variant)(width=3, depth=depth, exact_depth=exact)
                except ValueError:
                    continue
                try:
                    Fragment.get(f, None)
                except Exception as e:
                    if bad is None:
                        bad = {"call": f"{variant}(width=3, depth={depth}, exact_depth={exact})", "elaborate raised": repr(e)[:200]}
    ok = bad is None
    return {"task": "elaborates", "paths": n, "solver_s": 0.0, "obligations": [
        {"name": "elaborates::every-constructible-depth-0..%d" % limit, "kind": "bounded", "status": "proved" if ok else "refuted", "backend": "cpython",
         "time_s": 0.0, **({} if ok else {"failing_input": bad})}],
        "bounded": [{"name": "every constructible depth elaborates", "bound": f"depth 0..{limit}, both variants, exact_depth both", "cases": n,
                     "failures": 0 if ok else 1}]}


def check_gray(W):
    from amaranth.hdl import Signal
    from amaranth.lib.fifo import _gray_encode, _gray_decode
    name = "gray"
    parts = []
    for w in range(1, W + 1):
        def body(path, w=w):
            s = Signal(w, name="s")
            x = path.var("x", 0, mask(w))
            env = Env()
            env[s] = x
            enc = to_sint(sem(_gray_encode(s), env)) & mask(w)
            dec_enc = sem(_gray_decode(_gray_encode(s)), env)
            path.prove(f"{name}::w{w}::decode-inverts-encode", to_sint(dec_enc) == x)
            env2 = Env()
            env2[s] = (x + 1) & mask(w)
            enc2 = to_sint(sem(_gray_encode(s), env2)) & mask(w)
            path.prove(f"{name}::w{w}::successor-differs-in-one-bit", popcount(enc ^ enc2) == 1)
            path.prove(f"{name}::w{w}::spec-encode", enc == gray_enc(x))
            path.prove(f"{name}::w{w}::spec-decode", to_sint(sem(_gray_decode(s), env)) == gray_dec(x, w))
            if w >= 2:
                # the full test on Gray codes: top two bits differ, the rest equal  <=>  distance is half the range
                y = path.var("y", 0, mask(w))
                gx, gy = gray_enc(x), gray_enc(y)
                full = And(((gx >> (w - 1)) & 1) != ((gy >> (w - 1)) & 1), ((gx >> (w - 2)) & 1) != ((gy >> (w - 2)) & 1),
                           (gx & mask(w - 2)) == (gy & mask(w - 2)))
                path.prove(f"{name}::w{w}::gray-full-test", full == (((x - y) & mask(w)) == (1 << (w - 1))))
        parts.append(runner.from_exploration(name, Exploration(f"{name}::w{w}", body).run()))
    return runner.merge_results(name, parts)


# ------------------------------------------------------------------------------------------------

def run_task(task):
    k = task[0]
    if k == "fifo":
        return check_fifo(task[1], task[2], task[3])
    if k == "live":
        return check_live(task[1], task[2], task[3], task[4], task[5] if len(task) > 5 else None)
    if k == "domain-names":
        return check_domain_names()
    if k == "ctor":
        return check_ctor(task[1], task[2])
    if k == "elaborates":
        return check_elaborates()
    if k == "gray":
        return check_gray(task[1])
    if k == "canary-inv":
        return check_fifo("AsyncFIFO", 1, 2, weak=True)
    if k == "canary-view":
        return check_fifo("AsyncFIFO", 1, 2, canary_view=True)
    raise KeyError(k)


# ------------------------------------------------------------------------------------------------
# replay on the real simulator: bounded search over clock interleavings from power-on against a Python deque

def concrete_search(variant, width, depth, tries=1500, max_len=40):
    import random
    from collections import deque
    from amaranth.lib import fifo as F
    from amaranth.sim import Simulator
    from amaranth.hdl import Module, ClockDomain, Signal
    rnd = random.Random(0)
    for t in range(tries):
        L = rnd.randint(3, max_len)
        bias = rnd.choice([0.2, 0.5, 0.8])
        seq = [(rnd.choice("wrb") if rnd.random() > 0.3 else ("w" if rnd.random() < bias else "r"),
                rnd.random() < 0.7, rnd.random() < 0.6) for _ in range(L)]
        fifo = getattr(F, variant)(width=width, depth=depth)
        m = Module()
        m.domains.read = cr = ClockDomain("read")
        m.domains.write = cw = ClockDomain("write")
        m.submodules.fifo = fifo
        sim = Simulator(m)
        q = deque()
        result = {}

        async def tb(ctx):
            nxt = 1
            for k, (op, w_en, r_en) in enumerate(seq):
                ctx.set(fifo.w_en, int(w_en))
                ctx.set(fifo.r_en, int(r_en))
                ctx.set(fifo.w_data, nxt & mask(width))
                w_rdy, r_rdy, r_data = ctx.get(fifo.w_rdy), ctx.get(fifo.r_rdy), ctx.get(fifo.r_data)
                lv = (ctx.get(fifo.r_level), ctx.get(fifo.w_level))
                bad = None
                if w_rdy and len(q) >= fifo.depth:
                    bad = "w_rdy with depth entries held"
                elif r_rdy and not q:
                    bad = "r_rdy with no entry"
                elif r_rdy and width and r_data != q[0]:
                    bad = f"r_data={r_data} but oldest entry is {q[0]}"
                elif max(lv) > fifo.depth:
                    bad = f"levels (r, w) = {lv} exceed depth {fifo.depth}"
                if bad:
                    result["bad"] = {"event": k, "what": bad}
                    return
                do_w = op in "wb" and w_en and w_rdy
                do_r = op in "rb" and r_en and r_rdy
                if do_w:
                    q.append(nxt & mask(width))
                    nxt += 1
                if do_r:
                    q.popleft()
                clocks = {"w": [cw.clk], "r": [cr.clk], "b": [cw.clk, cr.clk]}[op]
                for c in clocks:
                    ctx.set(c, 1)
                for c in clocks:
                    ctx.set(c, 0)
        sim.add_testbench(tb)
        sim.run()
        if "bad" in result:
            return {"variant": variant, "width": width, "depth": depth,
                    "events (clock: w/r/b=both, w_en, r_en)": [(o, int(a), int(b)) for o, a, b in seq[:result["bad"]["event"] + 1]],
                    **result["bad"], "how": "real Simulator from power-on, clocks driven edge by edge from a testbench, compared with a Python deque"}
    return None


def find_failing_input(res, ob):
    import re
    m = re.match(r"(?:live:)?(\w+)\(w=(\d+),d=(\d+)\)", ob["name"])
    if not m:
        return None
    try:
        return concrete_search(m.group(1), int(m.group(2)), int(m.group(3)))
    except Exception:
        return None


def replay(data):
    import re
    m = re.match(r"(?:live:)?(\w+)\(w=(\d+),d=(\d+)\)", data["obligation"])
    if m and data.get("failing_input"):
        return concrete_search(m.group(1), int(m.group(2)), int(m.group(3))) is not None
    for t in tasks("quick"):
        r = run_task(t)
        if any(o["name"] == data["obligation"] and o["status"] == "refuted" for o in r["obligations"]):
            return True
    return False
