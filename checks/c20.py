"""C20 -- Print, Assert and Format match Python formatting at the right instants.

 format    Staged contract of `_StatementCompiler.emit_format` / `on_Print` / `on_Property`: the generated code
           is executed on symbolic signal values with `print` captured; every formatted argument reaches
           `str.format` as EXACTLY the value of the expression interpreted in its own shape (signed as signed,
           un-normalised intermediates normalised) together with the UNCHANGED format specification, and the
           literal text is unchanged (braces included).  Since the simulator then calls Python's own
           `str.format`, the emitted text equals Python's for every spec that Python accepts (see grammar).
           's' arguments go through the real `value_to_string` (case split over byte values, width 8).
 activity  A Print emits exactly when every enclosing block is selected; an Assert / Assume raises exactly
           when it is active and its (multi-bit) condition is zero, never otherwise, with the formatted message.
 grammar   BOUNDED stand-in (not counted as proved): every specification in an enumerated slice of the grammar
           (fill x align x sign x # x 0 x width x _ x type) that `Format` accepts is accepted by Python's
           `format()` and the simulated output equals it on sampled values; the documented unsupported options
           and malformed specs are rejected when the statement is built.
"""
import builtins
import itertools

from pyvc.explore import Exploration
from pyvc.sym import SInt, SBool, to_sint, And, Or, Not, Implies, ite, format_log
from pyvc import runner, source
from spec.sem import sem, Env, shape_range, mask, norm
from harness import capture
from harness.kernel import Design

PROPERTY = "C20"

META = {
    "level": "proof",
    "trusted_base": [
        "pyvc symbolic integer encoding; z3 / cvc5",
        "Python's own str.format (the simulator calls it; equality with Python formatting then holds by construction "
        "once the argument value and the spec are right)",
        "spec/sem.py reference semantics for the argument expressions (shared with C01)",
    ],
    "assumptions": [
        "argument expression forms and shapes enumerated (widths <= 4; 's' arguments width 8, 7-bit values)",
        "format-spec grammar inclusion in Python's grammar is a bounded enumeration (stated bound), because the regex "
        "cannot be put in the solver faithfully",
        "a synchronous Print/Assert runs when its domain's process runs, i.e. at active edges (C03)",
    ],
    "bounds": {"quick": {"specs": "fill in {None,x,0,space,{,},e-acute} x align x sign x # x 0 x width in {None,1,12} x _ x type"},
               "thorough": {"specs": "same with width in {None,1,12,100}"}},
    "explanation": "staged format/activity contracts + bounded grammar inclusion",
}


def functions():
    return [source.describe("amaranth/sim/_pyrtl.py", q, arith="generated code executed", bound="templates enumerated")
            for q in ("_StatementCompiler.emit_format", "_StatementCompiler.on_Print", "_StatementCompiler.on_Property",
                      "_StatementCompiler.on_Switch", "pin_blame")] + \
        [source.describe("amaranth/sim/_pyeval.py", "value_to_string", arith="case split per byte", bound="width 8"),
         source.describe("amaranth/hdl/_ast.py", "Format._parse_format_spec", arith="bounded stand-in", bound="enumerated specs"),
         source.describe("amaranth/hdl/_ast.py", "Format.__init__", arith="bounded stand-in", bound="enumerated specs")]


def arg_forms():
    """(label, signal shapes, builder)"""
    from amaranth.hdl import Cat
    return [
        ("u4", [(4, False)], lambda a: a),
        ("s4", [(4, True)], lambda a: a),
        ("~u4", [(4, False)], lambda a: ~a),
        ("s4.as_unsigned", [(4, True)], lambda a: a.as_unsigned()),
        ("u4.as_signed", [(4, False)], lambda a: a.as_signed()),
        ("-u3", [(3, False)], lambda a: -a),
        ("u3+s3", [(3, False), (3, True)], lambda a, b: a + b),
        ("u4[1:3]", [(4, False)], lambda a: a[1:3]),
        ("cat", [(2, False), (2, True)], lambda a, b: Cat(a, b)),
        ("(~s3).as_unsigned", [(3, True)], lambda a: (~a).as_unsigned()),
        ("u0", [(0, False)], lambda a: a),
        ("mux", [(1, False), (3, True), (3, False)], lambda s, a, b: __import__("amaranth").hdl.Mux(s, a, b)),
    ]


SPECS = ["", "d", "x", "#06x", "+d", "b", "_b", ">8", " d", "#X", "o", "*<7d", "08b", "c"]


def tasks(tier):
    ts = [("format", k) for k in range(len(arg_forms()))]
    ts += [("string",), ("activity", "print"), ("activity", "assert"), ("activity", "assume"), ("literal",),
           ("activity", "print-under-enable"), ("activity", "assert-under-enable")]
    ts += [("grammar", t) for t in "bodxXcs "] + [("grammar-reject",), ("reset",), ("print-args",), ("property-message",)]
    return ts


def canaries(tier):
    return [("canary-format",)]


class captured_print:
    def __enter__(self):
        self.calls = []
        self.old = builtins.print
        builtins.print = lambda *a, **k: self.calls.append((a, k))
        return self

    def __exit__(self, *exc):
        builtins.print = self.old
        return False


def _signals(shapes):
    from amaranth.hdl import Signal, Shape
    return [Signal(Shape(w, s), name=f"a{k}") for k, (w, s) in enumerate(shapes)]


def unit_format(k, broken=False):
    from amaranth.hdl import Module, Print, Format, Value
    label, shapes, build = arg_forms()[k]
    name = f"format[{label}]"
    sigs = _signals(shapes)
    expr = Value.cast(build(*sigs))
    esh = expr.shape()
    specs = [s for s in SPECS if not (s == "c" and esh.signed)]
    m = Module()
    for s in specs:
        m.d.comb += Print(Format("<{{" + "{:" + s + "}" + "}}>", expr), end="")
    m.d.comb += Print(Format("two {} {:x} done", expr, sigs[0]))
    design, state, procs = capture.compile_design(m)
    proc, src = procs[0]

    def body(path):
        env = Env()
        for j, (sig, (w, s)) in enumerate(zip(sigs, shapes)):
            lo, hi = shape_range(w, s)
            v = path.var(f"v{j}", lo, hi)
            sl = state.slot(sig)
            sl.curr = sl.next = v
            env[sig] = v
        want = to_sint(sem(expr, env))
        if broken:
            want = want + 1
        log = format_log()
        start = len(log)
        with captured_print() as cp:
            proc.run()
        path.prove(f"{name}::print-count", len(cp.calls) == len(specs) + 1)
        entries = log[start:]
        idx = 0
        for j, s in enumerate(specs):
            (args, kw) = cp.calls[j]
            text = args[0]
            marker, val, spec = entries[idx]
            idx += 1
            path.prove(f"{name}::spec[{s!r}]::unchanged", spec == s and text == "<{" + marker + "}>" and kw.get("end") == "")
            path.prove(f"{name}::spec[{s!r}]::value", to_sint(val) == want)
        (args, kw) = cp.calls[len(specs)]
        (m1, v1, s1), (m2, v2, s2) = entries[idx], entries[idx + 1]
        path.prove(f"{name}::two-args::text", args[0] == f"two {m1} {m2} done\n" and s1 == "" and s2 == "x")
        path.prove(f"{name}::two-args::values", And(to_sint(v1) == want, to_sint(v2) == to_sint(env[sigs[0]])))
    return runner.from_exploration(name, Exploration(name, body).run(), {"source_excerpt": src[:400]})


def unit_string():
    """'s' arguments: the text is the value's non-zero bytes, least significant first (width 8: one byte)."""
    from amaranth.hdl import Module, Print, Format, Signal
    name = "format[s]"
    a = Signal(8, name="a")
    m = Module()
    m.d.comb += Print(Format("[{:s}]", a), Format("[{:>3s}]", a))
    design, state, procs = capture.compile_design(m)
    proc, src = procs[0]

    def body(path):
        v = path.var("v", 0, 127)
        state.slot(a).curr = state.slot(a).next = v
        with captured_print() as cp:
            proc.run()
        (args, kw) = cp.calls[0]
        c = int(v)                       # the run has case-split on the byte; pin it for the reference
        want = "" if c == 0 else chr(c)
        path.prove(f"{name}::text", len(args) == 1 and args[0] == "[{}] [{:>3s}]\n".format(want, want) and kw.get("end") == "")
    return runner.from_exploration(name, Exploration(name, body, max_paths=2000).run())


def unit_literal():
    """Literal text with braces and a multi-chunk format survive unchanged."""
    from amaranth.hdl import Module, Print, Format, Signal
    name = "format[literal]"
    a = Signal(4, name="a")
    m = Module()
    m.d.comb += Print("{x}", Format("}}{{ {} {{}}", a), "tail", sep="|", end="$")
    design, state, procs = capture.compile_design(m)
    proc, src = procs[0]

    def body(path):
        v = path.var("v", 0, 15)
        state.slot(a).curr = state.slot(a).next = v
        log = format_log()
        start = len(log)
        with captured_print() as cp:
            proc.run()
        marker, val, spec = log[start]
        path.prove(f"{name}::text", cp.calls[0][0][0] == "{x}|}{ " + marker + " {}|tail$")
        path.prove(f"{name}::value", to_sint(val) == v)
    return runner.from_exploration(name, Exploration(name, body).run())


def unit_activity(kind):
    from amaranth.hdl import Module, Print, Assert, Assume, Format, Signal, ClockDomain
    name = f"activity[{kind}]"
    en, sel, cond, x = Signal(name="en"), Signal(2, name="sel"), Signal(4, name="cond"), Signal(4, name="x")
    m = Module()
    m.domains += ClockDomain("sync", reset_less=True)
    with m.If(en):
        with m.Switch(sel):
            with m.Case(1, 2):
                if kind == "print":
                    m.d.sync += Print(Format("x={}", x))
                elif kind == "assert":
                    m.d.sync += Assert(cond, Format("bad {:d}", x))
                else:
                    m.d.sync += Assume(cond)
            with m.Default():
                m.d.sync += x.eq(x + 1)
    design, state, procs = capture.compile_design(m)
    (proc, src), = [(p, s) for p, s in procs if not p.is_comb]

    def body(path):
        vals = {}
        for sig in (en, sel, cond, x):
            sh = sig.shape()
            v = path.var(sig.name, *shape_range(sh.width, sh.signed))
            state.slot(sig).curr = state.slot(sig).next = v
            vals[sig.name] = v
        active = And(vals["en"] != 0, Or(vals["sel"] == 1, vals["sel"] == 2))
        log = format_log()
        start = len(log)
        raised = None
        with captured_print() as cp:
            try:
                proc.run()
            except AssertionError as e:
                raised = e
        if kind == "print":
            printed = len(cp.calls) > 0
            path.prove(f"{name}::emits-iff-active", active if printed else Not(active))
            if printed:
                marker, val, spec = log[start]
                path.prove(f"{name}::text-and-value", And(to_sint(val) == vals["x"]) if cp.calls[0][0][0] == f"x={marker}\n" else False)
                path.prove(f"{name}::once", len(cp.calls) == 1)
        else:
            should = And(active, vals["cond"] == 0)
            path.prove(f"{name}::raises-iff-active-and-zero", should if raised is not None else Not(should))
            if raised is not None:
                word = "Assertion" if kind == "assert" else "Assumption"
                if kind == "assert":
                    marker, val, spec = log[start]
                    path.prove(f"{name}::message", And(to_sint(val) == vals["x"]) if str(raised) == f"{word} violated: bad {marker}" and spec == "d" else False)
                else:
                    path.prove(f"{name}::message", str(raised) == f"{word} violated")
            path.prove(f"{name}::no-print", len(cp.calls) == 0)
    return runner.from_exploration(name, Exploration(name, body).run(), {"source_excerpt": src[:500]})


def unit_activity_inserted(kind):
    """a monitor fragment whose clocked domain holds ONLY Print / Assert statements, wrapped in EnableInserter: it emits /
    fails exactly at the edges at which the enable is high (the control inserter must gate a domain even when no signal is
    driven from it)"""
    from amaranth.hdl import Module, Print, Assert, Format, Signal, ClockDomain, EnableInserter
    name = f"activity[{kind}]"
    en, cond, x = Signal(name="en"), Signal(4, name="cond"), Signal(4, name="x")
    mon = Module()
    if kind == "print-under-enable":
        mon.d.sync += Print(Format("x={}", x))
    else:
        mon.d.sync += Assert(cond, Format("bad {:d}", x))
    top = Module()
    top.domains += ClockDomain("sync", reset_less=True)
    top.submodules.mon = EnableInserter(en)(mon)
    design, state, procs = capture.compile_design(top)
    (proc, src), = [(p, s) for p, s in procs if not p.is_comb]

    def body(path):
        vals = {}
        for sig in (en, cond, x):
            sh = sig.shape()
            v = path.var(sig.name, *shape_range(sh.width, sh.signed))
            state.slot(sig).curr = state.slot(sig).next = v
            vals[sig.name] = v
        active = vals["en"] != 0
        raised = None
        with captured_print() as cp:
            try:
                proc.run()
            except AssertionError as e:
                raised = e
        if kind == "print-under-enable":
            printed = len(cp.calls) > 0
            path.prove(f"{name}::emits-iff-enabled", active if printed else Not(active))
        else:
            should = And(active, vals["cond"] == 0)
            path.prove(f"{name}::raises-iff-enabled-and-zero", should if raised is not None else Not(should))
    return runner.from_exploration(name, Exploration(name, body).run(), {"source_excerpt": src[:500]})


def unit_reset():
    """(a) contract of PyRTLProcess.reset(), over its whole (finite) state space: afterwards the process is runnable iff it
    is combinational and is not critical, whatever it was before -- a clocked process only ever runs in response to an
    edge, also after Simulator.reset();  (b) BOUNDED, real simulator: a design with many clocked Print processes and one
    Assert that fails at the third edge -- run until the AssertionError, Simulator.reset(), run again: each run emits
    exactly one line per Print per active edge (nothing at time 0, nothing twice), as a fresh simulator does."""
    from amaranth.sim._pyrtl import PyRTLProcess
    from amaranth.hdl import Module, Print, Assert, Format, Signal, ClockDomain
    from amaranth.sim import Simulator
    name = "reset"
    obs = []
    bad = None
    n = 0
    for is_comb in (False, True):
        for runnable in (False, True):
            for critical in (False, True):
                n += 1
                p = PyRTLProcess(is_comb=is_comb)
                p.runnable, p.critical = runnable, critical
                p.reset()
                if (p.runnable, p.critical) != (is_comb, False) and bad is None:
                    bad = {"is_comb": is_comb, "runnable before": runnable, "critical before": critical,
                           "after reset()": {"runnable": p.runnable, "critical": p.critical}, "expected": {"runnable": is_comb, "critical": False},
                           "how": "p = PyRTLProcess(is_comb=...); set the flags; p.reset()"}
    obs.append({"name": f"{name}::PyRTLProcess.reset::runnable-iff-comb-and-not-critical", "kind": "post", "status": "proved" if bad is None else "refuted",
                "backend": "closed", "time_s": 0.0, **({} if bad is None else {"failing_input": bad})})

    def build(K):
        m = Module()
        ctr = Signal(4, name="ctr")
        m.d.sync += ctr.eq(ctr + 1)
        for i in range(K):
            sub = Module()
            sub.d.sync += Print(Format("p%d c={}" % i, ctr))
            m.submodules[f"s{i}"] = sub
        chk = Module()
        chk.d.sync += Assert(ctr != 2, Format("ctr is {}", ctr))
        m.submodules.chk = chk
        return m

    def run_collect(sim):
        lines = []
        with captured_print() as cp:
            try:
                sim.run_until(10e-6 * 5)
            except AssertionError as e:
                lines.append("ASSERT " + str(e))
        return sorted(a[0] if a else "" for a, _k in cp.calls) + lines
    bad2 = None
    cases = 0
    for K in (1, 4, 16, 40):
        cases += 1
        try:
            fresh = Simulator(build(K)); fresh.add_clock(1e-6)
            want = run_collect(fresh)
            sim = Simulator(build(K)); sim.add_clock(1e-6)
            first = run_collect(sim)
            sim.reset()
            again = run_collect(sim)
            def legal(lines):
                # one line per Print per active edge: edges with ctr = 0 and 1 are complete; at the edge with ctr = 2 the assertion
                # stops the simulation, and which of the other processes of that edge already ran is not specified
                from collections import Counter
                cnt = Counter(l.strip() for l in lines if not l.startswith("ASSERT"))
                for i in range(K):
                    if cnt.pop(f"p{i} c=0", 0) != 1 or cnt.pop(f"p{i} c=1", 0) != 1 or cnt.pop(f"p{i} c=2", 0) > 1:
                        return False
                return not cnt and [l for l in lines if l.startswith("ASSERT")] == ["ASSERT Assertion violated: ctr is 2"]
            ok = legal(want) and legal(first) and legal(again)
        except Exception as e:
            ok, want, first, again = False, repr(e), None, None
        if not ok and bad2 is None:
            def diff(a, b):
                return [x for x in (a or []) if x not in (b or [])][:6] if isinstance(a, list) else a
            bad2 = {"clocked Print submodules": K, "lines of a fresh simulator": len(want) if isinstance(want, list) else want,
                    "lines after reset()": len(again) if isinstance(again, list) else again,
                    "lines after reset() that a fresh simulator does not emit": diff(again, want), "emitted after reset()": (again or [])[:8] if isinstance(again, list) else again,
                    "how": "Simulator(design); add_clock; run_until -> AssertionError; sim.reset(); run_until again; compare with a fresh Simulator"}
    obs.append({"name": f"{name}::after-failed-assert-and-reset-emits-as-a-fresh-simulator", "kind": "bounded", "status": "proved" if bad2 is None else "refuted",
                "backend": "cpython", "time_s": 0.0, **({} if bad2 is None else {"failing_input": bad2})})
    return {"task": name, "paths": n + cases, "solver_s": 0.0, "obligations": obs,
            "bounded": [{"name": "assert failure, reset, rerun", "bound": "designs with 1, 4, 16, 40 clocked Print submodules, 5 clock periods", "cases": cases,
                         "failures": 0 if bad2 is None else 1}]}


def unit_print_args():
    """Print(*args, sep=, end=) emits what Python's print(*args, sep=, end=) would for the formatted arguments: the
    arguments' texts joined by `sep` (an empty argument still takes its place), followed by `end` -- every combination of
    the listed argument kinds (empty / literal strings with braces, Format objects with and without fields, values) in
    lists of 0..3 arguments x separators x terminators, on the real simulator."""
    import itertools
    from amaranth.hdl import Module, Print, Format, Signal, Const, ClockDomain
    from amaranth.sim import Simulator
    x = Signal(8, init=0xfd, name="x")
    y = Signal(range(-8, 8), init=-3, name="y")
    kinds = [("''", lambda: "", ""), ("'a{b}'", lambda: "a{b}", "a{b}"), ("Format('')", lambda: Format(""), ""),
             ("Format('{:x}', x)", lambda: Format("{:x}", x), "fd"), ("y", lambda: y, "-3"), ("Format('<{}>', y)", lambda: Format("<{}>", y), "<-3>")]
    seps = [" ", "", "-", "{}"]
    ends = ["\n", "", ";"]
    cases = 0
    bad = None
    for n in range(0, 4):
        for combo in itertools.product(range(len(kinds)), repeat=n):
            if n == 3 and sum(1 for k in combo if k < 3) == 0:
                continue                       # three non-empty arguments add nothing over two
            for sep, end in itertools.product(seps, ends):
                cases += 1
                args = [kinds[k][1]() for k in combo]
                want = sep.join(kinds[k][2] for k in combo) + end
                m = Module()
                m.domains += ClockDomain("sync", reset_less=True)
                try:
                    m.d.sync += Print(*args, sep=sep, end=end)
                    sim = Simulator(m)
                    sim.add_clock(1e-6)
                    with captured_print() as cp:
                        sim.run_until(1.2e-6)
                    got = "".join(str(a[0]) if a else "" for a, _k in cp.calls[:1])
                    extra = len(cp.calls) > 1
                except Exception as e:
                    got, extra = repr(e)[:200], False
                if (got != want or extra) and not (want == "" and got == ""):
                    if bad is None:
                        bad = {"Print arguments": [kinds[k][0] for k in combo], "sep": sep, "end": end, "emitted": got, "python print() gives": want,
                               "how": "Print(*args, sep=sep, end=end) in a sync domain of the real Simulator, one active edge (x = 0xfd, y = -3)"}
    ok = bad is None
    return {"task": "print-args", "paths": cases, "solver_s": 0.0, "obligations": [
        {"name": "print-args::joined-by-sep-terminated-by-end", "kind": "bounded", "status": "proved" if ok else "refuted", "backend": "cpython",
         "time_s": 0.0, **({} if ok else {"failing_input": bad})}],
        "bounded": [{"name": "Print argument lists", "bound": "0..3 arguments of 6 kinds x 4 separators x 3 terminators", "cases": cases,
                     "failures": 0 if ok else 1}]}


def unit_property_string_message():
    """An Assert / Assume given a plain STRING message carries that text verbatim (it is not a format string: braces are
    literal), for every listed message; a Format message is formatted.  Closed, real simulator."""
    from amaranth.hdl import Module, Assert, Assume, Format, Signal, ClockDomain
    from amaranth.sim import Simulator
    obs = []
    msgs = ["plain text", "dict is {{}}", "expected state {IDLE}", "}", "{", "a{0}b{}", "100%", "{x!r:>4}"]
    x = Signal(4, init=9, name="x")
    for kind, cls, word in (("assert", Assert, "Assertion"), ("assume", Assume, "Assumption")):
        for msg in msgs + [None, Format("x={:02x} {{}}", x)]:
            want = f"{word} violated" + ("" if msg is None else ": " + (msg if isinstance(msg, str) else "x=09 {}"))
            try:
                m = Module()
                m.domains += ClockDomain("sync", reset_less=True)
                m.d.sync += cls(x == 0) if msg is None else cls(x == 0, msg)
                sim = Simulator(m)
                sim.add_clock(1e-6)
                try:
                    sim.run_until(2e-6)
                    got = "no failure reported"
                except AssertionError as e:
                    got = str(e)
            except Exception as e:
                got = "raised " + repr(e)[:160]
            ok = got == want
            obs.append({"name": f"property-message[{kind}]::{msg if isinstance(msg, str) or msg is None else 'Format'}", "kind": "post",
                        "status": "proved" if ok else "refuted", "backend": "closed", "time_s": 0.0,
                        **({} if ok else {"failing_input": {"statement": f"{cls.__name__}(x == 0, {msg!r})", "reported": got, "expected": want}})})
    return {"task": "property-message", "paths": len(obs), "solver_s": 0.0, "obligations": obs}


def _spec_space(tier_thorough=False):
    fills = [None, "x", "0", " ", "{", "}", "é"]
    aligns = [None, "<", ">", "="]
    signs = [None, "-", "+", " "]
    widths = [None, "1", "12"] + (["100"] if tier_thorough else [])
    for fill, align, sign, alt, zero, width, grp in itertools.product(fills, aligns, signs, ("", "#"), ("", "0"), widths, (None, "_")):
        if fill is not None and align is None:
            continue
        yield (fill or "") + (align or "") + (sign or "") + alt + zero + (width or "") + (grp or "")


def unit_grammar(typ):
    """Bounded: accepted specs are Python specs and the simulated text equals Python's."""
    from amaranth.hdl import Module, Print, Format, Signal, signed, unsigned
    from amaranth.sim import Simulator
    import io, contextlib
    typ = typ.strip()
    cases = fails = accepted = 0
    bad = None
    for shape, values in ((unsigned(8), [0, 1, 65, 127]), (signed(8), [-128, -3, 0, 77])):
        good_specs = []
        for base in _spec_space():
            spec = base + typ
            cases += 1
            sig = Signal(shape)
            try:
                Format("{:" + spec + "}", sig)
            except ValueError:
                continue
            except Exception as e:
                fails += 1
                bad = bad or {"spec": spec, "shape": repr(shape), "construction raised": repr(e)}
                continue
            accepted += 1
            good_specs.append(spec)
        # one design per batch of specs, simulated for real on the sample values
        for i in range(0, len(good_specs), 60):
            batch = good_specs[i:i + 60]
            sig = Signal(shape, name="v")
            m = Module()
            keep = Signal()
            m.d.comb += keep.eq(sig.any())
            for spec in batch:
                m.d.comb += Print(Format("{:" + spec + "}", sig), end="\x1f")
            for v in values:
                if typ == "s" and v == 0:
                    pass
                try:
                    sim = Simulator(m)
                    out = io.StringIO()

                    async def tb(ctx, v=v):
                        ctx.set(sig, v)
                    sim.add_testbench(tb)
                    with contextlib.redirect_stdout(out):
                        sim.run()
                    texts = out.getvalue().split("\x1f")
                except Exception as e:
                    fails += 1
                    bad = bad or {"specs": batch[:5], "value": v, "simulation raised": repr(e)[:300]}
                    continue
                # the design prints once at time 0 (init) and once after the set; take the last len(batch)
                texts = texts[:-1][-len(batch):]
                for spec, got in zip(batch, texts):
                    try:
                        if typ == "s":
                            bs = bytes(b for b in (v & 0xff,) if b)
                            want = format(bs.decode(), spec[:-1])
                        else:
                            want = format(v, spec)
                    except Exception as e:
                        fails += 1
                        bad = bad or {"spec": spec, "value": v, "python rejects": repr(e)}
                        continue
                    if got != want:
                        fails += 1
                        bad = bad or {"spec": spec, "value": v, "simulated": got, "python": want}
    obs = []
    if fails:
        obs.append({"name": f"grammar[{typ or 'none'}]::accepted-specs-format-like-python", "kind": "bounded", "status": "refuted",
                    "backend": "cpython", "time_s": 0.0, "failing_input": bad})
    return {"task": f"grammar[{typ}]", "paths": 0, "solver_s": 0.0, "obligations": obs,
            "bounded": [{"name": f"format specs with type {typ or 'none'!r}: accepted => Python accepts and text equal",
                         "bound": "enumerated slice of the grammar, 4 sample values per shape", "cases": cases, "failures": fails}]}


def unit_grammar_reject():
    from amaranth.hdl import Format, Signal, signed
    sig, ssig, s12 = Signal(8), Signal(signed(8)), Signal(12)
    must_reject = [("^5d", sig), (",d", sig), ("n", sig), ("c", ssig), ("s", ssig), ("s", s12), ("=5c", sig), ("#c", sig),
                   ("05c", sig), ("+c", sig), ("_c", sig), ("=3s", sig), ("e", sig), ("f", sig), ("%", sig), ("5.2d", sig),
                   ("zd", sig), ("d5", sig), ("00d", sig), ("xx<3", sig)]
    must_accept = [("", sig), ("d", ssig), ("c", sig), ("s", sig), ("x<8x", sig), ("#010b", ssig), ("_x", sig), ("=+5d", ssig)]
    obs = []
    cases = fails = 0
    bad = None
    for spec, s in must_reject:
        cases += 1
        try:
            Format("{:" + spec + "}", s)
            fails += 1
            bad = bad or {"spec": spec, "shape": repr(s.shape()), "expected": "ValueError at construction", "observed": "accepted"}
        except ValueError:
            pass
    for spec, s in must_accept:
        cases += 1
        try:
            Format("{:" + spec + "}", s)
        except ValueError as e:
            fails += 1
            bad = bad or {"spec": spec, "shape": repr(s.shape()), "expected": "accepted", "observed": repr(e)}
    if fails:
        obs.append({"name": "grammar::reject-and-accept-lists", "kind": "bounded", "status": "refuted", "backend": "cpython",
                    "time_s": 0.0, "failing_input": bad})
    return {"task": "grammar-reject", "paths": 0, "solver_s": 0.0, "obligations": obs,
            "bounded": [{"name": "invalid / unsupported specs rejected at construction", "bound": "listed specs", "cases": cases,
                         "failures": fails}]}


def run_task(task):
    k = task[0]
    if k == "format":
        return unit_format(task[1])
    if k == "string":
        return unit_string()
    if k == "literal":
        return unit_literal()
    if k == "activity":
        if task[1].endswith("-under-enable"):
            return unit_activity_inserted(task[1])
        return unit_activity(task[1])
    if k == "grammar":
        return unit_grammar(task[1])
    if k == "grammar-reject":
        return unit_grammar_reject()
    if k == "reset":
        return unit_reset()
    if k == "property-message":
        return unit_property_string_message()
    if k == "print-args":
        return unit_print_args()
    if k == "canary-format":
        return unit_format(2, broken=True)
    raise KeyError(k)


def concrete_format_search():
    """Real simulator, every argument form, every value: printed text vs Python's format of the reference value."""
    import io, contextlib, itertools as it
    from amaranth.hdl import Module, Print, Format, Value, Signal
    from amaranth.sim import Simulator
    from harness.realsim import all_values
    for label, shapes, build in arg_forms():
        sigs = _signals(shapes)
        expr = Value.cast(build(*sigs))
        specs = [s for s in SPECS if not (s == "c" and expr.shape().signed)]
        m = Module()
        keep = Signal()
        m.d.comb += keep.eq(Value.cast(sum(sigs[1:], start=sigs[0])).any())
        for s in specs:
            m.d.comb += Print(Format("{:" + s + "}", expr), end="\x1f")
        for vals in it.product(*[all_values(sg.shape()) for sg in sigs]):
            sim = Simulator(m)
            out = io.StringIO()

            async def tb(ctx, vals=vals):
                for sg, v in zip(sigs, vals):
                    ctx.set(sg, v)
            sim.add_testbench(tb)
            try:
                with contextlib.redirect_stdout(out):
                    sim.run()
            except Exception as e:
                return {"expression": repr(expr), "inputs": list(vals), "specs": specs, "simulation raised": repr(e),
                        "how": "real Simulator, comb Print of the expression"}
            texts = out.getvalue().split("\x1f")[:-1][-len(specs):]
            ref = int(sem(expr, Env(zip(sigs, vals))))
            for s, got in zip(specs, texts):
                if got != format(ref, s):
                    return {"expression": repr(expr), "inputs": list(vals), "spec": s, "simulated": got,
                            "python": format(ref, s), "how": "real Simulator, comb Print, stdout captured"}
    return None


def find_failing_input(res, ob):
    if ob["name"].startswith("format["):
        return concrete_format_search() or ({"model": ob.get("model")} if ob.get("model") else None)
    if ob.get("model"):
        return {"model": ob["model"], "how": "exact counter-model of the generated code; obligation " + ob["name"]}
    return None


def replay(data):
    if data["obligation"].startswith("format[") and "failing_input" in data and "expression" in (data["failing_input"] or {}):
        return concrete_format_search() is not None
    for t in tasks("quick"):
        r = run_task(t)
        if any(o["name"] == data["obligation"] and o["status"] == "refuted" for o in r["obligations"]):
            return True
    return False
