"""C17 -- clock-domain-crossing primitives meet their latency and pulse contracts.

Layer C (DESIGN.md 3C) on the real FFSynchronizer, AsyncFFSynchronizer, ResetSynchronizer and
PulseSynchronizer: the flops are the representation, clock / asynchronous-input events are the
operations (bodies = generated run() code composed by the kernel's delta loop), ghost counters where
the contract counts pulses.  All obligations hold from EVERY state (satisfying the stated invariant)
and for EVERY data value; parameters (stages, width, edges) are enumerated.
"""
from pyvc.explore import Exploration
from pyvc.sym import SInt, to_sint, And, Or, Not, Implies, ite, is_sym
from pyvc import runner, source
from harness.kernel import Design

PROPERTY = "C17"

META = {
    "level": "proof",
    "trusted_base": [
        "pyvc symbolic integer encoding; z3 / cvc5",
        "kernel composition model (harness/kernel.py: delta-cycle loop, edge wakers read off the real "
        "add_signal_waker calls, settling with convergence certificate)",
        "slot contract of _PySignalState.update (C08)",
    ],
    "assumptions": [
        "stages in {2,3,4} (quick: {2,3}), widths in {1,2}; both async edges",
        "PulseSynchronizer: environment precondition 'an output-clock edge falls between consecutive input "
        "pulses', stated as: a pulse is only presented when the previous toggle has been captured by the first stage",
    ],
    "bounds": {"quick": {"stages": [2, 3], "widths": [1, 2]}, "thorough": {"stages": [2, 3, 4, 5], "widths": [1, 2, 3]}},
    "explanation": "per-edge contracts and k-step unrollings from arbitrary states",
}


def functions():
    f = "amaranth/lib/cdc.py"
    return [source.describe(f, q, arith="adaptive bit-vector (exact)", bound="stages/width enumerated")
            for q in ("_check_stages", "FFSynchronizer.__init__", "FFSynchronizer.elaborate", "AsyncFFSynchronizer.__init__",
                      "AsyncFFSynchronizer.elaborate", "ResetSynchronizer.elaborate", "PulseSynchronizer.elaborate")]


def tasks(tier):
    b = META["bounds"][tier]
    ts = [("ff", st, w, init) for st in b["stages"] for w in b["widths"] for init in (0, 1)]
    # signed input into a wider unsigned output: the stages must keep the input's shape (sign extension at the output)
    ts += [("ff", st, 2, init, True) for st in b["stages"] for init in (0, -1)]
    ts += [("ff", st, 2, 1, False, False, False) for st in b["stages"]]       # reset_less=False
    ts += [("asyncff", st, e) for st in b["stages"] for e in ("pos", "neg")]
    ts += [("resetsync", st) for st in b["stages"]]
    ts += [("resetsync", 2, "other"), ("asyncff", 2, "pos", "other")]
    ts += [("pulse", st) for st in b["stages"]]
    ts += [("check_stages",), ("negedge-domain",)]
    return ts


def canaries(tier):
    return [("canary-ff-latency",), ("canary-pulse",)]


def _stage_signals(d, prefix="stage"):
    st = [sl.signal for sl in d.sig_slots if sl.signal.name.startswith(prefix)]
    st.sort(key=lambda s: int(s.name[len(prefix):]))
    return st


def check_ff(stages, width, init, signed_in=False, canary=False, reset_less=True):
    from amaranth.hdl import Signal, Module, ClockDomain, signed
    from amaranth.lib.cdc import FFSynchronizer
    from spec.sem import norm
    name = f"FFSynchronizer(stages={stages},w={width},init={init}{',signed-into-wider' if signed_in else ''}{'' if reset_less else ',reset_less=False'})"
    if signed_in:
        i, o = Signal(signed(width), name="i"), Signal(width + 2, name="o")
        out_of = lambda x: norm(x, width + 2, False)
    else:
        i, o = Signal(width, name="i"), Signal(width, name="o")
        out_of = lambda x: x
    m = Module()
    m.domains.sync = cd = ClockDomain()
    m.submodules.ff = FFSynchronizer(i, o, stages=stages, init=init) if reset_less else \
        FFSynchronizer(i, o, stages=stages, init=init, reset_less=False)
    d = Design(m)
    d.register(i, o)
    clk = cd.clk
    flops = _stage_signals(d)
    obs = []
    d.reset_state()
    d.apply([])
    ok = len(flops) == stages and all(d.val(f) == init for f in flops) and d.val(o) == out_of(init)
    obs.append({"name": f"{name}::initial-output", "kind": "post", "status": "proved" if ok else "refuted",
                "backend": "closed", "time_s": 0.0,
                **({} if ok else {"failing_input": {"what": "output / stages do not show init before the first edge"}})})

    def body(path):
        d.fresh(path)
        d.set(clk, 0)
        # the output domain's reset is at an ARBITRARY level throughout: by default the stages are reset-less (the reset of the
        # output domain neither holds nor wipes them); with reset_less=False an edge with the reset high loads init
        rv = path.var("rst", 0, 1)
        in_reset = bool(rv != 0) and not reset_less
        if cd.rst is not None:
            d.set(cd.rst, rv)
        v = d.val(i)
        d.apply([], path, name + "::pre")
        old = [d.val(f) for f in flops]
        path.prove(f"{name}::output-is-last-stage", to_sint(d.val(o)) == to_sint(out_of(old[-1])))
        for j in range(1, stages + 1):
            d.apply([(clk, 1)], path, f"{name}::edge{j}")
            for k, f in enumerate(flops):
                want = init if in_reset else (v if k < j else old[k - j])
                path.prove(f"{name}::edge{j}::stage{k}", to_sint(d.val(f)) == to_sint(want))
            want_o = init if in_reset else (v if j >= stages else old[stages - 1 - j])
            if canary and j == stages - 1:
                want_o = v
            path.prove(f"{name}::edge{j}::output", to_sint(d.val(o)) == to_sint(out_of(want_o)))
            d.apply([(clk, 0)], path, f"{name}::fall{j}")
            path.prove(f"{name}::fall{j}::no-change", And(*[to_sint(d.val(f)) == to_sint(init if in_reset else (v if k < j else old[k - j]))
                                                           for k, f in enumerate(flops)]))
    res = runner.from_exploration(name, Exploration(name, body).run())
    res["obligations"] = obs + res["obligations"]
    return res


def check_asyncff(stages, edge, via_reset_sync=False, domain="sync"):
    from amaranth.hdl import Signal, Module, ClockDomain, ResetSignal
    from amaranth.lib.cdc import AsyncFFSynchronizer, ResetSynchronizer
    name = f"{'ResetSynchronizer' if via_reset_sync else 'AsyncFFSynchronizer'}(stages={stages},edge={edge}{'' if domain == 'sync' else ',domain=' + domain})"
    i, o = Signal(name="i"), Signal(name="o")
    m = Module()
    cd = ClockDomain(domain)
    m.domains += cd
    other = None
    if domain != "sync":
        # an unrelated "sync" domain is present too: its clock must play no part
        other = ClockDomain("sync")
        m.domains += other
        tick = Signal(name="tick")
        m.d.sync += tick.eq(~tick)
    if via_reset_sync:
        m.submodules.rs = ResetSynchronizer(i, domain=domain, stages=stages)
        o = cd.rst
    else:
        m.submodules.aff = AsyncFFSynchronizer(i, o, o_domain=domain, stages=stages, async_edge=edge)
    d = Design(m)
    d.register(i, o)
    clk = cd.clk
    flops = _stage_signals(d)
    act, rel = (1, 0) if edge == "pos" else (0, 1)

    def body(path):
        d.fresh(path)
        for t in d._triggers():      # derived clock / reset of the private domain: low, input released
            d.set(t, 0)
        d.set(clk, 0)
        if other is not None:
            d.set(other.clk, 0)
            if other.rst is not None:
                d.set(other.rst, 0)
        d.set(i, rel)
        d.apply([], path, name + "::pre")
        # --- assertion: immediate, whatever the state and without any clock edge
        d.apply([(i, act)], path, name + "::assert")
        path.prove(f"{name}::asserts-immediately", d.val(o) == 1)
        path.prove(f"{name}::all-stages-set", And(*[d.val(f) == 1 for f in flops]))
        # --- clock edges while asserted keep it asserted
        d.apply([(clk, 1)], path, name + "::clk-while-asserted")
        path.prove(f"{name}::stays-asserted", d.val(o) == 1)
        d.apply([(clk, 0)], path, name + "::clkfall-while-asserted")
        # --- release: no change without a clock edge; released after exactly `stages` edges
        d.apply([(i, rel)], path, name + "::release")
        path.prove(f"{name}::release-needs-clock", d.val(o) == 1)
        if other is not None:
            for j in range(stages + 1):
                d.apply([(other.clk, 1)], path, f"{name}::other-edge{j}")
                d.apply([(other.clk, 0)], path, f"{name}::other-fall{j}")
            path.prove(f"{name}::edges-of-another-domain-do-not-release", d.val(o) == 1)
        for j in range(1, stages + 1):
            d.apply([(clk, 1)], path, f"{name}::rel-edge{j}")
            path.prove(f"{name}::rel-edge{j}::output", d.val(o) == (1 if j < stages else 0))
            d.apply([(clk, 0)], path, f"{name}::rel-fall{j}")
            path.prove(f"{name}::rel-fall{j}::output", d.val(o) == (1 if j < stages else 0))
    return runner.from_exploration(name, Exploration(name, body).run())


def check_pulse(stages, canary=False):
    from amaranth.hdl import Signal, Module, ClockDomain
    from amaranth.lib.cdc import PulseSynchronizer
    name = f"PulseSynchronizer(stages={stages})"
    m = Module()
    m.domains.a = cda = ClockDomain(reset_less=True)
    m.domains.b = cdb = ClockDomain(reset_less=True)
    ps = PulseSynchronizer("a", "b", stages=stages)
    m.submodules.ps = ps
    d = Design(m)
    d.register(ps.i, ps.o)
    flops = _stage_signals(d)
    i_toggle = [sl.signal for sl in d.sig_slots if sl.signal.name == "i_toggle"][0]
    r_toggle = [sl.signal for sl in d.sig_slots if sl.signal.name == "r_toggle"][0]
    chain_sigs = [i_toggle] + flops + [r_toggle]

    def diffs():
        vals = [d.val(s) for s in chain_sigs]
        n = 0
        for a, b in zip(vals, vals[1:]):
            n = n + ite(a != b, 1, 0)
        return to_sint(n)
    parts = []
    for op in ("i-edge", "o-edge", "both"):
        def body(path, op=op):
            d.fresh(path)
            d.set(cda.clk, 0)
            d.set(cdb.clk, 0)
            d.apply([], path, f"{name}::{op}::pre")
            p = d.val(ps.i)
            n0 = diffs()
            o0 = d.val(ps.o)
            s0 = d.val(flops[0])
            path.prove(f"{name}::{op}::o-is-toggle-xor", to_sint(o0) == ite(d.val(flops[-1]) != d.val(r_toggle), 1, 0))
            if op in ("i-edge", "both") and not canary:
                # environment: a pulse only when the previous toggle has been captured
                path.assume(Implies(p != 0, d.val(i_toggle) == s0))
            ev = {"i-edge": [(cda.clk, 1)], "o-edge": [(cdb.clk, 1)], "both": [(cda.clk, 1), (cdb.clk, 1)]}[op]
            d.apply(ev, path, f"{name}::{op}::post")
            n1 = diffs()
            inc = to_sint(p) if op in ("i-edge", "both") else 0
            dec = to_sint(o0) if op in ("o-edge", "both") else 0
            # ghost counters: inputs' - outputs' - in_flight' == inputs - outputs - in_flight
            path.prove(f"{name}::{op}::pulse-conservation", n1 == n0 + inc - dec)
        parts.append(runner.from_exploration(name, Exploration(f"{name}::{op}", body).run()))

    # drain: with no further input pulses, stages+1 output edges deliver everything in flight
    def body_drain(path):
        d.fresh(path)
        d.set(cda.clk, 0)
        d.set(cdb.clk, 0)
        d.apply([], path, f"{name}::drain::pre")
        n0 = diffs()
        seen = 0
        for j in range(stages + 1):
            seen = seen + to_sint(d.val(ps.o))
            d.apply([(cdb.clk, 1)], path, f"{name}::drain::edge{j}")
            d.apply([(cdb.clk, 0)], path, f"{name}::drain::fall{j}")
        path.prove(f"{name}::drain::all-delivered", And(diffs() == 0, to_sint(seen) == n0))
    parts.append(runner.from_exploration(name, Exploration(f"{name}::drain", body_drain).run()))
    return runner.merge_results(name, parts)


def check_negedge_domain():
    """AsyncFFSynchronizer / ResetSynchronizer on an output domain whose active edge is the falling one: the release chain is
    only specified for rising-edge clocking, so the design is REFUSED (DomainRequirementFailed) -- it must not be elaborated
    silently into a chain clocked on the wrong edge -- while the same on a posedge domain is accepted."""
    from amaranth.hdl import Signal, Module, ClockDomain
    from amaranth.hdl._ir import build_netlist, Fragment, DomainRequirementFailed
    from amaranth.lib.cdc import AsyncFFSynchronizer, ResetSynchronizer
    obs = []
    for cls in ("AsyncFFSynchronizer", "ResetSynchronizer"):
        for edge in ("pos", "neg"):
            for stages in (2, 3):
                m = Module()
                cd = ClockDomain("od", clk_edge=edge)
                m.domains += cd
                i, o = Signal(name="i"), Signal(name="o")
                if cls == "AsyncFFSynchronizer":
                    m.submodules.s = AsyncFFSynchronizer(i, o, o_domain="od", stages=stages)
                    ports = [i, o, cd.clk]
                else:
                    m.submodules.s = ResetSynchronizer(i, domain="od", stages=stages)
                    ports = [i, cd.clk]
                try:
                    build_netlist(Fragment.get(m, None), ports)
                    got = "accepted"
                except DomainRequirementFailed:
                    got = "DomainRequirementFailed"
                except Exception as e:
                    got = repr(e)[:160]
                want = "accepted" if edge == "pos" else "DomainRequirementFailed"
                ok = got == want
                if edge == "neg" and got == "accepted" and cls == "ResetSynchronizer":
                    ok = True           # no claim: its release chain is an AsyncFFSynchronizer, decided just above
                if edge == "neg" and got == "accepted" and cls == "AsyncFFSynchronizer":
                    # accepted after all: then it has to behave on the domain's ACTIVE (falling) edges -- released at exactly the
                    # stages-th falling edge after the input is deasserted (real simulator)
                    from amaranth.sim import Simulator
                    m2 = Module()
                    cd2 = ClockDomain("od", clk_edge="neg")
                    m2.domains += cd2
                    i2, o2 = Signal(name="i"), Signal(name="o")
                    m2.submodules.s = AsyncFFSynchronizer(i2, o2, o_domain="od", stages=stages)
                    sim = Simulator(m2)
                    sim.add_clock(1e-6, domain="od")
                    rel = []

                    async def tb(ctx):
                        ctx.set(i2, 1)
                        await ctx.delay(2.2e-6)
                        ctx.set(i2, 0)
                        n = 0
                        while ctx.get(o2) and n < 10:
                            await ctx.negedge(cd2.clk)
                            n += 1
                        rel.append(n)
                    sim.add_testbench(tb)
                    try:
                        sim.run()
                    except Exception as e:
                        rel.append(repr(e)[:100])
                    ok = rel == [stages]
                    got = f"accepted; released after {rel} falling edges"
                    want = f"refused, or released after exactly {stages} falling edges"
                obs.append({"name": f"{cls}(stages={stages})::{edge}edge-output-domain", "kind": "post", "status": "proved" if ok else "refuted",
                            "backend": "closed", "time_s": 0.0,
                            **({} if ok else {"failing_input": {"class": cls, "stages": stages, "output domain edge": edge, "elaboration": got, "expected": want}})})
    return {"task": "negedge-domain", "paths": len(obs), "solver_s": 0.0, "obligations": obs}


def check_stages_fn():
    from amaranth.lib.cdc import _check_stages
    obs = []
    for v, exp in [(0, TypeError), (1, ValueError), (2, None), (5, None), (-1, TypeError), ("2", TypeError), (2.0, TypeError)]:
        try:
            _check_stages(v)
            got = None
        except Exception as e:
            got = type(e)
        ok = got is exp
        obs.append({"name": f"_check_stages({v!r})", "kind": "post", "status": "proved" if ok else "refuted",
                    "backend": "closed", "time_s": 0.0,
                    **({} if ok else {"failing_input": {"stages": repr(v), "raised": repr(got), "expected": repr(exp)}})})
    return {"task": "_check_stages", "paths": 0, "solver_s": 0.0, "obligations": obs}


def run_task(task):
    k = task[0]
    if k == "ff":
        return check_ff(*task[1:])
    if k == "asyncff":
        return check_asyncff(task[1], task[2], domain=task[3] if len(task) > 3 else "sync")
    if k == "resetsync":
        return check_asyncff(task[1], "pos", via_reset_sync=True, domain=task[2] if len(task) > 2 else "sync")
    if k == "pulse":
        return check_pulse(task[1])
    if k == "negedge-domain":
        return check_negedge_domain()
    if k == "check_stages":
        return check_stages_fn()
    if k == "canary-ff-latency":
        return check_ff(3, 2, 0, canary=True)
    if k == "canary-pulse":
        return check_pulse(2, canary=True)
    raise KeyError(k)


def find_failing_input(res, ob):
    if ob.get("model") is None:
        return None
    return {"model": ob["model"], "how": "exact counter-model of the generated process code: signal values before "
            "the operation (variables are s<slot>_<signal name>); obligation " + ob["name"]}


def replay(data):
    import re
    nm = data["obligation"].split("::")[0]
    m = re.match(r"FFSynchronizer\(stages=(\d+),w=(\d+),init=(-?\d+)(,signed-into-wider)?\)", nm)
    if m:
        r = check_ff(int(m.group(1)), int(m.group(2)), int(m.group(3)), bool(m.group(4)))
    elif nm.startswith("AsyncFFSynchronizer"):
        m = re.match(r"AsyncFFSynchronizer\(stages=(\d+),edge=(\w+)\)", nm)
        r = check_asyncff(int(m.group(1)), m.group(2))
    elif nm.startswith("ResetSynchronizer"):
        m = re.match(r"ResetSynchronizer\(stages=(\d+)", nm)
        r = check_asyncff(int(m.group(1)), "pos", via_reset_sync=True)
    elif nm.startswith("PulseSynchronizer"):
        m = re.match(r"PulseSynchronizer\(stages=(\d+)\)", nm)
        r = check_pulse(int(m.group(1)))
    else:
        r = check_stages_fn()
    return any(o["status"] == "refuted" for o in r["obligations"])
