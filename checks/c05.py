"""C05 -- testbench reads and writes agree with what a circuit would compute.

Function contracts on the real tree-walking evaluator `amaranth/sim/_pyeval.py`, executed natively
on proxy values (all paths), discharged by z3 for all signal states and written values:

  eval_value(sim, v)      requires sim.well_formed()  (every slot's curr is canonical)
                          ensures  result == sem(v, view(sim))  -- exactly, canonical in v.shape()
  eval_assign(sim, l, x)  ensures  view'(sim) == assign(l, x, view(sim))   (whole view: every signal)
                          raises   DriverConflict iff the addressed signal is comb-driven

`sem` / `assign` are the same reference functions the compiled code is proved against in C01/C02, so
"agrees with the circuit" is the two-line lemma that both equal the reference.  The recursive calls
see operands that are signals holding arbitrary canonical values of each operand shape; since
eval_value's postcondition is exact, that is the inductive step for every nesting depth.
"""
from pyvc.explore import Exploration
from pyvc.sym import SInt, to_sint, And, Or, is_sym, ite
from pyvc import sym, runner, source
from spec.sem import sem, norm, mask, in_range, shape_range, Env, assign
from harness import capture
from . import templates as T
from . import c01, c02

PROPERTY = "C05"

META = {
    "level": "proof",
    "trusted_base": [
        "pyvc symbolic integer encoding (cross-checked against CPython on every run)",
        "z3 / cvc5 soundness",
        "CPython executing the real eval_value / eval_assign on proxy values",
        "spec/sem.py reference semantics (shared with C01/C02)",
    ],
    "assumptions": [
        "expression / target structures enumerated (same templates as C01 / C02, widths <= W); all "
        "signal states and all written values per structure",
        "_PySignalState.update and _PyMemoryState.read/write used through their contracts",
        "TestbenchContext.set's settle step (step_design) is not modelled here (C08)",
    ],
    "bounds": {"quick": {"W": 3}, "thorough": {"W": 5}},
    "explanation": "function contracts on _pyeval executed symbolically per structure",
}


def functions():
    f = "amaranth/sim/_pyeval.py"
    return [source.describe(f, q, arith="adaptive bit-vector (exact)", bound="structures enumerated")
            for q in ("eval_value", "_eval_matches", "_eval_assign_inner", "eval_assign")] + \
        [source.describe("amaranth/sim/_async.py", "TestbenchContext.get", arith="closed", bound="-"),
         source.describe("amaranth/sim/_async.py", "TestbenchContext.set", arith="closed", bound="-")]


def tasks(tier):
    ts = [("value", t) for t in c01.all_templates(tier)]
    W = 3 if tier == "quick" else 5
    cat = c02.lhs_catalogue(W)
    ts += [("assign", W, k, cat[k][0]) for k in range(len(cat))]
    ts += [("row", w, s, depth) for (w, s) in [(0, False), (1, False), (3, False), (3, True)] for depth in (1, 3)]
    chunk = 24
    return [("chunk", tuple(ts[i:i + chunk])) for i in range(0, len(ts), chunk)] + [("conflict",), ("castable-roundtrip",)]


def canaries(tier):
    return [("canary-value",), ("canary-assign",)]


def check_value(t, wrong=False):
    from amaranth.hdl import Value
    from amaranth.sim._pyeval import eval_value
    name = T.tid(("value", t))
    shapes, make_expr, direct = T.build(t)
    pre = T.precondition(t)
    sigs = c01._signals(shapes)
    expr = Value.cast(make_expr(*sigs))
    rsh = expr.shape()
    state = capture.StageState()

    def body(path):
        vals = []
        for k, ((w, s), sig) in enumerate(zip(shapes, sigs)):
            lo, hi = shape_range(w, s)
            v = path.var(f"v{k}", lo, hi)
            vals.append(v)
            sl = state.slot(sig)
            sl.curr = v
            sl.next = v
        if pre is not None:
            path.assume(pre(*vals))
        got = to_sint(eval_value(state, expr))
        want = direct(*vals) if direct is not None else sem(expr, Env(zip(sigs, vals)))
        want = to_sint(want)
        if wrong:
            want = want + 1
        path.prove(f"{name}::equals-spec", got == want)
        path.prove(f"{name}::canonical", in_range(got, rsh.width, rsh.signed))
    x = Exploration(name, body).run()
    return runner.from_exploration(name, x)


def check_assign(t, wrong=False):
    from amaranth.hdl import Signal, Shape, Value
    from amaranth.sim._pyeval import eval_assign
    _, W, k, cname = t
    name = T.tid(t)
    _n, tshs, ashs, fn = c02.lhs_catalogue(W)[k]
    targets = [Signal(Shape(w, s), name=f"t{i}") for i, (w, s) in enumerate(tshs)]
    aux = [Signal(Shape(w, s), name=f"aux{i}") for i, (w, s) in enumerate(ashs)]
    lhs = Value.cast(fn(*targets, *aux))
    n = len(lhs)
    state = capture.StageState()
    for s_ in targets + aux:
        state.get_signal(s_)

    def body(path):
        curr, prev = Env(), Env()
        for j, sl in enumerate(state.slots):
            sh = sl.signal.shape()
            lo, hi = shape_range(sh.width, sh.signed)
            c = path.var(f"curr{j}", lo, hi)
            nx = path.var(f"next{j}", lo, hi)
            sl.curr, sl.next, sl.updates, sl.is_comb = c, nx, [], False
            curr[sl.signal], prev[sl.signal] = c, nx
        value = path.var("value", -(1 << (n + 1)), (1 << (n + 1)) - 1)
        eval_assign(state, lhs, value)
        new = Env(prev)
        from spec.sem import _assign
        _assign(lhs, value + (1 if wrong else 0), curr, new)
        for j, sl in enumerate(state.slots):
            path.prove(f"{name}::{sl.signal.name}#{j}", to_sint(sl.next) == to_sint(new[sl.signal]))
    x = Exploration(name, body).run()
    return runner.from_exploration(name, x)


def check_row(t):
    """Direct row access: reading `mem.data[i]` returns the stored row; writing through a row (and a
    slice of a row) goes to the same storage with exactly the addressed bits."""
    from amaranth.hdl import Shape
    from amaranth.hdl._mem import MemoryData
    from amaranth.sim._pyeval import eval_value, eval_assign
    _, w, s, depth = t
    name = T.tid(t)
    data = MemoryData(shape=Shape(w, s), depth=depth, init=[])
    state = capture.StageState()
    mi = state.get_memory(data)
    ms = state.slots[mi]
    parts = []
    for idx in range(depth):
        row = data[idx]
        for (a, b) in {(0, w), (0, max(w - 1, 0)), (min(1, w), w)}:
            def body(path, idx=idx, a=a, b=b, row=row):
                lo, hi = shape_range(w, s)
                rows = [path.var(f"row{i}", lo, hi) for i in range(depth)]
                ms.data = list(rows)
                ms.writes = []
                got = to_sint(eval_value(state, row))
                path.prove(f"{name}::read[{idx}]", got == rows[idx])
                value = path.var("value", -(1 << (w + 1)), (1 << (w + 1)) - 1)
                eval_assign(state, row[a:b], value)
                after = ms.committed()
                for i in range(depth):
                    if i == idx:
                        cur = rows[i] & mask(w)
                        upd = (cur & ~(mask(b - a) << a)) | ((value & mask(b - a)) << a)
                        want = norm(upd, w, s)
                    else:
                        want = rows[i]
                    path.prove(f"{name}::write[{idx}][{a}:{b}]::row{i}", to_sint(after[i]) == to_sint(want))
            parts.append(runner.from_exploration(name, Exploration(f"{name}[{idx}][{a}:{b}]", body).run()))
    return runner.merge_results(name, parts)


def check_conflict():
    """eval_assign raises DriverConflict exactly for comb-driven targets (closed obligations)."""
    from amaranth.hdl import Signal
    from amaranth.hdl._ir import DriverConflict
    from amaranth.sim._pyeval import eval_assign
    obs = []
    for is_comb in (False, True):
        for form in ("sig", "slice", "part"):
            s = Signal(4, name="s")
            o = Signal(2, name="o")
            state = capture.StageState()
            sl = state.slot(s)
            state.slot(o).curr = 1
            sl.is_comb = is_comb
            sl.curr = sl.next = 5
            lhs = {"sig": s, "slice": s[1:3], "part": s.bit_select(o, 2)}[form]
            raised = False
            try:
                eval_assign(state, lhs, 3)
            except DriverConflict:
                raised = True
            ok = raised == is_comb and (is_comb and sl.next == 5 or not is_comb)
            obs.append({"name": f"conflict::{form}::comb={is_comb}", "kind": "post",
                        "status": "proved" if ok else "refuted", "backend": "closed", "time_s": 0.0,
                        **({} if ok else {"failing_input": {"form": form, "is_comb": is_comb, "raised": raised,
                                                            "how": "eval_assign on a real Signal with slot.is_comb set"}})})
    return {"task": "conflict", "paths": 0, "solver_s": 0.0, "obligations": obs}


def check_castable_roundtrip():
    """Values of shape-castable objects round-trip through const / from_bits in a testbench: ctx.set(sig, obj) followed by
    ctx.get(sig) returns obj, for EVERY value of each listed shape-castable (exhaustive over the finite shape: complete per
    shape), on the real Simulator: signed and unsigned shaped enumerations, flags, a signed custom ShapeCastable of widths
    1..5, struct and array layouts with signed fields."""
    import enum as py_enum
    from amaranth.hdl import Signal, Module, Shape, ShapeCastable, Const, signed, unsigned
    from amaranth.lib import enum as aenum, data
    from amaranth.sim import Simulator

    class SEnum(aenum.Enum, shape=signed(3)):
        M4, M1, Z, P3 = -4, -1, 0, 3

    class UEnum(aenum.Enum, shape=unsigned(2)):
        A, B, C = 0, 1, 3

    class Fl(aenum.Flag, shape=3):
        X, Y, Z = 1, 2, 4

    class Tagged(ShapeCastable):
        """a signed quantity carried as ('q', integer): const/from_bits are mutually inverse on the shape's values"""
        def __init__(self, width):
            self.width = width

        def as_shape(self):
            return signed(self.width)

        def const(self, init):
            return Const(0 if init is None else init[1], signed(self.width))

        def from_bits(self, raw):
            return ("q", raw)

        def __call__(self, value):
            return TaggedValue(self, value)

        def format(self, value, spec):
            from amaranth.hdl import Format
            return Format("{}", value.as_value())

    from amaranth.hdl import ValueCastable

    class TaggedValue(ValueCastable):
        def __init__(self, shape, target):
            self._shape, self._target = shape, target

        def shape(self):
            return self._shape

        def as_value(self):
            return self._target
    St = data.StructLayout({"a": signed(2), "b": unsigned(1), "e": SEnum})
    Ar = data.ArrayLayout(signed(2), 2)
    cases = []
    cases.append(("signed shaped enum", SEnum, list(SEnum)))
    cases.append(("unsigned shaped enum", UEnum, list(UEnum)))
    cases.append(("flag", Fl, [Fl(v) for v in range(8)]))
    for w in range(1, 6):
        cases.append((f"signed custom shape-castable, width {w}", Tagged(w), [("q", v) for v in range(-(1 << (w - 1)), 1 << (w - 1))]))
    cases.append(("struct layout", St, [{"a": a, "b": b, "e": e} for a in range(-2, 2) for b in (0, 1) for e in SEnum]))
    cases.append(("array layout", Ar, [[a, b] for a in range(-2, 2) for b in range(-2, 2)]))
    obs = []
    n = 0
    for label, shape, values in cases:
        sig = Signal(shape, name="s")
        m = Module()
        dummy = Signal()
        m.d.comb += dummy.eq(0)
        bad = []

        async def tb(ctx, sig=sig, values=values, shape=shape, bad=bad):
            for v in values:
                ctx.set(sig, v)
                got = ctx.get(sig)
                if isinstance(shape, data.Layout):
                    want = shape.const(v)
                    ok = got.as_bits() == want.as_bits() if hasattr(got, "as_bits") else False
                else:
                    ok = got == v
                if not ok and not bad:
                    bad.append({"shape-castable": label, "written": repr(v), "read back": repr(got),
                                "how": "Simulator testbench: ctx.set(Signal(shape), value); ctx.get(signal)"})
        sim = Simulator(m)
        sim.add_testbench(tb)
        try:
            sim.run()
        except Exception as e:
            if not bad:
                bad.append({"shape-castable": label, "raised": repr(e)[:300],
                            "how": "Simulator testbench: ctx.set(Signal(shape), value); ctx.get(signal) for every value of the shape"})
        n += len(values)
        obs.append({"name": f"castable-roundtrip::{label}", "kind": "post", "status": "proved" if not bad else "refuted", "backend": "closed",
                    "time_s": 0.0, **({} if not bad else {"failing_input": bad[0]})})
    return {"task": "castable-roundtrip", "paths": n, "solver_s": 0.0, "obligations": obs}


def run_one(t):
    if t[0] == "value":
        return check_value(t[1])
    if t[0] == "assign":
        return check_assign(t)
    if t[0] == "row":
        return check_row(t)
    raise KeyError(t[0])


def run_task(task):
    kind = task[0]
    if kind == "chunk":
        parts = [runner.guarded(T.tid(t), run_one, t) for t in task[1]]
        return runner.merge_results(f"chunk[{T.tid(task[1][0])}..]", parts)
    if kind == "conflict":
        return check_conflict()
    if kind == "castable-roundtrip":
        return check_castable_roundtrip()
    if kind == "canary-value":
        return check_value(("binop", "-", (2, True), (3, False)), wrong=True)
    if kind == "canary-assign":
        return check_assign(("assign", 3, 0, c02.lhs_catalogue(3)[0][0]), wrong=True) \
            if len(c02.lhs_catalogue(3)[0][1][0]) and c02.lhs_catalogue(3)[0][1][0][0] > 0 else \
            check_assign(("assign", 3, [i for i, c in enumerate(c02.lhs_catalogue(3)) if c[0].startswith("sig(3")][0],
                          [c[0] for c in c02.lhs_catalogue(3) if c[0].startswith("sig(3")][0]), wrong=True)
    raise KeyError(kind)


# ------------------------------------------------------------------------------------------------
# replay on the real simulator through the public testbench API

def _unit_of(obname):
    return eval(obname.split("::")[0], {"__builtins__": {}}, {"None": None, "True": True, "False": False})


def replay_unit(t, model):
    from amaranth.hdl import Signal, Shape, Value, Module
    from amaranth.sim import Simulator
    if t[0] == "value":
        tt = t[1]
        shapes, make_expr, direct = T.build(tt)
        sigs = c01._signals(shapes)
        expr = Value.cast(make_expr(*sigs))
        vals = [model.get(f"v{k}", 0) for k in range(len(sigs))]
        m = Module()
        keep = Signal(name="keep")
        m.d.comb += keep.eq(Value.cast(sum((s for s in sigs), start=Value.cast(0))).any())
        res = {}

        async def tb(ctx):
            for s, v in zip(sigs, vals):
                ctx.set(s, v)
            try:
                res["got"] = ctx.get(expr)
            except Exception as e:
                res["exc"] = repr(e)
        sim = Simulator(m)
        sim.add_testbench(tb)
        sim.run()
        want = int(direct(*vals) if direct is not None else sem(expr, Env(zip(sigs, vals))))
        if "exc" in res or res["got"] != want:
            return {"unit": T.tid(t), "expr": repr(expr), "inputs": vals, "observed": res.get("got", res.get("exc")),
                    "expected": want, "how": "real Simulator testbench: ctx.set(inputs); ctx.get(expr)"}
        return None
    if t[0] == "assign":
        _, W, k, cname = t
        _n, tshs, ashs, fn = c02.lhs_catalogue(W)[k]
        targets = [Signal(Shape(w, s), name=f"t{i}") for i, (w, s) in enumerate(tshs)]
        aux = [Signal(Shape(w, s), name=f"aux{i}") for i, (w, s) in enumerate(ashs)]
        lhs = Value.cast(fn(*targets, *aux))
        allsig = targets + aux
        # model indices follow slot order = targets then aux
        vals = [model.get(f"next{j}", 0) for j in range(len(allsig))]
        for j in range(len(targets), len(allsig)):
            vals[j] = model.get(f"curr{j}", 0)
        value = model.get("value", 0)
        m = Module()
        keep = Signal(name="keep")
        m.d.comb += keep.eq(Value.cast(sum((s for s in allsig), start=Value.cast(0))).any())
        res = {}

        async def tb(ctx):
            for s, v in zip(allsig, vals):
                ctx.set(s, v)
            ctx.set(lhs, value)
            res["got"] = [ctx.get(s) for s in allsig]
        sim = Simulator(m)
        sim.add_testbench(tb)
        sim.run()
        env = Env(zip(allsig, vals))
        new = assign(lhs, value, env)
        want = [int(new[s]) for s in allsig]
        if res["got"] != want:
            return {"unit": T.tid(t), "target": repr(lhs), "signals_before": vals, "written": value,
                    "observed_after": res["got"], "expected_after": want,
                    "how": "real Simulator testbench: ctx.set(signals); ctx.set(target, value); ctx.get(signals)"}
        return None
    return None


def find_failing_input(res, ob):
    if ob.get("model") is None:
        return None
    try:
        t = _unit_of(ob["name"])
    except Exception:
        return None
    return replay_unit(t, ob["model"])


def replay(data):
    t = _unit_of(data["obligation"])
    if data["obligation"].endswith("::no-exception"):
        r = runner.guarded(T.tid(t), run_one, t)
        return any(o["status"] == "refuted" for o in r["obligations"])
    if data.get("model"):
        return replay_unit(t, data["model"]) is not None
    r = runner.guarded(T.tid(t), run_one, t)
    return any(o["status"] == "refuted" for o in r["obligations"])
