"""C08, engine level: the REAL simulator engine (PySimEngine: delta-cycle loop, triggers, coroutine scheduler, testbench
context) is run natively on SYMBOLIC signal values -- register contents and testbench stimuli are proxy integers, every
comparison the engine makes (`curr == next` in commit, edge detection in triggers) forks the exploration -- so the
clauses below hold for ALL values, for the enumerated designs / testbenches:

 set-settles       `ctx.set()` in a testbench returns only after every consequence has settled: a `ctx.get()` right after
                   it sees the value of a combinational chain that crosses three fragments and a register
 tick-sample       `await ctx.tick().sample(x)` returns the value x had just before the edge; after it, every register of
                   a shift chain spread over three fragments holds its predecessor's OLD value (no race)
 order[perm]       the same runs with the engine's process set iterated in every order: identical results
 process=circuit   a combinational / clocked `add_process` coroutine and the circuit it replaces give the same observable
                   values
 kernel-agrees     the composition model of harness/kernel.py (which C03, C11, C12, C13, C17, C18 rely on) gives, from the
                   same arbitrary state and inputs, the same value on every signal and memory row as the real engine
                   after a clock event -- so that model is checked, not trusted, for the listed designs
"""
import itertools
import types

from pyvc.explore import Exploration
from pyvc.sym import to_sint, And, is_sym, ite
from pyvc import runner
from pyvc.shims import shimmed
from spec.sem import mask, shape_range


class _CM(type):
    def __instancecheck__(cls, obj):
        return isinstance(obj, cls.real)

    def __call__(cls, *a, **k):
        return cls.real(*a, **k)


def _const_shim(real):
    class ConstShim(metaclass=_CM):
        pass
    ConstShim.real = real

    def cast(v):
        if is_sym(v):
            return types.SimpleNamespace(value=v)
        return real.cast(v)
    ConstShim.cast = staticmethod(cast)
    return ConstShim


class symbolic_engine:
    """with symbolic_engine(): the simulator modules accept proxy integers (module-global shims; nothing is edited)"""
    def __enter__(self):
        import amaranth.sim._pyeval as PE
        import amaranth.sim.pysim as PS
        import amaranth.sim._pyrtl as PR
        import amaranth.sim._async as PA
        self.PA = PA
        self.real_const = PA.Const
        PA.Const = _const_shim(PA.Const)
        self.sh = shimmed(PE, PS, PR)
        self.sh.__enter__()
        return self

    def __exit__(self, *exc):
        self.sh.__exit__(*exc)
        self.PA.Const = self.real_const
        return False


def _engine_mem_proxy(real):
    """the engine's memory state replaced by its contract (harness.capture.MemSlot; the real class is verified against
    that contract in the _PyMemoryState obligations of C08 and the storage tasks of C11): same interface towards
    the engine -- read, write (joins the pending set), commit (wakers, returns changed), reset"""
    from harness import capture
    from pyvc.sym import Or

    class EngineMem(capture.MemSlot):
        def __init__(self, real):
            super().__init__(real.memory, 0)
            self.pending = real.pending
            self.wakers = real.wakers

        def write(self, addr, value, mask=None):
            super().write(addr, value, mask)
            self.pending.add(self)

        def commit(self):
            from amaranth.sim.pysim import _run_wakers
            _run_wakers(self.wakers)
            new = self.committed()
            changed = Or(*[to_sint(a) != to_sint(b) for a, b in zip(new, self.data)]) if self.data else False
            self.data = new
            self.writes = []
            return changed

        def reset(self):
            self.data = list(self.memory._init._raw)
            self.writes = []
    return EngineMem(real)


class OrderedProcs(list):
    """stands in for the engine's process set with a chosen iteration order"""
    add = list.append


def set_slot(sim, signal, value):
    st = sim._engine._state
    sl = st.slots[st.get_signal(signal)]
    sl.curr = sl.next = value


def reorder(sim, perm):
    procs = list(sim._engine._processes)
    procs.sort(key=lambda p: repr(type(p)) + str(getattr(p, "name", "")))
    n = len(procs)
    order = [procs[perm[i] % n] for i in range(n)] if len(set(perm)) >= n else list(itertools.islice(itertools.cycle(procs), perm[0] % n, perm[0] % n + n))
    sim._engine._processes = OrderedProcs(order)


# ------------------------------------------------------------------------------------------------

def _chain_design(edge="pos"):
    from amaranth.hdl import Module, Signal, ClockDomain
    a, b, out = Signal(3, name="a"), Signal(4, name="b"), Signal(5, name="out")
    r1, r2, r3 = Signal(3, name="r1"), Signal(3, name="r2"), Signal(3, name="r3")
    top, A, B, C = Module(), Module(), Module(), Module()
    top.domains.sync = ClockDomain(clk_edge=edge)
    A.d.comb += b.eq(a + 1)
    B.d.comb += out.eq(b * 2 + r3)
    A.d.sync += r1.eq(a)
    B.d.sync += r2.eq(r1)
    C.d.sync += r3.eq(r2)
    top.submodules.a, top.submodules.b, top.submodules.c = A, B, C
    return top, (a, b, out, r1, r2, r3)


def check_chain(edge, rotation):
    from amaranth.sim import Simulator
    name = f"engine[chain,{edge},order{rotation}]"

    def body(path):
        top, (a, b, out, r1, r2, r3) = _chain_design(edge)
        sim = Simulator(top)
        sim.add_clock(1e-6)
        regs = {s.name: path.var(f"{s.name}0", 0, 7) for s in (r1, r2, r3)}
        for s in (r1, r2, r3):
            set_slot(sim, s, regs[s.name])
        r1v, r2v, r3v = regs["r1"], regs["r2"], regs["r3"]
        v1, v2 = path.var("v1", 0, 7), path.var("v2", 0, 7)
        res = {}

        async def tb(ctx):
            ctx.set(a, v1)
            res["out-after-set"] = ctx.get(out)
            ctx.set(a, v2)
            res["out-after-second-set"] = ctx.get(out)
            res["sample"] = await ctx.tick().sample(r1, r2, r3, out)
            res["after"] = (ctx.get(r1), ctx.get(r2), ctx.get(r3), ctx.get(out))
        sim.add_testbench(tb)
        reorder(sim, (rotation,))
        with symbolic_engine():
            sim.run_until(2.2e-6)
        o = lambda x: (x + 1) * 2
        path.prove(f"{name}::set-settles", And(to_sint(res["out-after-set"]) == o(v1) + r3v,
                                               to_sint(res["out-after-second-set"]) == o(v2) + r3v))
        smp = res["sample"][-4:]
        path.prove(f"{name}::tick-sample-is-pre-edge", And(to_sint(smp[0]) == r1v, to_sint(smp[1]) == r2v,
                                                           to_sint(smp[2]) == r3v, to_sint(smp[3]) == o(v2) + r3v))
        aft = res["after"]
        path.prove(f"{name}::registers-take-old-predecessors", And(to_sint(aft[0]) == v2, to_sint(aft[1]) == r1v,
                                                                  to_sint(aft[2]) == r2v, to_sint(aft[3]) == o(v2) + r2v))
    return runner.from_exploration(name, Exploration(name, body).run())


def check_process_equals_circuit(kind):
    """an add_process coroutine vs. the circuit it replaces"""
    from amaranth.hdl import Module, Signal
    from amaranth.sim import Simulator
    name = f"engine[process=circuit,{kind}]"

    def run(path, as_process, va, vb, r0):
        a, b, o, r = Signal(3, name="a"), Signal(3, name="b"), Signal(4, name="o"), Signal(4, name="r")
        m = Module()
        dummy = Signal(name="dummy")
        m.d.sync += dummy.eq(~dummy)
        if not as_process:
            if kind == "comb":
                m.d.comb += o.eq(a + b)
            else:
                m.d.sync += r.eq(r + a)
        sim = Simulator(m)
        sim.add_clock(1e-6)
        if as_process:
            if kind == "comb":
                async def proc(ctx):
                    async for av, bv in ctx.changed(a, b):
                        ctx.set(o, av + bv)
            else:
                async def proc(ctx):
                    async for _clk, _rst, av, rv in ctx.tick().sample(a, r):
                        ctx.set(r, rv + av)
            sim.add_process(proc)
        set_slot(sim, r, r0)
        res = {}

        async def tb(ctx):
            ctx.set(a, va)
            ctx.set(b, vb)
            res["o"] = ctx.get(o)
            await ctx.tick()
            res["r"] = ctx.get(r)
            await ctx.tick()
            res["r2"] = ctx.get(r)
        sim.add_testbench(tb)
        with symbolic_engine():
            sim.run_until(3.2e-6)
        return res

    def body(path):
        va, vb, r0 = path.var("va", 0, 7), path.var("vb", 0, 7), path.var("r0", 0, 15)
        x = run(path, False, va, vb, r0)
        y = run(path, True, va, vb, r0)
        if kind == "comb":
            path.prove(f"{name}::same-output", And(to_sint(x["o"]) == to_sint(y["o"]), to_sint(x["o"]) == va + vb))
        else:
            path.prove(f"{name}::same-register", And(to_sint(x["r"]) == to_sint(y["r"]), to_sint(x["r2"]) == to_sint(y["r2"]),
                                                     to_sint(x["r"]) == ((r0 + va) & 15), to_sint(x["r2"]) == ((r0 + 2 * va) & 15)))
    return runner.from_exploration(name, Exploration(name, body).run())


def check_process_after_reset():
    """a process replacing a combinational circuit, over run / Simulator.reset() / run: in EVERY run the process sees the
    initial values at time 0 (its output equals the circuit's before anything changes) and follows every change; signals with
    non-zero initial values, so that the time-0 evaluation matters"""
    from amaranth.hdl import Module, Signal
    from amaranth.sim import Simulator
    name = "engine[process=circuit,after-reset]"

    def run(path, as_process, va):
        a, b, o = Signal(3, name="a", init=3), Signal(3, name="b", init=4), Signal(4, name="o")
        m = Module()
        dummy = Signal(name="dummy")
        m.d.sync += dummy.eq(~dummy)
        if not as_process:
            m.d.comb += o.eq(a + b)
        sim = Simulator(m)
        sim.add_clock(1e-6)
        if as_process:
            async def proc(ctx):
                async for av, bv in ctx.changed(a, b):
                    ctx.set(o, av + bv)
            sim.add_process(proc)
        runs = []

        async def tb(ctx):
            res = {}
            runs.append(res)
            await ctx.delay(1e-7)
            res["o-before-any-change"] = ctx.get(o)
            ctx.set(a, va)
            res["o-after-change"] = ctx.get(o)
            await ctx.tick()
            res["o-later"] = ctx.get(o)
        sim.add_testbench(tb)
        with symbolic_engine():
            sim.run_until(2.2e-6)
            sim.reset()
            sim.run_until(2.2e-6)
            sim.reset()
            sim.run_until(2.2e-6)
        return runs

    def body(path):
        va = path.var("va", 0, 7)
        x = run(path, False, va)
        y = run(path, True, va)
        path.prove(f"{name}::three-runs", len(x) == 3 and len(y) == 3)
        for k in range(min(len(x), len(y))):
            path.prove(f"{name}::run{k}::output-at-time-0", And(to_sint(y[k]["o-before-any-change"]) == 7, to_sint(x[k]["o-before-any-change"]) == 7))
            path.prove(f"{name}::run{k}::output-follows-change", And(to_sint(y[k]["o-after-change"]) == va + 4, to_sint(x[k]["o-after-change"]) == va + 4,
                                                                      to_sint(y[k]["o-later"]) == va + 4))
    return runner.from_exploration(name, Exploration(name, body).run())


def check_lhs_selector_settles(form):
    """a combinational assignment whose TARGET has a run-time selector (array index, bit_select / word_select offset): when the
    selector alone changes, ctx.set() returns with the outputs recomputed for the new selector (the selector is an input of
    the process although it only occurs on the left-hand side)"""
    from amaranth.hdl import Module, Signal, Array
    from amaranth.sim import Simulator
    name = f"engine[lhs-selector,{form}]"

    def body(path):
        idx, d = Signal(2, name="idx"), Signal(2, name="d")
        o0, o1, o2 = Signal(2, name="o0"), Signal(2, name="o1"), Signal(2, name="o2")
        wide = Signal(6, name="wide")
        m = Module()
        dummy = Signal(name="dummy")
        m.d.sync += dummy.eq(~dummy)
        if form == "array":
            m.d.comb += Array([o0, o1, o2])[idx].eq(d)
        elif form == "bit_select":
            m.d.comb += wide.bit_select(idx, 2).eq(d)
        else:
            m.d.comb += wide.word_select(idx, 2).eq(d)
        sim = Simulator(m)
        sim.add_clock(1e-6)
        top_i = 2 if form == "array" else 3             # (what an out-of-range array index selects is C02's clause, not this one's)
        dv, i1, i2 = path.var("d", 0, 3), path.var("i1", 0, top_i), path.var("i2", 0, top_i)
        res = []

        async def tb(ctx):
            ctx.set(d, dv)
            for iv in (i1, i2):
                ctx.set(idx, iv)                 # only the selector changes
                res.append((ctx.get(o0), ctx.get(o1), ctx.get(o2), ctx.get(wide)))
        sim.add_testbench(tb)
        with symbolic_engine():
            sim.run_until(1.2e-6)
        for k, iv in enumerate((i1, i2)):
            g0, g1, g2, gw = res[k]
            if form == "array":
                sel = iv
                path.prove(f"{name}::after-set{k}", And(to_sint(g0) == ite(sel == 0, dv, 0), to_sint(g1) == ite(sel == 1, dv, 0),
                                                        to_sint(g2) == ite(sel == 2, dv, 0)))
            elif form == "bit_select":
                path.prove(f"{name}::after-set{k}", to_sint(gw) == ((dv << iv) & 63))
            else:
                path.prove(f"{name}::after-set{k}", to_sint(gw) == ((dv << (2 * iv)) & 63))
    return runner.from_exploration(name, Exploration(name, body).run())


def check_castable_set_settles():
    """ctx.set() on a target whose shape is a shape-castable (a struct-shaped signal, an enumeration-shaped signal, a view's
    nested field) returns only after the combinational consequences have settled, exactly as for plain signals: the next
    ctx.get() of dependent logic sees the new value.  Closed: every value of the listed shapes, real engine."""
    from amaranth.hdl import Module, Signal
    from amaranth.lib import data, enum as aenum
    from amaranth.sim import Simulator

    class Op(aenum.Enum, shape=2):
        A = 0
        B = 1
        C = 3
    L = data.StructLayout({"a": 2, "b": data.StructLayout({"x": 1, "y": 1})})
    s = Signal(L, name="s")
    e = Signal(Op, name="e")
    o_sum, o_e, reg = Signal(3, name="o_sum"), Signal(3, name="o_e"), Signal(3, name="reg")
    m = Module()
    m.d.comb += [o_sum.eq(s.a + s.b.x + s.b.y), o_e.eq(e.as_value() + 1)]
    m.d.sync += reg.eq(o_sum)
    sim = Simulator(m)
    sim.add_clock(1e-6)
    bad = []

    async def tb(ctx):
        for a in range(4):
            for x in range(2):
                for y in range(2):
                    ctx.set(s, {"a": a, "b": {"x": x, "y": y}})
                    if ctx.get(o_sum) != a + x + y and not bad:
                        bad.append({"written": f"ctx.set(s, {{'a': {a}, 'b': {{'x': {x}, 'y': {y}}}}})", "ctx.get(o_sum) right after": ctx.get(o_sum), "expected": a + x + y})
                    ctx.set(s.b, {"x": 1 - x, "y": y})
                    if ctx.get(o_sum) != a + (1 - x) + y and not bad:
                        bad.append({"written": f"ctx.set(s.b, {{'x': {1 - x}, 'y': {y}}})", "ctx.get(o_sum) right after": ctx.get(o_sum), "expected": a + 1 - x + y})
                    await ctx.tick()
                    if ctx.get(reg) != a + (1 - x) + y and not bad:
                        bad.append({"what": "the register captured a value derived from the old input", "reg": ctx.get(reg), "expected": a + 1 - x + y})
        for member in Op:
            ctx.set(e, member)
            if ctx.get(o_e) != member.value + 1 and not bad:
                bad.append({"written": f"ctx.set(e, {member!r})", "ctx.get(o_e) right after": ctx.get(o_e), "expected": member.value + 1})
    sim.add_testbench(tb)
    try:
        sim.run()
    except Exception as ex:
        if not bad:
            bad.append({"raised": repr(ex)[:300]})
    name = "engine[set-settles,shape-castable]"
    return {"task": name, "paths": 19, "solver_s": 0.0, "obligations": [
        {"name": f"{name}::consequences-settled-when-set-returns", "kind": "post", "status": "proved" if not bad else "refuted", "backend": "closed",
         "time_s": 0.0, **({} if not bad else {"failing_input": {**bad[0], "how": "real Simulator testbench: ctx.set on a struct- / enum-shaped signal, then ctx.get of logic that depends on it"}})}]}


def check_clock_phase_zero():
    """add_clock(period, phase=0): the first active edge is AT time 0 but after the testbenches have run up to their first
    wait -- a value a testbench writes before its first `await ctx.tick()` is what the registers capture at that edge, the
    tick returns at elapsed time 0, and the second edge comes one period later.  (With the default phase the same holds at
    period/2.)"""
    from amaranth.hdl import Module, Signal, Period
    from amaranth.sim import Simulator
    name = "engine[clock-phase-zero]"

    def body(path):
        parts = {}
        for label, kw, t_first in (("phase=0", {"phase": Period()}, 0), ("default-phase", {}, 500_000_000)):
            d, r, cnt = Signal(3, name="d"), Signal(3, name="r"), Signal(3, name="cnt")
            m = Module()
            m.d.sync += [r.eq(d), cnt.eq(cnt + 1)]
            sim = Simulator(m)
            sim.add_clock(Period(us=1), **kw)
            v = path.var(f"v_{label}", 0, 7)
            res = {}

            async def tb(ctx, d=d, r=r, cnt=cnt, v=v, res=res):
                ctx.set(d, v)
                await ctx.tick()
                res["t1"] = ctx.elapsed_time().femtoseconds
                res["r1"], res["c1"] = ctx.get(r), ctx.get(cnt)
                await ctx.tick()
                res["t2"] = ctx.elapsed_time().femtoseconds
                res["c2"] = ctx.get(cnt)
            sim.add_testbench(tb)
            with symbolic_engine():
                sim.run_until(Period(us=3))
            path.prove(f"{name}::{label}::first-edge-time", res.get("t1") == t_first)
            path.prove(f"{name}::{label}::first-edge-samples-the-value-written-before-it", And(to_sint(res["r1"]) == v, to_sint(res["c1"]) == 1))
            path.prove(f"{name}::{label}::second-edge-one-period-later", And(res.get("t2") == t_first + 1_000_000_000, to_sint(res["c2"]) == 2))
    return runner.from_exploration(name, Exploration(name, body).run())


def check_testbench_order():
    """testbenches run in the order in which they were added, also when an earlier one wakes a later one in the middle of
    a pass: `monitor` (added second, waiting for `valid`) sees the data `driver` (added first) wrote, not what `other`
    (added third, ready in the same time step) writes -- for ALL data values"""
    from amaranth.hdl import Module, Signal
    from amaranth.sim import Simulator
    name = "engine[testbench-order]"

    def body(path):
        valid, data, tickc = Signal(name="valid"), Signal(8, name="data"), Signal(name="t")
        m = Module()
        m.d.sync += tickc.eq(~tickc)
        sim = Simulator(m)
        sim.add_clock(1e-6)
        d1, d2 = path.var("d1", 0, 255), path.var("d2", 0, 255)
        res = {"order": []}

        async def driver(ctx):
            await ctx.tick()
            res["order"].append("driver")
            ctx.set(data, d1)
            ctx.set(valid, 1)

        async def monitor(ctx):
            await ctx.changed(valid)
            res["order"].append("monitor")
            res["seen"] = ctx.get(data)

        async def other(ctx):
            await ctx.tick()
            res["order"].append("other")
            ctx.set(data, d2)
        sim.add_testbench(driver)
        sim.add_testbench(monitor)
        sim.add_testbench(other)
        with symbolic_engine():
            sim.run_until(1.2e-6)
        path.prove(f"{name}::run-in-added-order", res["order"] == ["driver", "monitor", "other"])
        path.prove(f"{name}::monitor-sees-drivers-data", to_sint(res.get("seen", -1)) == d1)
    return runner.from_exploration(name, Exploration(name, body).run())


# ------------------------------------------------------------------------------------------------
# kernel model vs. real engine

def _kernel_designs():
    from checks import c04_designs as D
    from amaranth.lib import fifo
    return [
        ("counter", D._counter, None), ("fsm", D._fsm, None), ("inserters", D._inserters, None),
        ("FFSynchronizer", D._ffsync, None), ("PulseSynchronizer", D._pulse, [("a",), ("b",), ("a", "b")]),
        ("crc.Processor", D._crc, None), ("Memory", D._memory, None),
        ("SyncFIFO", lambda: fifo.SyncFIFO(width=2, depth=3), None),
        ("SyncFIFOBuffered", lambda: fifo.SyncFIFOBuffered(width=2, depth=3), None),
        ("AsyncFFSynchronizer", _asyncff, None),
        ("AsyncFIFO", lambda: fifo.AsyncFIFO(width=1, depth=2), [("write",), ("read",), ("write", "read")]),
    ]


def _asyncff():
    from amaranth.hdl import Module, Signal
    from amaranth.lib import cdc
    m = Module()
    i, o = Signal(name="i"), Signal(name="o")
    m.submodules.s = cdc.AsyncFFSynchronizer(i, o, o_domain="sync", stages=2)
    return m


def kernel_tasks(tier="quick"):
    out = []
    for k, (_n, _b, events) in enumerate(_kernel_designs()):
        if _n == "AsyncFIFO" and tier == "quick":
            continue                      # the real engine forks on every changed signal: minutes per event, thorough tier only
        if events is None:
            out.append(("kernel-agrees", k, None))
        else:
            out += [("kernel-agrees", k, e) for e in range(len(events))]
    return out


def check_kernel_agrees(k, e=None, broken=False):
    from amaranth.sim import Simulator
    from harness.kernel import Design
    from harness import capture
    dname, build, events = _kernel_designs()[k]
    name = f"kernel-agrees[{dname}]"

    def body(path):
        elab = build()
        sim = Simulator(elab)
        design = sim._design
        d = Design(design)
        doms = dict(design.fragment.domains)
        evs = events if events is not None else [(dn,) for dn in doms]
        ev = evs[e] if e is not None else evs[0]
        eng = sim._engine
        st = eng._state
        # one symbolic value per signal / row, given to both
        d.fresh(path)
        trig = d._triggers()
        for cd in doms.values():
            d.set(cd.clk, 0)
            if cd.rst is not None and any(cd.rst is t for t in trig):
                d.set(cd.rst, 0)
        # kernel: settle first, so that both start from a CONSISTENT state (derived clocks / resets at the value their
        # drivers imply -- the engine would otherwise see an edge on them in its first step that no clock event caused)
        d.settle(path, f"{name}::pre")
        if dname == "AsyncFIFO":
            # from the states of the C13 invariant (reachable-state over-approximation): keeps the number of feasible
            # engine paths manageable; the kernel model is still compared on every such state
            from checks import c13
            path.assume(c13.Model("AsyncFIFO", elab, d).inv())
        for sl in d.sig_slots:
            es = st.slots[st.get_signal(sl.signal)]
            es.curr = es.next = sl.curr
        emems = []
        for ms in d.mem_slots:
            idx = st.get_memory(ms.memory)
            st.slots[idx] = _engine_mem_proxy(st.slots[idx])
            st.slots[idx].data = list(ms.data)
            emems.append(st.slots[idx])
        clk_sigs = [doms[dn].clk for dn in ev]
        res = {}

        async def tb(ctx):
            # the engine settles on its first step; then read everything, fire the clocks, read everything again
            res["now"] = [ctx.get(sl.signal) for sl in d.sig_slots if len(sl.signal)]
            for c in clk_sigs:
                pass
            await ctx.delay(1e-9)
        sim.add_testbench(tb)

        async def tb2(ctx):
            await ctx.delay(2e-9)
            for c in clk_sigs[:-1]:
                eng.set_value(c, 1)          # queued together with the last one: a simultaneous event
            ctx.set(clk_sigs[-1], 1)
            res["after"] = [ctx.get(sl.signal) for sl in d.sig_slots if len(sl.signal)]
            res["rows"] = [[em.data[r] for r in range(ms.depth)] for em, ms in zip(emems, d.mem_slots)]
        sim.add_testbench(tb2)
        with symbolic_engine():
            sim.run()
        sigs = [sl for sl in d.sig_slots if len(sl.signal)]
        bad = 1 if broken else 0
        path.prove(f"{name}::{'+'.join(ev)}::settled-state-agrees",
                   And(*[to_sint(v) == (to_sint(sl.curr) ^ bad) for sl, v in zip(sigs, res["now"])]))
        d.edge([(c, 1) for c in clk_sigs], path, f"{name}::{'+'.join(ev)}::post")
        for sl, v in zip(sigs, res["after"]):
            path.prove(f"{name}::{'+'.join(ev)}::after-event::{sl.signal.name}", to_sint(v) == to_sint(sl.curr))
        for ms, rows in zip(d.mem_slots, res["rows"]):
            for r in range(ms.depth):
                path.prove(f"{name}::{'+'.join(ev)}::after-event::row[{r}]", to_sint(rows[r]) == to_sint(ms.data[r]))
    x = Exploration(name, body).run()
    return runner.from_exploration(name, x)


def tasks(tier):
    ts = [("engine-chain", edge, rot) for edge in ("pos", "neg") for rot in ((0, 1, 2, 3) if tier == "quick" else range(6))]
    ts += [("engine-proc", "comb"), ("engine-proc", "sync"), ("engine-proc", "after-reset"), ("engine-tb-order",)]
    ts += [("engine-lhs-selector", f) for f in ("array", "bit_select", "word_select")] + [("engine-castable-set",), ("engine-clock-phase-zero",)]
    ts += kernel_tasks(tier)
    return ts


def run_task(task):
    k = task[0]
    if k == "engine-chain":
        return check_chain(task[1], task[2])
    if k == "engine-clock-phase-zero":
        return check_clock_phase_zero()
    if k == "engine-castable-set":
        return check_castable_set_settles()
    if k == "engine-lhs-selector":
        return check_lhs_selector_settles(task[1])
    if k == "engine-proc" and task[1] == "after-reset":
        return check_process_after_reset()
    if k == "engine-proc":
        return check_process_equals_circuit(task[1])
    if k == "engine-tb-order":
        return check_testbench_order()
    if k == "kernel-agrees":
        return check_kernel_agrees(task[1], task[2])
    if k == "canary-kernel-agrees":
        return check_kernel_agrees(0, None, broken=True)
    raise KeyError(k)
