"""C18 -- I/O buffers apply direction, inversion and registering exactly per bit.

 algebra   port algebra contracts (`__getitem__`, `__add__`, `__invert__` of SingleEndedPort,
           DifferentialPort, SimulationPort): the result's length, per-bit inversion tuple, direction and
           underlying bits equal those of the reference list-of-bits model; exhaustive over widths <= 3,
           every inversion mask, every index / slice / pair (a finite enumeration, complete for the bound).
 buffer    Buffer on a SimulationPort (also on port *expressions* built with slicing, + and ~): the
           generated combinational code gives, for ALL values: port.o == o ^ mask, every port.oe bit == oe,
           i == (looped-back o while enabled, else port.i) ^ mask, per bit of the composed port.
 ffbuffer  FFBuffer: the same with exactly one register stage in each direction (one-edge lemma from
           arbitrary state).
 real-port Buffer on SingleEndedPort / DifferentialPort over real IOPorts, at netlist level and at RTLIL level, for ALL o, oe
           and pad values: the pad is driven with o ^ mask under oe (negative pad: complement), i == (driven value while
           enabled, else pad) ^ mask.
 io-use    a port bit is used by at most one buffer: second use raises DriverConflict (closed obligations
           on the real build_netlist); legal disjoint uses are accepted.
"""
import itertools

from pyvc.explore import Exploration
from pyvc.sym import SInt, to_sint, And, Or, Not, Implies, ite
from pyvc import runner, source
from spec.sem import mask
from harness.kernel import Design

PROPERTY = "C18"

META = {
    "level": "proof",
    "trusted_base": [
        "pyvc symbolic integer encoding; z3 / cvc5",
        "kernel composition model (harness/kernel.py)",
        "reference list-of-bits model of a port in this file",
    ],
    "assumptions": [
        "widths <= 3 (quick) / 4 (thorough), all inversion masks, all legal direction pairs",
        "real ports: Buffer at the top level only, netlist and RTLIL evaluated under spec/nir_eval.py / spec/rtlil_eval.py with the pad's "
        "external value symbolic; FFBuffer / DDRBuffer on real ports need a platform and are not covered",
    ],
    "bounds": {"quick": {"W": 2}, "thorough": {"W": 3}},
    "explanation": "port algebra (exhaustive finite enumeration) + buffer process contracts",
}


def functions():
    f = "amaranth/lib/io.py"
    qs = ["Direction.__and__", "SingleEndedPort.__init__", "SingleEndedPort.__getitem__", "SingleEndedPort.__add__",
          "SingleEndedPort.__invert__", "DifferentialPort.__getitem__", "DifferentialPort.__add__",
          "DifferentialPort.__invert__", "SimulationPort.__init__", "SimulationPort.__getitem__",
          "SimulationPort.__add__", "SimulationPort.__invert__", "SimulationPort.__len__", "Buffer.__init__",
          "Buffer.elaborate", "FFBuffer.__init__", "FFBuffer.elaborate"]
    return [source.describe(f, q, arith="closed / adaptive bit-vector", bound="widths enumerated") for q in qs] + \
        [source.describe("amaranth/hdl/_ir.py", "NetlistEmitter.emit_io_use", arith="closed", bound="configurations enumerated"),
         source.describe("amaranth/hdl/_ir.py", "NetlistEmitter.emit_iobuffer", arith="netlist evaluated symbolically", bound="widths enumerated"),
         source.describe("amaranth/back/rtlil.py", "ModuleEmitter.emit_io_buffer", arith="RTLIL evaluated symbolically", bound="widths enumerated")]


def tasks(tier):
    W = META["bounds"][tier]["W"]
    ts = [("algebra", kind, W) for kind in ("single", "diff", "sim")]
    for w in range(0, W + 1):
        for inv in range(1 << w):
            for pdir, bdir in [("i", "i"), ("o", "o"), ("io", "i"), ("io", "o"), ("io", "io")]:
                ts.append(("buffer", w, inv, pdir, bdir, False))
                ts.append(("buffer", w, inv, pdir, bdir, True))
    ts += [("expr", k) for k in range(len(EXPRS))]
    ts += [("io-use",), ("domains",), ("ctor-directions",), ("nested-slices",)]
    for kind in ("single", "diff"):
        for w in range(1, W + 1):
            for inv in range(1 << w):
                for bdir in ("i", "o", "io"):
                    ts.append(("real-port", kind, w, inv, bdir))
        for wrap in ("enable", "reset", "rename", "enable-of-rename"):
            for bdir in ("i", "o", "io"):
                ts.append(("real-port", kind, 2, 0b01, bdir, False, wrap))
    return ts


def canaries(tier):
    return [("canary-buffer",), ("canary-real-port",)]


# ------------------------------------------------------------------------------------------------
# algebra

def _ref_ops(bits):
    """All derived ports of a reference port `bits` (list of (id, inv)): (description, apply-to-real, ref)"""
    n = len(bits)
    ops = [("~p", lambda p: ~p, [(b, not v) for b, v in bits])]
    for k in range(-n, n):
        ops.append((f"p[{k}]", (lambda k: lambda p: p[k])(k), [bits[k]]))
    rng = list(range(-n - 1, n + 2)) + [None]
    for a in rng:
        for b in rng:
            st, sp, _ = slice(a, b).indices(n)
            if st > sp:
                continue        # Amaranth rejects reversed (empty) slices everywhere, with IndexError
            ops.append((f"p[{a}:{b}]", (lambda a, b: lambda p: p[a:b])(a, b), bits[a:b]))
    ops.append(("p[::-1]", lambda p: p[::-1], bits[::-1]))
    ops.append(("p[::2]", lambda p: p[::2], bits[::2]))
    return ops


def check_algebra(kind, W):
    from amaranth.hdl import IOPort
    from amaranth.lib import io
    name = f"algebra[{kind}]"
    obs = []
    n_cases = 0

    def make(w, invmask, direction, tag):
        inv = tuple(bool((invmask >> k) & 1) for k in range(w))
        if kind == "single":
            port = io.SingleEndedPort(IOPort(w, name=f"io{tag}"), invert=inv, direction=direction)
        elif kind == "diff":
            port = io.DifferentialPort(IOPort(w, name=f"p{tag}"), IOPort(w, name=f"n{tag}"), invert=inv, direction=direction)
        else:
            port = io.SimulationPort(direction, w, invert=inv, name=f"sp{tag}")
        return port, [((tag, k), inv[k]) for k in range(w)]

    def io_bits(v):
        """(port name, bit) list of an IOValue"""
        from amaranth.hdl._ast import IOPort as P, IOSlice, IOConcat
        if isinstance(v, P):
            return [(v.name, k) for k in range(len(v))]
        if isinstance(v, IOSlice):
            return io_bits(v.value)[v.start:v.stop]
        if isinstance(v, IOConcat):
            return [b for part in v.parts for b in io_bits(part)]
        raise NotImplementedError(type(v))

    def val_bits(v):
        from amaranth.hdl import _ast as A
        v = A.Value.cast(v)
        if isinstance(v, A.Signal):
            return [(v.name, k) for k in range(len(v))]
        if isinstance(v, A.Slice):
            return val_bits(v.value)[v.start:v.stop]
        if isinstance(v, A.Concat):
            return [b for part in v.parts for b in val_bits(part)]
        raise NotImplementedError(type(v))

    def bits_of(port):
        """Underlying bit identities of a real port."""
        if kind == "single":
            return io_bits(port.io)
        if kind == "diff":
            return list(zip(io_bits(port.p), io_bits(port.n)))
        cols = []
        for attr in ("_i", "_o", "_oe"):
            v = getattr(port, attr)
            cols.append([None] * len(port) if v is None else val_bits(v))
        return list(zip(*cols)) if len(port) else []

    def fail(desc, what, got, want):
        obs.append({"name": f"{name}::{desc}::{what}", "kind": "post", "status": "refuted", "backend": "closed", "time_s": 0.0,
                    "failing_input": {"expression": desc, "what": what, "observed": repr(got), "expected": repr(want),
                                      "how": f"real {kind} port built with the public constructor"}})

    good = 0
    for w in range(0, W + 2):
        for invmask in range(1 << w):
            for direction in ("i", "o", "io"):
                port, ref = make(w, invmask, direction, "A")
                base_bits = bits_of(port)
                for desc, fn, refbits in _ref_ops(ref):
                    n_cases += 1
                    full = f"{kind}(w={w},inv={invmask:#b},dir={direction}).{desc}"
                    try:
                        r = fn(port)
                    except Exception as e:
                        fail(full, "raises", repr(e), refbits)
                        continue
                    want_inv = tuple(v for _b, v in refbits)
                    want_bits = [base_bits[b[1]] for b, _v in refbits]
                    if len(r) != len(refbits):
                        fail(full, "len", len(r), len(refbits))
                    elif tuple(r.invert) != want_inv:
                        fail(full, "invert", r.invert, want_inv)
                    elif r.direction != port.direction:
                        fail(full, "direction", r.direction, port.direction)
                    elif bits_of(r) != want_bits:
                        fail(full, "bits", bits_of(r), want_bits)
                    else:
                        good += 1
                # concatenation with every direction of a second port
                for d2 in ("i", "o", "io"):
                    for w2, inv2 in ((1, 1), (2, 0b01)):
                        q, refq = make(w2, inv2, d2, "B")
                        n_cases += 1
                        full = f"{kind}(w={w},inv={invmask:#b},dir={direction}) + {kind}(w={w2},inv={inv2:#b},dir={d2})"
                        dirs = {direction, d2}
                        legal = not ({"i", "o"} <= dirs)
                        try:
                            r = port + q
                        except ValueError:
                            if legal:
                                fail(full, "raises", "ValueError", "a port")
                            else:
                                good += 1
                            continue
                        if not legal:
                            fail(full, "accepted", "a port", "ValueError (input + output)")
                            continue
                        want_dir = direction if d2 == "io" else d2
                        want_inv = tuple(v for _b, v in ref + refq)
                        if len(r) != w + w2:
                            fail(full, "len", len(r), w + w2)
                        elif tuple(r.invert) != want_inv:
                            fail(full, "invert", r.invert, want_inv)
                        elif r.direction.value != want_dir:
                            fail(full, "direction", r.direction, want_dir)
                        else:
                            good += 1
    obs.append({"name": f"{name}::all-{n_cases}-cases", "kind": "post", "status": "proved" if good == n_cases else "refuted",
                "backend": "closed(exhaustive)", "time_s": 0.0})
    if good != n_cases:
        obs.pop()
    return {"task": name, "paths": n_cases, "solver_s": 0.0, "obligations": obs}


# ------------------------------------------------------------------------------------------------
# buffers on simulation ports

def _port_bit_model(port):
    """Per bit of a (possibly composed) SimulationPort: slices of the i / o / oe values and invert."""
    return port


def check_buffer(w, invmask, pdir, bdir, ff, port_builder=None, name=None, break_spec=False):
    from amaranth.hdl import Signal, Module, ClockDomain
    from amaranth.lib import io
    name = name or f"{'FFBuffer' if ff else 'Buffer'}(w={w},inv={invmask:#b},port={pdir},buf={bdir})"
    if port_builder is None:
        inv = tuple(bool((invmask >> k) & 1) for k in range(w))
        port = io.SimulationPort(pdir, w, invert=inv, name="port")
    else:
        port = port_builder()
        w = len(port)
        invmask = sum(int(v) << k for k, v in enumerate(port.invert))
    m = Module()
    m.domains.sync = cd = ClockDomain(reset_less=True)
    buf = (io.FFBuffer if ff else io.Buffer)(bdir, port)
    m.submodules.buf = buf
    d = Design(m)
    regs = []
    from amaranth.hdl import Value
    for attr in ("i", "o", "oe"):
        if hasattr(buf, attr):
            try:
                d.register(getattr(buf, attr))
            except AttributeError:
                pass
    for attr in ("_i", "_o", "_oe"):
        v = getattr(port, attr)
        if v is not None:
            d.register(*list(Value.cast(v)._rhs_signals()))
    has_i = bdir in ("i", "io")
    has_o = bdir in ("o", "io")

    def port_val(attr):
        """current value of the composed port's i / o / oe as an integer expression"""
        from spec.sem import sem, Env
        v = getattr(port, attr)
        env = Env([(sl.signal, sl.curr) for sl in d.sig_slots])
        return to_sint(sem(Value.cast(v), env))

    def body(path):
        d.fresh(path)
        d.set(cd.clk, 0)
        d.apply([], path, name + "::pre")
        o = d.val(buf.o) if has_o else None
        oe = d.val(buf.oe) if has_o else None
        pi = port_val("_i") if port._i is not None else None
        if ff:
            # inputs are sampled at the edge: remember what the buffer sees now, then clock once
            o_before, oe_before = o, oe
            seen_before = None
            if has_i:
                if bdir == "io":
                    # loop-back uses the *registered* o / oe that are on the port now
                    po, poe = port_val("_o"), port_val("_oe")
                    seen_before = ((poe & po) | (~poe & pi)) & mask(w)
                else:
                    seen_before = pi
            d.apply([(cd.clk, 1)], path, name + "::edge")
            if has_o:
                path.prove(f"{name}::port.o-registered", port_val("_o") == ((to_sint(o_before) ^ invmask) & mask(w)))
                path.prove(f"{name}::port.oe-registered", port_val("_oe") == ite(oe_before != 0, mask(w), 0))
            if has_i:
                path.prove(f"{name}::i-registered", to_sint(d.val(buf.i)) == ((to_sint(seen_before) ^ invmask) & mask(w)))
            # a second settle without an edge changes nothing (exactly one stage)
            snapshot = [sl.curr for sl in d.sig_slots]
            d.apply([(cd.clk, 0)], path, name + "::fall")
            path.prove(f"{name}::no-change-without-edge",
                       And(*[to_sint(sl.curr) == to_sint(v) for sl, v in zip(d.sig_slots, snapshot)
                             if sl.signal is not cd.clk]))
            return
        if has_o:
            want_o = (to_sint(o) ^ invmask) & mask(w)
            if break_spec:
                want_o = to_sint(o) & mask(w)
            path.prove(f"{name}::port.o", port_val("_o") == want_o)
            path.prove(f"{name}::port.oe", port_val("_oe") == ite(oe != 0, mask(w), 0))
        if has_i:
            if bdir == "io":
                seen = ite(oe != 0, (to_sint(o) ^ invmask) & mask(w), pi)
            else:
                seen = pi
            path.prove(f"{name}::i", to_sint(d.val(buf.i)) == ((to_sint(seen) ^ invmask) & mask(w)))
    return runner.from_exploration(name, Exploration(name, body).run())


def _sp(direction, w, inv, name):
    from amaranth.lib import io
    return io.SimulationPort(direction, w, invert=tuple(bool((inv >> k) & 1) for k in range(w)), name=name)


EXPRS = [
    ("(~p)[1:3]+q[0]", "io", lambda: (~_sp("io", 3, 0b101, "p"))[1:3] + _sp("io", 2, 0b10, "q")[0]),
    ("p[-1]", "io", lambda: _sp("io", 3, 0b100, "p")[-1]),
    ("p[-2]", "io", lambda: _sp("io", 3, 0b010, "p")[-2]),
    ("~(p+q)", "o", lambda: ~(_sp("o", 2, 0b01, "p") + _sp("io", 1, 0b1, "q"))),
    ("p[::-1]", "io", lambda: _sp("io", 3, 0b001, "p")[::-1]),
    ("p[1:]+p[:1]", "i", lambda: (lambda p: p[1:] + p[:1])(_sp("i", 3, 0b011, "p"))),
    ("(~p)[0]+(~~q)", "i", lambda: (~_sp("io", 2, 0b01, "p"))[0] + (~~_sp("i", 2, 0b10, "q"))),
]


def check_io_use():
    from amaranth.hdl import Module, IOPort, Fragment
    from amaranth.hdl._ir import build_netlist, DriverConflict
    from amaranth.lib import io
    obs = []

    def case(desc, builder, expect_conflict):
        m = Module()
        builder(m)
        try:
            build_netlist(Fragment.get(m, None), [])
            got = False
        except DriverConflict:
            got = True
        ok = got == expect_conflict
        obs.append({"name": f"io-use::{desc}", "kind": "post", "status": "proved" if ok else "refuted",
                    "backend": "closed", "time_s": 0.0,
                    **({} if ok else {"failing_input": {"design": desc, "DriverConflict raised": got, "expected": expect_conflict,
                                                        "how": "real build_netlist"}})})

    def two(pa, pb, da="o", db="o"):
        def b(m):
            m.submodules.a = io.Buffer(da, pa)
            m.submodules.b = io.Buffer(db, pb)
        return b
    p = io.SingleEndedPort(IOPort(4, name="x"))
    case("same port twice", two(p, p), True)
    case("overlapping slices [2:4],[0:3]", two(p[2:4], p[0:3]), True)
    case("bit 1 vs ~p[-3]", two(p[1], ~p[-3]), True)
    case("disjoint slices [0:2],[2:4]", two(p[0:2], p[2:4]), False)
    case("disjoint bits in/out", two(p[0], p[3], "i", "o"), False)
    case("port[0]+port in one buffer", lambda m: setattr(m.submodules, "a", io.Buffer("o", p[0] + p)), True)
    dp = io.DifferentialPort(IOPort(2, name="dp"), IOPort(2, name="dn"))
    case("two diff buffers same pair", two(dp, dp), True)
    case("diff buffers on different bits", two(dp[0], dp[1]), False)
    q = io.SingleEndedPort(IOPort(2, name="y"))

    def ffs(m):
        m.submodules.a = io.FFBuffer("o", q)
        m.submodules.b = io.FFBuffer("o", q)
    case("two FFBuffers on one port", ffs, True)
    return {"task": "io-use", "paths": 0, "solver_s": 0.0, "obligations": obs}


def check_real_port(kind, w, inv, bdir, broken=False, wrap=None):
    """Buffer on a REAL port (SingleEndedPort / DifferentialPort over IOPorts), at netlist level (`build_netlist`, cell
    semantics of spec/nir_eval.py with the pad's external value symbolic) and at RTLIL level (`rtlil.convert`, $tribuf /
    connect under spec/rtlil_eval.py): for ALL o, oe and pad values, the pad is driven with o ^ mask under oe (the
    negative pad of a differential pair with the complement), and i == (driven value while enabled, else pad) ^ mask."""
    from amaranth.hdl import IOPort, Fragment
    from amaranth.hdl import _nir
    from amaranth.hdl._ir import build_netlist
    from amaranth.back import rtlil
    from amaranth.lib import io
    from harness import rtlil_parse as RP
    from spec.nir_eval import NirEval
    from spec.rtlil_eval import RtlilEval
    name = f"real-port[{kind},w={w},inv={inv:#b},{bdir}" + (f",under-{wrap}" if wrap else "") + "]"
    invert = [bool((inv >> k) & 1) for k in range(w)]

    def wrapped(buf):
        # the buffer seen through a fragment transformer (the transformer copies the I/O buffer instance): same behaviour
        from amaranth.hdl import EnableInserter, ResetInserter, DomainRenamer, Signal
        if wrap == "enable":
            return EnableInserter({"sync": Signal(name="en_ctl")})(buf)
        if wrap == "reset":
            return ResetInserter({"sync": Signal(name="rst_ctl")})(buf)
        if wrap == "rename":
            return DomainRenamer({"sync": "other"})(buf)
        if wrap == "enable-of-rename":
            return EnableInserter({"other": Signal(name="en_ctl")})(DomainRenamer({"sync": "other"})(buf))
        return buf

    def build():
        if kind == "single":
            port = io.SingleEndedPort(IOPort(w, name="pad"), invert=invert, direction="io")
        else:
            port = io.DifferentialPort(IOPort(w, name="pad"), IOPort(w, name="padn"), invert=invert, direction="io")
        buf = io.Buffer(bdir, port)
        return buf, port
    buf, port = build()
    nl = build_netlist(Fragment.get(wrapped(buf), None), _buf_ports(buf, bdir))
    buf2, port2 = build()
    mods = RP.parse(rtlil.convert(wrapped(buf2), ports=_buf_ports(buf2, bdir), emit_src=False))
    top = nl.cells[0]
    iobs = [(i, c) for i, c in enumerate(nl.cells) if isinstance(c, _nir.IOBuffer)]
    has_o, has_i = bdir in ("o", "io"), bdir in ("i", "io")

    def body(path):
        o = path.var("o", 0, mask(w)) if has_o else 0
        oe = path.var("oe", 0, 1) if has_o else 0
        pad = path.var("pad", 0, mask(w))
        padn = path.var("padn", 0, mask(w))
        inputs = {}
        for nm in top.ports_i:
            inputs[nm] = {"o": o, "oe": oe}.get(nm, 0)
        io_in = {}
        for idx, c in iobs:
            pname = nl.io_ports[c.port[0].port].name if len(c.port) else "pad"
            io_in[idx] = pad if pname == "pad" else padn
        ev = NirEval(nl, inputs, {}, io_in)
        driven = (o ^ inv) & mask(w)
        want_i = (ite(oe != 0, driven, pad) ^ inv) & mask(w) if has_o else (pad ^ inv) & mask(w)
        if broken:
            want_i = want_i ^ 1
        for idx, c in iobs:
            if not len(c.port):
                continue
            pname = nl.io_ports[c.port[0].port].name
            if c.dir is not _nir.IODirection.Input:
                want_o = driven if pname == "pad" else (~driven) & mask(w)
                path.prove(f"{name}::nir::{pname}-driven-value", to_sint(ev.value(c.o)) == to_sint(want_o))
                path.prove(f"{name}::nir::{pname}-enable", to_sint(ev.net(c.oe)) == to_sint(oe))
        if has_i and w:
            path.prove(f"{name}::nir::i", to_sint(ev.value(top.ports_o["i"])) == to_sint(want_i))
        # RTLIL
        rin = {"pad": pad, "padn": padn}
        if has_o:
            rin.update({"o": o, "oe": oe})
        rev = RtlilEval(mods, inputs=rin, state={})
        tm = mods["\\top"]
        for c in tm.cells.values():
            if c.kind == "$tribuf":
                ybits = [b for b in RP.bits_of(c.ports["\\Y"], tm)]
                pname = ybits[0][0].lstrip("\\") if ybits else "pad"
                want_o = driven if pname == "pad" else (~driven) & mask(w)
                path.prove(f"{name}::rtlil::{pname}-driven-value", to_sint(rev.top.sig(c.ports["\\A"])) == to_sint(want_o))
                path.prove(f"{name}::rtlil::{pname}-enable", to_sint(rev.top.sig(c.ports["\\EN"])) == to_sint(oe))
        if has_o and w:
            n_trib = sum(1 for c in tm.cells.values() if c.kind == "$tribuf")
            path.prove(f"{name}::rtlil::one-tristate-driver-per-pad", n_trib == (1 if kind == "single" else 2))
        if has_i and w:
            path.prove(f"{name}::rtlil::i", to_sint(rev.out("i")) == to_sint(want_i))
        path.prove(f"{name}::evaluated", True)
    return runner.from_exploration(name, Exploration(name, body).run())


def _buf_ports(buf, bdir):
    ports = []
    if bdir in ("i", "io"):
        ports.append(buf.i)
    if bdir in ("o", "io"):
        ports += [buf.o, buf.oe]
    return ports


def check_ctor_directions():
    """Constructor contract of Buffer / FFBuffer / DDRBuffer on the directions: a buffer can be built on a port iff the port's
    direction allows every direction the buffer uses -- an input buffer needs Input or Bidir, an output buffer Output or Bidir,
    a bidirectional buffer Bidir -- and otherwise ValueError; for simulation, single-ended and differential ports, sliced and
    inverted ports, every (port direction, buffer direction) pair."""
    from amaranth.hdl import IOPort
    from amaranth.lib import io
    obs = []

    def ports(pdir):
        return {
            "sim": lambda: io.SimulationPort(pdir, 2),
            "single": lambda: io.SingleEndedPort(IOPort(2, name="pad"), direction=pdir),
            "diff": lambda: io.DifferentialPort(IOPort(2, name="p"), IOPort(2, name="n"), direction=pdir),
            "single-slice": lambda: io.SingleEndedPort(IOPort(3, name="pad"), direction=pdir)[0:2],
            "single-inverted": lambda: ~io.SingleEndedPort(IOPort(2, name="pad"), direction=pdir),
            "diff-slice": lambda: io.DifferentialPort(IOPort(3, name="p"), IOPort(3, name="n"), direction=pdir)[1:3],
        }
    allowed = {"i": {"i"}, "o": {"o"}, "io": {"i", "o", "io"}}
    n = 0
    for pdir in ("i", "o", "io"):
        for pk, mkport in ports(pdir).items():
            for bdir in ("i", "o", "io"):
                for bname, mkbuf in (("Buffer", lambda d, p: io.Buffer(d, p)),
                                     ("FFBuffer", lambda d, p: io.FFBuffer(d, p)),
                                     ("DDRBuffer", lambda d, p: io.DDRBuffer(d, p))):
                    n += 1
                    legal = bdir in allowed[pdir]
                    try:
                        mkbuf(bdir, mkport())
                        got = "accepted"
                    except ValueError:
                        got = "ValueError"
                    except Exception as e:
                        got = repr(e)[:120]
                    ok = got == ("accepted" if legal else "ValueError")
                    if not ok or (pk == "sim" and bname == "Buffer"):
                        obs.append({"name": f"ctor-directions::{bname}({bdir!r}, {pk} port with direction {pdir!r})", "kind": "post",
                                    "status": "proved" if ok else "refuted", "backend": "closed", "time_s": 0.0,
                                    **({} if ok else {"failing_input": {"buffer": bname, "buffer direction": bdir, "port": pk, "port direction": pdir,
                                                                        "constructor": got, "expected": "accepted" if legal else "ValueError"}})})
    obs.append({"name": f"ctor-directions::all-{n}-combinations-evaluated", "kind": "post", "status": "proved", "backend": "closed", "time_s": 0.0})
    return {"task": "ctor-directions", "paths": n, "solver_s": 0.0, "obligations": obs}


def check_nested_slices():
    """Buffers on slices of slices (and inversions / concatenations of slices) of real ports reach exactly the pads that plain
    list slicing of the declared pin list selects, with the inversion of those pads: closed, every nested slice pair of a
    5-bit single-ended and differential port, Buffer and FFBuffer, against the IOBuffer cells of the real netlist."""
    from amaranth.hdl import IOPort, Fragment, Module, ClockDomain
    from amaranth.hdl import _nir
    from amaranth.hdl._ir import build_netlist
    from amaranth.lib import io
    N = 5
    inv = [True, False, False, True, True]
    obs = []
    n = 0
    bad = None
    for kind in ("single", "diff"):
        for a in range(0, N):
            for b in range(a + 1, N + 1):
                for c in range(0, b - a):
                    for d in range(c + 1, b - a + 1):
                        for bufk in ("Buffer", "FFBuffer"):
                            n += 1
                            if kind == "single":
                                base = io.SingleEndedPort(IOPort(N, name="pad"), invert=inv, direction="io")
                            else:
                                base = io.DifferentialPort(IOPort(N, name="pad"), IOPort(N, name="padn"), invert=inv, direction="io")
                            port = base[a:b][c:d]
                            want_bits = list(range(N))[a:b][c:d]
                            want_inv = inv[a:b][c:d]
                            m = Module()
                            m.domains += ClockDomain("sync")
                            buf = io.Buffer("o", port) if bufk == "Buffer" else io.FFBuffer("o", port)
                            m.submodules.buf = buf
                            try:
                                nl = build_netlist(Fragment.get(m, None), [buf.o, buf.oe])
                                cells = [cl for cl in nl.cells if isinstance(cl, _nir.IOBuffer)]
                                got = {}
                                for cl in cells:
                                    pname = nl.io_ports[cl.port[0].port].name if len(cl.port) else "?"
                                    got[pname] = [ionet.bit for ionet in cl.port]
                                ok = list(port.invert) == want_inv and got.get("pad") == want_bits and (kind == "single" or got.get("padn") == want_bits)
                            except Exception as e:
                                got, ok = repr(e)[:200], False
                            if not ok and bad is None:
                                bad = {"port": f"{kind} port of {N} bits [{a}:{b}][{c}:{d}]", "buffer": bufk, "pad bits of the IOBuffer cells": got,
                                       "expected pad bits": want_bits, "port.invert": [bool(x) for x in port.invert], "expected inversion": want_inv,
                                       "how": "io.Buffer / io.FFBuffer('o', port[a:b][c:d]); build_netlist; IOBuffer cell ports"}
    obs.append({"name": f"nested-slices::buffers-reach-the-sliced-pads({n} cases)", "kind": "post", "status": "proved" if bad is None else "refuted",
                "backend": "closed(exhaustive)", "time_s": 0.0, **({} if bad is None else {"failing_input": bad})})
    return {"task": "nested-slices", "paths": n, "solver_s": 0.0, "obligations": obs}


def check_domains():
    """FFBuffer / DDRBuffer constructor contract for the domains: each direction's registers are in the domain named for
    it, "sync" when not named (independently of the other direction), a domain named for a direction the buffer does not
    have is refused -- and the elaborated FFBuffer really clocks the registers of each direction from that domain (the
    registers of the output direction change at an edge of o_domain only, those of the input direction at i_domain only)."""
    from amaranth.lib import io
    from amaranth.hdl import Module, ClockDomain
    obs = []

    def ob(nm, ok, fi):
        obs.append({"name": f"domains::{nm}", "kind": "post", "status": "proved" if ok else "refuted", "backend": "closed", "time_s": 0.0,
                    **({} if ok else {"failing_input": fi})})
    for cls in (io.FFBuffer, io.DDRBuffer):
        for bdir in ("i", "o", "io"):
            for idom in (None, "a"):
                for odom in (None, "b"):
                    port = io.SimulationPort("io", 2)
                    has_i, has_o = bdir != "o", bdir != "i"
                    legal = (idom is None or has_i) and (odom is None or has_o)
                    try:
                        buf = cls(bdir, port, i_domain=idom, o_domain=odom)
                        got = (buf.i_domain, buf.o_domain)
                    except ValueError:
                        got = "ValueError"
                    want = ((idom or "sync") if has_i else None, (odom or "sync") if has_o else None) if legal else "ValueError"
                    ob(f"{cls.__name__}({bdir},i_domain={idom},o_domain={odom})", got == want,
                       {"call": f"{cls.__name__}({bdir!r}, port, i_domain={idom!r}, o_domain={odom!r})", "(i_domain, o_domain)": got, "expected": want})
    # the elaborated FFBuffer: which clock moves which register
    for idom, odom in ((None, None), ("a", None), (None, "b"), ("a", "b")):
        port = io.SimulationPort("io", 2, name="pad")
        buf = io.FFBuffer("io", port, i_domain=idom, o_domain=odom)
        m = Module()
        doms = {}
        for dn in {idom or "sync", odom or "sync"}:
            doms[dn] = ClockDomain(dn)
            m.domains += doms[dn]
        m.submodules.buf = buf
        d = Design(m)
        d.register(buf.i, buf.o, buf.oe, port.i, port.o, port.oe)
        import random
        rnd = random.Random(3)
        okk = True
        detail = None
        for _ in range(6):
            d.randomize(rnd)
            for cd in doms.values():
                d.set(cd.clk, 0)
                if cd.rst is not None:
                    d.set(cd.rst, 0)
            d.settle()
            for edge_dom, cd in doms.items():
                before = (int(d.val(port.o)), int(d.val(port.oe)), int(d.val(buf.i)))
                d.apply([(cd.clk, 1)])
                after = (int(d.val(port.o)), int(d.val(port.oe)), int(d.val(buf.i)))
                d.apply([(cd.clk, 0)])
                if edge_dom != (odom or "sync") and (after[0], after[1]) != (before[0], before[1]):
                    okk, detail = False, {"edge of": edge_dom, "port.o/oe before": before[:2], "after": after[:2], "o_domain": odom or "sync"}
                if edge_dom != (idom or "sync") and after[2] != before[2]:
                    okk, detail = False, {"edge of": edge_dom, "i before": before[2], "after": after[2], "i_domain": idom or "sync"}
        ob(f"FFBuffer(io,i_domain={idom},o_domain={odom})::registers-clocked-by-their-own-domain", okk, detail)
    return {"task": "domains", "paths": 0, "solver_s": 0.0, "obligations": obs}


def run_task(task):
    k = task[0]
    if k == "algebra":
        return check_algebra(task[1], task[2])
    if k == "buffer":
        return check_buffer(*task[1:])
    if k == "expr":
        desc, bdir, builder = EXPRS[task[1]]
        parts = [check_buffer(0, 0, None, bdir, ff, port_builder=builder, name=f"{'FFBuffer' if ff else 'Buffer'}[{desc}]")
                 for ff in (False, True)]
        return runner.merge_results(f"expr[{desc}]", parts)
    if k == "io-use":
        return check_io_use()
    if k == "domains":
        return check_domains()
    if k == "nested-slices":
        return check_nested_slices()
    if k == "ctor-directions":
        return check_ctor_directions()
    if k == "real-port":
        return check_real_port(*task[1:])
    if k == "canary-real-port":
        return check_real_port("single", 2, 0b01, "io", broken=True)
    if k == "canary-buffer":
        return check_buffer(2, 0b10, "io", "io", False, break_spec=True)
    raise KeyError(k)


def find_failing_input(res, ob):
    if ob.get("model") is None:
        return None
    return {"model": ob["model"], "how": "exact counter-model of the generated buffer code (values of the design's signals "
            "before settling, s<slot>_<name>); obligation " + ob["name"]}


def replay(data):
    nm = data["task"]
    if isinstance(nm, str) and nm.startswith("algebra"):
        import re
        kind = re.match(r"algebra\[(\w+)\]", nm).group(1)
        r = check_algebra(kind, 3)
    elif nm == "io-use":
        r = check_io_use()
    else:
        return True
    return any(o["status"] == "refuted" for o in r["obligations"])
