"""C12 -- synchronous FIFOs refine a bounded queue for every strobe sequence.

Data structure against an abstract view (DESIGN.md 3C).  The registers and the memory of the real
SyncFIFO / SyncFIFOBuffered (elaborated and compiled by the real code) are the representation; one
clock edge with arbitrary (w_en, w_data, r_en) is the public operation, its body being the generated
`run()` functions; `view(state)` is the ghost queue, `wf(state)` the representation invariant.

Obligations per (variant, width, depth), all for EVERY well-formed state and EVERY input:
  init-wf            the reset state is well formed, its view is empty
  comb-converged     convergence certificate of the combinational settling (before and after the edge)
  outputs            w_rdy == (len < depth) [SyncFIFO] / w_rdy only if len < depth and whenever >= 2 free slots
                     [buffered]; r_rdy only if len > 0; r_rdy -> r_data == head; level == r_level == w_level == len
  step-wf            wf is preserved by the edge
  step-len/-elems    view' == dequeue_if(r_en & r_rdy, enqueue_if(w_en & w_rdy, view))
  live               SyncFIFO: r_rdy <-> len > 0; buffered: len > 0 -> r_rdy now or after the next edge
An invariant preserved by every edge from every well-formed state holds after every finite strobe
sequence: unbounded in time.  Parameters are enumerated (bound stated in the evidence).
"""
from pyvc.explore import Exploration
from pyvc.sym import SInt, to_sint, And, Or, Not, Implies, ite, is_sym
from pyvc import runner, source
from spec.sem import mask
from harness.kernel import Design

PROPERTY = "C12"

META = {
    "level": "proof",
    "trusted_base": [
        "pyvc symbolic integer encoding; z3 / cvc5",
        "kernel composition model of harness/kernel.py (which processes an edge wakes; eval / commit / settle "
        "phases of PySimEngine.step_design), with the settling proved convergent per design",
        "slot contracts of _PySignalState.update and _PyMemoryState.read/write/commit (bodies verified in C08/C11)",
        "reference queue semantics in this file (enqueue at the tail, dequeue at the head)",
    ],
    "assumptions": [
        "parameters enumerated: depth in the stated set, width in {0, 1, 2} (the data path only moves data)",
        "the domain reset is held low during operation steps (reset behaviour: init-wf + C03)",
    ],
    "bounds": {"quick": {"depths": [0, 1, 2, 3, 4], "widths": [0, 2]},
               "thorough": {"depths": [0, 1, 2, 3, 4, 5, 6, 8], "widths": [0, 1, 2]}},
    "explanation": "inductive refinement of a bounded queue, one obligation set per parameter choice",
}


def functions():
    f = "amaranth/lib/fifo.py"
    return [source.describe(f, q, arith="adaptive bit-vector (exact)", bound="depth/width enumerated")
            for q in ("SyncFIFO.elaborate", "SyncFIFOBuffered.elaborate", "_incr", "FIFOInterface.__init__")] + \
        [source.describe("amaranth/lib/memory.py", "Memory.elaborate", arith="through generated code", bound="-"),
         source.describe("amaranth/sim/_pyrtl.py", "_FragmentCompiler.__call__", arith="generated code executed", bound="-")]


def tasks(tier):
    b = META["bounds"][tier]
    return [(v, w, d) for v in ("SyncFIFO", "SyncFIFOBuffered") for w in b["widths"] for d in b["depths"]]


def canaries(tier):
    return [("canary-view", 2, 3), ("canary-inv", 2, 3)]


def _find(design, name):
    hits = [sl.signal for sl in design.sig_slots if sl.signal.name == name]
    assert len(hits) == 1, (name, [sl.signal.name for sl in design.sig_slots])
    return hits[0]


def _clk_rst(design):
    cd = design.design.fragment.domains["sync"]
    return cd.clk, cd.rst


class Model:
    """Representation invariant and view for the two variants."""
    def __init__(self, variant, fifo, d):
        self.variant, self.fifo, self.d = variant, fifo, d
        self.depth = fifo.depth
        self.buffered = variant == "SyncFIFOBuffered"
        if self.depth == 0:
            return
        if self.buffered and self.depth == 1:
            return
        self.produce = _find(d, "produce")
        self.consume = _find(d, "consume")
        self.inner_depth = self.depth - 1 if self.buffered else self.depth
        self.lvl = _find(d, "inner_level") if self.buffered else fifo.level
        self.mem = d.mem(0)

    def wf(self):
        d, f = self.d, self.fifo
        if self.depth == 0:
            return True
        if self.buffered and self.depth == 1:
            return d.val(f.level) <= 1
        p, c, L, D = d.val(self.produce), d.val(self.consume), d.val(self.lvl), self.inner_depth
        diff = ite(p >= c, p - c, p + D - c)
        return And(p < D, c < D, L <= D, Or(L == diff, And(L == D, p == c)))

    def view(self):
        """(length, [elements], capacity): element i is meaningful for i < length."""
        d, f = self.d, self.fifo
        if self.depth == 0:
            return 0, []
        if self.buffered and self.depth == 1:
            return d.val(f.level), [d.val(f.r_data)]
        c, L, D = d.val(self.consume), d.val(self.lvl), self.inner_depth
        rows = self.mem.data
        inner = []
        for i in range(D):
            e = 0
            for cv in range(D):
                e = ite(c == cv, rows[(cv + i) % D], e)
            inner.append(e)
        if not self.buffered:
            return L, inner
        rr = d.val(f.r_rdy)
        out_reg = d.val(_find(d, "r_port__data"))
        # the output register is the head when r_rdy, followed by the inner queue
        elems = []
        for i in range(D + 1):
            prev = inner[i - 1] if i >= 1 else 0
            cur = inner[i] if i < D else 0
            elems.append(ite(rr != 0, out_reg if i == 0 else prev, cur))
        return L + rr, elems


def check(variant, width, depth, canary=None):
    from amaranth.lib import fifo as F
    name = f"{variant}(w={width},d={depth})"
    cls = getattr(F, variant)
    fifo = cls(width=width, depth=depth)
    d = Design(fifo)
    d.register(fifo.w_en, fifo.w_data, fifo.w_rdy, fifo.w_level, fifo.r_en, fifo.r_data, fifo.r_rdy,
               fifo.r_level, fifo.level)
    mdl = Model(variant, fifo, d)
    obs_closed = []

    # --- initial state
    d.reset_state()
    d.settle()
    wf0 = mdl.wf()
    n0, _ = mdl.view()
    ok = (wf0 is True or bool(wf0)) and int(n0) == 0
    obs_closed.append({"name": f"{name}::init-wf", "kind": "post", "status": "proved" if ok else "refuted",
                       "backend": "closed", "time_s": 0.0,
                       **({} if ok else {"failing_input": {"what": "reset state is not well formed / not empty"}})})

    def body(path):
        d.fresh(path)
        if depth > 0:
            clk, rst = _clk_rst(d)
            d.set(clk, 0)
            if rst is not None:
                d.set(rst, 0)
        path.assume(mdl.wf())
        d.settle(path, name + "::pre")
        path.assume(mdl.wf())          # (comb signals do not occur in wf; harmless re-statement)
        n, elems = mdl.view()
        n = to_sint(n)
        w_en, r_en, w_data = d.val(fifo.w_en), d.val(fifo.r_en), d.val(fifo.w_data)
        w_rdy, r_rdy, r_data = d.val(fifo.w_rdy), d.val(fifo.r_rdy), d.val(fifo.r_data)
        # --- outputs
        if variant == "SyncFIFO":
            path.prove(f"{name}::w_rdy-iff-space", (w_rdy != 0) == (n < depth))
            path.prove(f"{name}::r_rdy-iff-nonempty", (r_rdy != 0) == (n > 0))
        else:
            path.prove(f"{name}::w_rdy-only-if-space", Implies(w_rdy != 0, n < depth))
            path.prove(f"{name}::w_rdy-if-two-free", Implies(n + 2 <= depth, w_rdy != 0))
            path.prove(f"{name}::r_rdy-only-if-nonempty", Implies(r_rdy != 0, n > 0))
        if elems:
            path.prove(f"{name}::r_data-is-head", Implies(r_rdy != 0, to_sint(r_data) == to_sint(elems[0])))
        path.prove(f"{name}::levels", And(d.val(fifo.level) == n, d.val(fifo.r_level) == n, d.val(fifo.w_level) == n))
        if depth == 0:
            return
        do_w = And(w_en != 0, w_rdy != 0)
        do_r = And(r_en != 0, r_rdy != 0)
        # --- the operation: one rising clock edge
        d.edge([(clk, 1)], path, name + "::post")
        path.prove(f"{name}::step-wf", mdl.wf())
        n2, elems2 = mdl.view()
        n2 = to_sint(n2)
        exp_n = n + ite(do_w, 1, 0) - ite(do_r, 1, 0)
        if canary == "view":
            exp_n = n + ite(do_w, 1, 0)
        path.prove(f"{name}::step-len", n2 == exp_n)
        shift = ite(do_r, 1, 0)
        for i in range(len(elems2)):
            # new element i is old element i + shift if that existed, else the written word
            old = w_data
            for j in reversed(range(len(elems))):
                old = ite(And(i + shift == j, j < n), elems[j], old)
            path.prove(f"{name}::step-elem[{i}]", Implies(i < n2, to_sint(elems2[i]) == to_sint(old)))
        # --- liveness
        if variant == "SyncFIFOBuffered":
            # an entry that is the oldest is readable now or after one more edge (whatever the inputs)
            path.prove(f"{name}::live-head-within-one-more-edge",
                       Implies(And(n > 0, r_rdy == 0), d.val(fifo.r_rdy) != 0))
    x = Exploration(name, body).run()
    res = runner.from_exploration(name, x, {"source_excerpt": d.procs[0][1][:300] if d.procs else None})
    res["obligations"] = obs_closed + res["obligations"]
    return res


def run_task(task):
    if task[0] == "canary-view":
        return check("SyncFIFO", task[1], task[2], canary="view")
    if task[0] == "canary-inv":
        # an invariant that is too weak to be inductive must be caught by step-wf / step-len
        global Model
        real_wf = Model.wf

        def weak(self):
            dd, f = self.d, self.fifo
            p, c, L, D = dd.val(self.produce), dd.val(self.consume), dd.val(self.lvl), self.inner_depth
            return And(p < D, c < D, L <= D)
        Model.wf = weak
        try:
            return check("SyncFIFO", task[1], task[2])
        finally:
            Model.wf = real_wf
    return check(*task)


# ------------------------------------------------------------------------------------------------
# replay on the real simulator: drive the real FIFO from reset with a short strobe sequence found by
# bounded search against a Python deque

def concrete_search(variant, width, depth, max_len=7):
    import itertools
    from collections import deque
    from amaranth.lib import fifo as F
    from amaranth.sim import Simulator
    cls = getattr(F, variant)
    datas = [0, 1] if width > 0 else [0]
    steps = [(w, r) for w in (0, 1) for r in (0, 1)]
    import random
    rnd = random.Random(0)
    seqs = [tuple(rnd.choice(steps) for _ in range(rnd.randint(1, 14))) for _ in range(600)]
    seqs += list(itertools.product(steps, repeat=3))
    for seq in seqs:
        fifo = cls(width=width, depth=depth)
        sim = Simulator(fifo)
        sim.add_clock(1e-6)
        q = deque()
        result = {}

        async def tb(ctx):
            nxt = 1
            pending_zero = 0
            for k, (w, r) in enumerate(seq):
                ctx.set(fifo.w_en, w)
                ctx.set(fifo.r_en, r)
                ctx.set(fifo.w_data, nxt & mask(width))
                w_rdy, r_rdy, r_data = ctx.get(fifo.w_rdy), ctx.get(fifo.r_rdy), ctx.get(fifo.r_data)
                lv = (ctx.get(fifo.level), ctx.get(fifo.r_level), ctx.get(fifo.w_level))
                bad = None
                if w_rdy and len(q) >= depth:
                    bad = "w_rdy with depth entries held"
                elif r_rdy and not q:
                    bad = "r_rdy with no entry"
                elif r_rdy and r_data != q[0]:
                    bad = f"r_data={r_data} but oldest entry is {q[0]}"
                elif lv != (len(q),) * 3:
                    bad = f"levels {lv} but {len(q)} entries held"
                elif variant == "SyncFIFO" and (bool(w_rdy) != (len(q) < depth) or bool(r_rdy) != (len(q) > 0)):
                    bad = "rdy flags do not match occupancy"
                elif variant == "SyncFIFOBuffered" and not w_rdy and len(q) + 2 <= depth:
                    bad = "w_rdy low with two free slots"
                if bad:
                    result["bad"] = {"cycle": k, "what": bad}
                    return
                if w and w_rdy:
                    q.append(nxt & mask(width))
                    nxt += 1
                if r and r_rdy:
                    q.popleft()
                await ctx.tick()
        sim.add_testbench(tb)
        sim.run()
        if "bad" in result:
            return {"variant": variant, "width": width, "depth": depth, "strobes(w_en,r_en)": list(seq), **result["bad"],
                    "how": "real Simulator from reset, testbench compared with a Python deque"}
    return None


def find_failing_input(res, ob):
    import re
    m = re.match(r"(\w+)\(w=(\d+),d=(\d+)\)", ob["name"])
    if not m:
        return None
    return concrete_search(m.group(1), int(m.group(2)), int(m.group(3)))


def replay(data):
    import re
    m = re.match(r"(\w+)\(w=(\d+),d=(\d+)\)", data["obligation"])
    fi = data.get("failing_input")
    if fi:
        return concrete_search(m.group(1), int(m.group(2)), int(m.group(3))) is not None
    r = check(m.group(1), int(m.group(2)), int(m.group(3)))
    return any(o["status"] == "refuted" for o in r["obligations"])
