"""C16 -- CRC software and hardware agree with the Williams model for all parameters.

 compute      Parameters.compute against the bit-serial Williams/Rocksoft model (spec/crc.py): for each
              (crc_width, data_width) the real method is executed with SYMBOLIC polynomial, initial register,
              reflect flags, xor_output and data word: compute([w]) from ANY initial register value equals
              finalize(step(R, w)); compute([]) == finalize(R); compositionality on two-word sequences.  The
              loop body depends on the register and the word only (syntactic check), so by induction over
              the sequence compute(seq) == finalize(fold(step, init, seq)) for every sequence length.
              `_reflect` is string based: used through its contract (bit reversal) and checked exhaustively
              for n <= 12 in CPython -- a bounded stand-in, listed as an assumption.
 catalogue    every catalogue entry reproduces its check value for b"123456789" (closed).
 processor    one-step lemma on the real Processor (generated code, kernel): crc_reg' == step(start ? init :
              crc_reg, data) if valid; init if start & ~valid; unchanged otherwise; crc == finalize(crc_reg);
              match_detected == (finalize-without-xor(crc_reg) == residue()).  By induction the hardware
              register equals the software register after any valid / idle / start pattern.
 trailer      from an ARBITRARY register value r, feeding the trailer words of crc(r) in transmission order
              reaches a state where the match condition holds, and any other trailer does not (unrolling of
              crc_width / data_width steps; covers every message of every length).
"""
import ast

from pyvc.explore import Exploration
from pyvc.sym import SInt, SBool, to_sint, And, Or, Not, Implies, ite
from pyvc import runner, source
from spec.sem import mask
from spec import crc as S
from harness.kernel import Design

PROPERTY = "C16"

META = {
    "level": "proof",
    "trusted_base": [
        "pyvc symbolic integer encoding; z3 / cvc5",
        "spec/crc.py: bit-serial Williams model written from docs/stdlib/crc.rst parameter definitions",
        "kernel composition model (Processor obligations)",
        "induction over the word sequence from the one-word lemma (prose; the loop body's state is the register only -- checked syntactically)",
    ],
    "assumptions": [
        "Parameters._reflect(word, n) == bit reversal of the n low bits: bounded stand-in, exhaustive for n <= 12",
        "(crc_width, data_width) enumerated up to the stated bounds; polynomial / initial value / xor / flags / "
        "register / data symbolic (all values)",
        "trailer obligations only for reflect_input == reflect_output and crc_width a multiple of data_width",
    ],
    "bounds": {"quick": {"compute": [(3, 1), (4, 3), (5, 8), (8, 4), (8, 8)], "processor_entries": 12,
                         "trailer": [(8, 8), (8, 4), (16, 8), (6, 3)]},
               "thorough": {"compute": [(1, 1), (3, 1), (4, 3), (5, 8), (8, 4), (8, 8), (16, 8), (12, 5), (10, 10)],
                            "processor_entries": 200, "trailer": [(8, 8), (8, 4), (16, 8), (6, 3), (16, 16), (24, 8), (32, 8)]}},
    "explanation": "function contract on compute per width pair + one-step hardware lemma + trailer unrolling",
}


def functions():
    f = "amaranth/lib/crc/__init__.py"
    return [source.describe(f, q, arith=a, bound=b) for q, a, b in [
        ("Parameters.compute", "adaptive bit-vector (exact)", "(crc_width, data_width) enumerated"),
        ("Parameters._reflect", "bounded stand-in", "n <= 12 exhaustive"),
        ("Parameters.residue", "concrete + trailer theorem", "enumerated"),
        ("Parameters._matrices", "through Processor", "enumerated"),
        ("Processor.__init__", "-", "-"), ("Processor.elaborate", "generated code executed", "catalogue entries x data widths"),
        ("Algorithm.__init__", "closed", "-")]]


def tasks(tier):
    b = META["bounds"][tier]
    ts = [("compute", cw, dw) for cw, dw in b["compute"]]
    ts += [("compose", 4, 2), ("compose", 5, 3)]
    ts += [("reflect",), ("catalogue",), ("loop-shape",), ("params-frame",)]
    ts += [("processor", k) for k in range(b["processor_entries"])]
    ts += [("trailer", cw, dw, refl) for cw, dw in b["trailer"] for refl in (False, True)]
    return ts


def canaries(tier):
    return [("canary-compute",), ("canary-processor",)]


def _params(cw, dw, poly, init, rin, rout, xor):
    """A real Parameters object with (possibly symbolic) fields, bypassing Algorithm's range checks (which are
    preconditions here)."""
    from amaranth.lib.crc import Parameters
    p = object.__new__(Parameters)
    p._crc_width, p._polynomial, p._initial_crc = cw, poly, init
    p._reflect_input, p._reflect_output, p._xor_output = rin, rout, xor
    p.data_width = dw
    return p


class reflect_contract:
    """Replaces Parameters._reflect by its contract for the duration of an exploration."""
    def __enter__(self):
        from amaranth.lib import crc
        self.cls = crc.Parameters
        self.old = self.cls.__dict__["_reflect"]
        self.cls._reflect = staticmethod(lambda word, n: S.bitrev(word, n))

    def __exit__(self, *a):
        self.cls._reflect = self.old
        return False


def unit_compute(cw, dw, broken=False):
    name = f"compute(crc_width={cw},data_width={dw})"
    parts = []
    for rin in (False, True):
        for rout in (False, True):
            def body(path, rin=rin, rout=rout):
                poly = path.var("poly", 0, mask(cw))
                R = path.var("R", 0, mask(cw))
                xor = path.var("xor", 0, mask(cw))
                w = path.var("w", 0, mask(dw))
                p = _params(cw, dw, poly, R, rin, rout, xor)
                with reflect_contract():
                    got1 = p.compute([w])
                    got0 = p.compute([])
                R1 = S.step_word(R, w, cw, dw, poly, rin)
                if broken:
                    R1 = S.step_word(R, w, cw, dw, poly, not rin)
                path.prove(f"{name}[{rin},{rout}]::one-word", to_sint(got1) == to_sint(S.finalize(R1, cw, rout, xor)))
                path.prove(f"{name}[{rin},{rout}]::empty", to_sint(got0) == to_sint(S.finalize(R, cw, rout, xor)))
            parts.append(runner.from_exploration(name, Exploration(f"{name}[{rin},{rout}]", body, max_paths=100000).run()))

    # out-of-range words are rejected
    def body_range(path):
        w = path.var("w", -2, mask(dw) + 2)
        p = _params(cw, dw, 1, 0, False, False, 0)
        bad = Or(w < 0, w > mask(dw))
        try:
            p.compute([w])
            path.prove(f"{name}::accepts-only-in-range", Not(bad))
        except ValueError:
            path.prove(f"{name}::rejects-only-out-of-range", bad)
    parts.append(runner.from_exploration(name, Exploration(f"{name}::range", body_range, max_paths=100000).run()))
    return runner.merge_results(name, parts)


def unit_compose(cw, dw):
    name = f"compose(crc_width={cw},data_width={dw})"

    def body(path):
        poly = path.var("poly", 0, mask(cw))
        R = path.var("R", 0, mask(cw))
        xor = path.var("xor", 0, mask(cw))
        w1, w2 = path.var("w1", 0, mask(dw)), path.var("w2", 0, mask(dw))
        rin = bool(path.boolvar("rin"))
        rout = bool(path.boolvar("rout"))
        with reflect_contract():
            got = _params(cw, dw, poly, R, rin, rout, xor).compute([w1, w2])
        R1 = S.step_word(R, w1, cw, dw, poly, rin)
        R2 = S.step_word(R1, w2, cw, dw, poly, rin)
        path.prove(f"{name}::two-words", to_sint(got) == to_sint(S.finalize(R2, cw, rout, xor)))
    return runner.from_exploration(name, Exploration(name, body, max_paths=100000).run())


def unit_reflect():
    from amaranth.lib.crc import Parameters
    cases = fails = 0
    bad = None
    for n in range(1, 13):
        for wv in range(1 << n):
            cases += 1
            if Parameters._reflect(wv, n) != S.bitrev(wv, n):
                fails += 1
                bad = bad or {"word": wv, "n": n, "observed": Parameters._reflect(wv, n), "expected": S.bitrev(wv, n)}
    obs = []
    if fails:
        obs.append({"name": "_reflect::bit-reversal", "kind": "bounded", "status": "refuted", "backend": "cpython",
                    "time_s": 0.0, "failing_input": bad})
    return {"task": "_reflect", "paths": 0, "solver_s": 0.0, "obligations": obs,
            "bounded": [{"name": "Parameters._reflect == bit reversal", "bound": "n <= 12, exhaustive", "cases": cases, "failures": fails}]}


def _published():
    """The reveng check / residue table shipped with the repository (tests/test_lib_crc.py, CRC_CHECKS), read as
    data (no import)."""
    import os
    path = os.path.join(source.repo_root(), "tests", "test_lib_crc.py")
    tree = ast.parse(open(path).read())
    for node in tree.body:
        if isinstance(node, ast.Assign) and getattr(node.targets[0], "id", None) == "CRC_CHECKS":
            return ast.literal_eval(node.value)
    return {}


def unit_catalogue():
    from amaranth.lib.crc import catalog
    obs = []
    data = b"123456789"
    pub = _published()
    n = 0
    for name_ in sorted(dir(catalog)):
        algo = getattr(catalog, name_)
        if not name_.startswith("CRC") or not hasattr(algo, "crc_width"):
            continue
        n += 1
        got = algo(8).compute(data)
        want_model = S.crc_bytes(data, algo.crc_width, algo.polynomial, algo.initial_crc, algo.reflect_input,
                                 algo.reflect_output, algo.xor_output)
        check, residue = pub.get(name_, (None, None))
        ok = got == want_model and (check is None or got == check) and (residue is None or algo(8).residue() == residue)
        obs.append({"name": f"catalogue::{name_}", "kind": "post", "status": "proved" if ok else "refuted",
                    "backend": "closed", "time_s": 0.0,
                    **({} if ok else {"failing_input": {"entry": name_, "compute": hex(got), "published check": check,
                                                        "williams model": hex(want_model), "residue()": algo(8).residue(),
                                                        "published residue": residue}})})
    ok = n >= 100 and len(pub) >= 100 and all(k in pub for k in dir(catalog) if k.startswith("CRC"))
    obs.append({"name": "catalogue::every-entry-has-a-published-check", "kind": "post", "status": "proved" if ok else "refuted",
                "backend": "closed", "time_s": 0.0, **({} if ok else {"failing_input": {"entries": n, "published": len(pub)}})})
    return {"task": "catalogue", "paths": 0, "solver_s": 0.0, "obligations": obs}


def unit_loop_shape():
    """Syntactic side condition of the induction: in `compute`, the only variables written inside the `for word
    in data` loop are `word` and `crc`, and nothing but `crc` is read after the loop."""
    seg, node = source.function_source("amaranth/lib/crc/__init__.py", "Parameters.compute")
    loops = [n for n in node.body if isinstance(n, ast.For)]
    ok = len(loops) == 1 and ast.unparse(loops[0].iter) == "data"
    written = set()
    if ok:
        for n in ast.walk(loops[0]):
            if isinstance(n, ast.Name) and isinstance(n.ctx, ast.Store):
                written.add(n.id)
            if isinstance(n, (ast.Attribute,)) and isinstance(n.ctx, ast.Store):
                written.add("self." + n.attr)
    ok = ok and written <= {"word", "crc", "_"}
    return {"task": "loop-shape", "paths": 0, "solver_s": 0.0, "obligations": [
        {"name": "compute::loop-carried-state-is-crc-only", "kind": "post", "status": "proved" if ok else "refuted",
         "backend": "rule", "time_s": 0.0, **({} if ok else {"failing_input": {"written in loop": sorted(written)}})}]}


def _entries():
    """(label, Algorithm, data_width) list: catalogue entries x data widths, plus non-catalogue parameter sets."""
    from amaranth.lib.crc import catalog, Algorithm
    out = []
    names = sorted(n for n in dir(catalog) if n.startswith("CRC") and hasattr(getattr(catalog, n), "crc_width"))
    custom = [
        ("custom5", Algorithm(crc_width=5, polynomial=0x0b, initial_crc=0x13, reflect_input=True, reflect_output=False, xor_output=0x09), 3),
        ("custom8", Algorithm(crc_width=8, polynomial=0x9b, initial_crc=0x5a, reflect_input=False, reflect_output=True, xor_output=0x36), 4),
        ("custom6", Algorithm(crc_width=6, polynomial=0x27, initial_crc=0x01, reflect_input=True, reflect_output=True, xor_output=0x16), 1),
        ("custom3", Algorithm(crc_width=3, polynomial=0x3, initial_crc=0x7, reflect_input=False, reflect_output=False, xor_output=0x5), 7),
    ]
    out += custom
    pick = [n for n in names if getattr(catalog, n).crc_width <= 16][::3] + [n for n in names if getattr(catalog, n).crc_width > 16][::6]
    for n in pick:
        a = getattr(catalog, n)
        for dw in ((1, 8) if a.crc_width <= 16 else (8,)):
            out.append((n, a, dw))
    for n in names:
        a = getattr(catalog, n)
        for dw in (4, 8):
            out.append((n, a, dw))
    return out


def unit_processor(k, broken=False):
    from amaranth.hdl import Module, ClockDomain
    entries = _entries()
    if k >= len(entries):
        return {"task": f"processor[{k}]", "paths": 0, "solver_s": 0.0, "obligations": [
            {"name": f"processor[{k}]::no-such-entry", "kind": "post", "status": "proved", "backend": "closed", "time_s": 0.0}]}
    label, algo, dw = entries[k]
    name = f"Processor[{label},dw={dw}]"
    cw = algo.crc_width
    params = algo(dw)
    proc = params.create()
    m = Module()
    cd = ClockDomain("sync", reset_less=True)
    m.domains += cd
    m.submodules.crc = proc
    d = Design(m)
    d.register(proc.start, proc.data, proc.valid, proc.crc, proc.match_detected)
    reg = [sl.signal for sl in d.sig_slots if sl.signal.name == "crc_reg"][0]
    residue = params.residue()
    obs = [{"name": f"{name}::register-init", "kind": "post", "status": "proved" if reg.init == algo.initial_crc else "refuted",
            "backend": "closed", "time_s": 0.0}]

    def body(path):
        d.fresh(path)
        d.set(cd.clk, 0)
        d.apply([], path, name + "::pre")
        r, data, start, valid = d.val(reg), d.val(proc.data), d.val(proc.start), d.val(proc.valid)
        path.prove(f"{name}::crc-output", to_sint(d.val(proc.crc)) ==
                   to_sint(S.finalize(r, cw, algo.reflect_output, algo.xor_output)))
        path.prove(f"{name}::match-output", (d.val(proc.match_detected) != 0) ==
                   (to_sint(S.finalize(r, cw, algo.reflect_output, 0)) == residue))
        d.apply([(cd.clk, 1)], path, name + "::post")
        src = ite(start != 0, algo.initial_crc, r)
        stepped = S.step_word(src, data, cw, dw, algo.polynomial, algo.reflect_input)
        if broken:
            stepped = S.step_word(r, data, cw, dw, algo.polynomial, algo.reflect_input)
        exp = ite(valid != 0, stepped, ite(start != 0, algo.initial_crc, r))
        path.prove(f"{name}::register-step", to_sint(d.val(reg)) == to_sint(exp))
    res = runner.from_exploration(name, Exploration(name, body).run())
    res["obligations"] = obs + res["obligations"]
    return res


def unit_params_frame():
    """Frame: building hardware from a Parameters object does not change it -- compute(), residue(), the algorithm fields and a
    SECOND Processor built from the same object are what they were before (closed: catalogue and custom entries with non-zero
    initial value, several data widths; second processor compared with compute() on the real simulator)."""
    from amaranth.lib import crc
    from amaranth.sim import Simulator
    obs = []
    entries = [("CRC16_IBM_3740", crc.catalog.CRC16_IBM_3740, 8), ("CRC32_ISO_HDLC", crc.catalog.CRC32_ISO_HDLC, 8), ("CRC8_AUTOSAR", crc.catalog.CRC8_AUTOSAR, 4),
               ("custom12", crc.Algorithm(crc_width=12, polynomial=0x80F, initial_crc=0xABC, reflect_input=True, reflect_output=False, xor_output=0x5), 6)]
    for nm, algo, dw in entries:
        params = algo(data_width=dw)
        words = [1, (1 << dw) - 1, 5 % (1 << dw)]
        snap = lambda: (params.compute(words), params.compute([]), params.residue(), repr(params.algorithm), params.data_width)
        before = snap()
        proc1 = params.create()
        from amaranth.hdl import Fragment
        Fragment.get(proc1, None)
        after = snap()
        bad = None
        if before != after:
            bad = {"before create()": before, "after create() + elaborate": after}
        else:
            proc2 = params.create()
            got = {}

            async def tb(ctx, proc2=proc2, words=words, got=got):
                ctx.set(proc2.start, 1)
                await ctx.tick()
                ctx.set(proc2.start, 0)
                got["empty"] = ctx.get(proc2.crc)
                for w_ in words:
                    ctx.set(proc2.data, w_)
                    ctx.set(proc2.valid, 1)
                    await ctx.tick()
                ctx.set(proc2.valid, 0)
                got["crc"] = ctx.get(proc2.crc)
            sim = Simulator(proc2)
            sim.add_clock(1e-6)
            sim.add_testbench(tb)
            try:
                sim.run()
            except Exception as e:
                got["raised"] = repr(e)[:200]
            if got != {"empty": before[1], "crc": before[0]}:
                bad = {"second processor built from the same Parameters": got, "compute() says": {"empty": before[1], "crc": before[0]}}
        obs.append({"name": f"params-frame[{nm},dw={dw}]::create-leaves-the-parameters-unchanged", "kind": "post", "status": "proved" if bad is None else "refuted",
                    "backend": "closed", "time_s": 0.0,
                    **({} if bad is None else {"failing_input": {**bad, "how": "params = Algorithm(data_width=dw); params.create(); elaborate; then compute / residue / a second create()"}})})
    return {"task": "params-frame", "paths": len(obs), "solver_s": 0.0, "obligations": obs}


def unit_trailer(cw, dw, refl):
    """For every register value r reached after a message: appending the CRC of that message in transmission
    order drives the register to a state where match holds; any other trailer does not."""
    from amaranth.lib.crc import Algorithm
    name = f"trailer(crc_width={cw},data_width={dw},reflect={refl})"
    polys = {3: [0x3], 6: [0x27, 0x03], 8: [0x07, 0x9b, 0x31], 16: [0x1021, 0x8005], 24: [0x864cfb], 32: [0x04c11db7]}[cw]
    parts = []
    for poly in polys:
        for xor in (0, mask(cw), 0x5a5a5a5a & mask(cw)):
            algo = Algorithm(crc_width=cw, polynomial=poly, initial_crc=0, reflect_input=refl, reflect_output=refl, xor_output=xor)
            params = algo(dw)
            residue = params.residue()
            nwords = cw // dw

            def body(path, algo=algo, residue=residue, poly=poly, xor=xor):
                r = path.var("r", 0, mask(cw))
                t = path.var("trailer", 0, mask(cw))
                c = to_sint(S.finalize(r, cw, refl, xor))        # the CRC of the message so far
                # transmission order: reflected CRCs go out least significant word first, others most significant first
                def words(v):
                    ws = [(v >> (dw * i)) & mask(dw) for i in range(nwords)]
                    return ws if refl else ws[::-1]
                def run(v):
                    reg = r
                    for wv in words(v):
                        reg = S.step_word(reg, wv, cw, dw, poly, refl)
                    return to_sint(S.finalize(reg, cw, refl, 0)) == residue
                path.prove(f"{name}[poly={poly:#x},xor={xor:#x}]::own-crc-matches", run(c))
                path.prove(f"{name}[poly={poly:#x},xor={xor:#x}]::other-trailer-does-not", Implies(t != c, Not(run(t))))
            parts.append(runner.from_exploration(name, Exploration(f"{name}[{poly:#x},{xor:#x}]", body).run()))
    return runner.merge_results(name, parts)


def run_task(task):
    k = task[0]
    if k == "compute":
        return unit_compute(task[1], task[2])
    if k == "compose":
        return unit_compose(task[1], task[2])
    if k == "reflect":
        return unit_reflect()
    if k == "catalogue":
        return unit_catalogue()
    if k == "params-frame":
        return unit_params_frame()
    if k == "loop-shape":
        return unit_loop_shape()
    if k == "processor":
        return unit_processor(task[1])
    if k == "trailer":
        return unit_trailer(task[1], task[2], task[3])
    if k == "canary-compute":
        return unit_compute(4, 3, broken=True)
    if k == "canary-processor":
        return unit_processor(0, broken=True)
    raise KeyError(k)


# ------------------------------------------------------------------------------------------------

def concrete_compute_search():
    import random
    from amaranth.lib.crc import Algorithm
    rnd = random.Random(0)
    for _ in range(4000):
        cw = rnd.randint(1, 16)
        dw = rnd.randint(1, 12)
        a = Algorithm(crc_width=cw, polynomial=rnd.getrandbits(cw), initial_crc=rnd.getrandbits(cw),
                      reflect_input=rnd.random() < .5, reflect_output=rnd.random() < .5, xor_output=rnd.getrandbits(cw))
        data = [rnd.getrandbits(dw) for _ in range(rnd.randint(0, 5))]
        got = a(dw).compute(data)
        want = S.crc_words(data, cw, dw, a.polynomial, a.initial_crc, a.reflect_input, a.reflect_output, a.xor_output)
        if got != want:
            return {"algorithm": repr(a), "data_width": dw, "data": data, "compute": got, "williams model": want,
                    "how": "real Parameters.compute vs spec/crc.py on concrete integers"}
    return None


def concrete_processor_search(label_filter=None):
    import random
    from amaranth.sim import Simulator
    rnd = random.Random(1)
    for (label, algo, dw) in _entries()[:40]:
        params = algo(dw)
        proc = params.create()
        sim = Simulator(proc)
        sim.add_clock(1e-6)
        res = {}

        async def tb(ctx, proc=proc, algo=algo, dw=dw):
            reg = algo.initial_crc
            for cyc in range(40):
                st, va, da = int(rnd.random() < .2), int(rnd.random() < .7), rnd.getrandbits(dw)
                ctx.set(proc.start, st); ctx.set(proc.valid, va); ctx.set(proc.data, da)
                await ctx.tick()
                if va:
                    reg = S.step_word(algo.initial_crc if st else reg, da, algo.crc_width, dw, algo.polynomial, algo.reflect_input)
                elif st:
                    reg = algo.initial_crc
                want = S.finalize(reg, algo.crc_width, algo.reflect_output, algo.xor_output)
                if ctx.get(proc.crc) != want:
                    res["bad"] = {"cycle": cyc, "crc": ctx.get(proc.crc), "expected": want}
                    return
        sim.add_testbench(tb)
        sim.run()
        if "bad" in res:
            return {"entry": label, "data_width": dw, **res["bad"], "how": "real Simulator, random start/valid/data pattern (seed 1)"}
    return None


def find_failing_input(res, ob):
    nm = ob["name"]
    if nm.startswith("compute") or nm.startswith("compose"):
        return concrete_compute_search() or ({"model": ob.get("model"), "how": "exact counter-model: fields of Parameters and data word"} if ob.get("model") else None)
    if nm.startswith("Processor"):
        return concrete_processor_search() or ({"model": ob.get("model"), "how": "exact counter-model of the generated Processor code"} if ob.get("model") else None)
    if ob.get("model"):
        return {"model": ob["model"], "how": "exact counter-model; obligation " + nm}
    return None


def replay(data):
    nm = data["obligation"]
    if nm.startswith(("compute", "compose")):
        return concrete_compute_search() is not None
    if nm.startswith("Processor"):
        return concrete_processor_search() is not None
    for t in tasks("quick"):
        if t[0] in ("trailer", "catalogue", "reflect", "loop-shape", "params-frame"):
            r = run_task(t)
            if any(o["name"] == nm and o["status"] == "refuted" for o in r["obligations"]):
                return True
    return False
