"""C14 -- interface signatures, flipping and connect() preserve direction and data flow.

The real `lib.wiring` code (reflective proxies, generators and all) is executed natively; what is enumerated is the
STRUCTURE (signature trees to depth 3 over a pool of port members with dimensions, shapes incl. signed / struct / enum,
initial values; nested signature members In/Out with dimensions; tuples of interfaces derived by flipping); what is
universally quantified is every VALUE carried by every leaf.

 flip       per tree: `sig.flip().flip() == sig` (and is the same members, leaf by leaf); one flip reverses the effective
            direction of every leaf and keeps shape, initial value and dimensions; `flipped(flipped(obj)) is obj`
 create     `sig.create()` complies with `sig`; `flipped(obj)` complies with `sig.flip()`; every leaf value is a signal
            of the leaf's shape and initial value
 flatten    `sig.flatten(obj)` visits every leaf of the reference expansion (dimensions unrolled) exactly once with its
            effective direction
 connect    for tuples of 2 and 3 interfaces with exactly one output per leaf (objects created from the tree and its flip,
            FlippedInterface proxies included, every argument order): the statements `connect` adds to the module, run
            under the reference statement semantics with SYMBOLIC leaf values, make every input leaf equal the output
            leaf of the same path for ALL values; exactly the input leaves are driven (no output, no constant); the
            driven set and values do not depend on argument order
 constants  an input leaf that is a constant is never driven and accepts only an equal constant output
 errors     single-point corruptions of a compliant tuple (missing member, extra member, width, initial value, two
            outputs on a leaf, port vs signature member, constant mismatch, constant input vs varying output, inputs
            only) raise ConnectionError and add nothing to the module
 metadata   `Component.metadata.as_json()` lists every leaf with its true direction, width, signedness and initial value
            and validates against its published schema
"""
import itertools

from pyvc.explore import Exploration
from pyvc.sym import to_sint, And
from pyvc import runner, source
from spec.sem import mask, Env, shape_range
from spec.stmt import exec_stmts, driven_masks

PROPERTY = "C14"

META = {
    "level": "proof",
    "trusted_base": [
        "pyvc symbolic integer encoding; z3",
        "reference expansion of a signature description in this file (flip = reverse every leaf below)",
        "spec/sem.py / spec/stmt.py statement semantics (shared with C02): what a module's comb statements do in simulation "
        "and synthesis is C02's / C04's",
    ],
    "assumptions": [
        "signature trees enumerated: depth <= 3 quick / 4 thorough, <= 2 members per level from the listed pool, dimensions () (2,) (2,1) (2,3), "
        "plus 30 (quick) / 250 (thorough) trees drawn with a fixed seed (depth <= 3, 1-3 members per level, dimensions up to 2-D)",
        "tuples: 2 and 3 interfaces, all argument orders",
        "closed (structural) obligations are exhaustive over the enumerated trees, not a proof over all trees",
    ],
    "bounds": {"quick": {"depth": 3}, "thorough": {"depth": 4}},
    "explanation": "structure enumerated, leaf values universally quantified; connect() data flow through the reference statement semantics",
}


def functions():
    f = "amaranth/lib/wiring.py"
    return [source.describe(f, q, arith="closed / values symbolic", bound="trees enumerated")
            for q in ("Flow.flip", "Member.flip", "Member.array", "Member.signature", "SignatureMembers.flatten", "SignatureMembers.create",
                      "FlippedSignatureMembers.__getitem__", "Signature.flip", "Signature.flatten", "Signature.is_compliant", "Signature.create",
                      "FlippedSignature.flip", "FlippedInterface.__getattr__", "flipped", "connect", "ComponentMetadata.as_json")]


# ------------------------------------------------------------------------------------------------
# descriptions:  signature = tuple of members (name, flow 'i'/'o', kind, payload, dims)
#   kind 'p': payload = (shape key, init)      kind 's': payload = signature description
#   kind 'f': payload = signature description, the member is declared with the FLIPPED signature: In(sub.flip()) / Out(sub.flip())

_SHAPES = []


def _shapes():
    if not _SHAPES:
        _SHAPES.append(_make_shapes())
    return _SHAPES[0]


def _make_shapes():
    from amaranth.hdl import unsigned, signed
    from amaranth.lib import data, enum

    class E(enum.Enum, shape=2):
        A = 0
        B = 2
    L = data.StructLayout({"x": 2, "y": signed(2)})
    return {"u2": unsigned(2), "s3": signed(3), "u1": unsigned(1), "st": L, "en": E, "u0": unsigned(0)}, E


PORTS = [("o", ("u2", 1), ()), ("i", ("s3", -2), ()), ("o", ("u1", 0), (2,)), ("i", ("st", None), ()), ("o", ("en", None), (2, 1)),
         ("i", ("u0", 0), ())]


def trees(depth):
    """signature descriptions up to the given depth"""
    level0 = []
    for k in range(len(PORTS)):
        f, pl, dims = PORTS[k]
        level0.append((("a", f, "p", pl, dims),))
    for k, j in ((0, 1), (2, 3), (1, 4), (0, 5)):
        level0.append((("a",) + (PORTS[k][0], "p", PORTS[k][1], PORTS[k][2]), ("b",) + (PORTS[j][0], "p", PORTS[j][1], PORTS[j][2])))
    out = list(level0)
    prev = level0
    for d in range(1, depth):
        reps = [prev[1], prev[6 if len(prev) > 6 else -1], prev[-2]]
        cur = []
        for sub in reps:
            for f in ("i", "o"):
                for dims in ((), (2,)):
                    cur.append((("s", f, "s", sub, dims),))
            cur.append((("s", "i", "s", sub, (2, 3)),))          # a two-dimensional array of sub-interfaces
            cur.append((("p",) + (PORTS[0][0], "p", PORTS[0][1], PORTS[0][2]), ("s", "i", "s", sub, (2,))))
            cur.append((("s", "o", "s", sub, ()), ("t", "i", "s", sub, ())))
        out += cur
        prev = cur
    if depth >= 3:
        # paths whose tails repeat at different depths (a.b.c next to b.c, s.s.a next to s.a)
        leaf = ("c", "o", "p", ("u2", 1), ())
        leaf_i = ("c", "i", "p", ("u2", 1), ())
        out.append((("a", "o", "s", (("b", "o", "s", (leaf,), ()),), ()), ("b", "o", "s", (leaf,), ())))
        out.append((("a", "i", "s", (("b", "i", "s", (leaf_i,), ()),), ()), ("b", "o", "s", (leaf_i,), ())))
        out.append((("s", "o", "s", (("s", "i", "s", (("s", "o", "p", ("s3", -2), (2,)),), ()),), ()),))
    # members declared with a flipped sub-signature, in every flow, plain, in arrays and nested
    sub = level0[6 if len(level0) > 6 else -1]
    for f in ("i", "o"):
        out.append((("s", f, "f", sub, ()),))
        out.append((("s", f, "f", sub, (2,)), ("t", "o", "s", sub, ())))
        out.append((("a", f, "s", (("b", "i", "f", sub, ()), ("c", "o", "p", ("u2", 1), ())), ()),))
        out.append((("a", f, "f", (("b", "o", "f", sub, (2,)),), ()),))
    return out


class _Lcg:
    def __init__(self, seed):
        self.x = seed & 0xFFFFFFFF

    def next(self, n):
        self.x = (1103515245 * self.x + 12345) & 0x7FFFFFFF
        return (self.x >> 8) % n

    def pick(self, xs):
        return xs[self.next(len(xs))]


def _gen_tree(g, depth=0):
    """a signature description drawn at random (fixed seed): 1-3 members per level, ports of every listed shape, nested
    signatures up to depth 3, flows and array dimensions (none, 1-D, 2-D, with a dimension of 1) at every level"""
    names = ["a", "b", "s", "c"]
    n = 1 + g.next(3)
    out = []
    start = g.next(len(names))
    for i in range(n):
        name = names[(start + i) % len(names)]
        flow = g.pick("io")
        dims = g.pick([(), (), (), (2,), (1,), (2, 2), (1, 3)]) if depth < 2 else g.pick([(), (), (2,)])
        if depth < 2 and g.next(5) < 2:
            out.append((name, flow, "f" if g.next(3) == 0 else "s", _gen_tree(g, depth + 1), dims))
        else:
            pf, pl, _pd = PORTS[g.next(len(PORTS))]
            out.append((name, flow, "p", pl, dims))
    return tuple(out)


N_GENERATED = {"quick": 30, "thorough": 250}
_g = _Lcg(14092026)
GENERATED = [_gen_tree(_g) for _ in range(N_GENERATED["thorough"])]


def all_trees(tier):
    return trees(META["bounds"][tier]["depth"]) + GENERATED[:N_GENERATED["quick" if tier == "quick" else "thorough"]]


def build_sig(desc):
    from amaranth.lib.wiring import Signature, In, Out
    shapes, _E = _shapes()
    members = {}
    for (name, flow, kind, payload, dims) in desc:
        ctor = In if flow == "i" else Out
        if kind == "p":
            shp, init = payload
            m = ctor(shapes[shp], init=init) if init is not None else ctor(shapes[shp])
        elif kind == "f":
            m = ctor(build_sig(payload).flip())
        else:
            m = ctor(build_sig(payload))
        if dims:
            m = m.array(*dims)
        members[name] = m
    return Signature(members)


def ref_leaves(desc, flipped=False, prefix=()):
    """reference expansion: [(path incl. indices, effective flow 'i'/'o', shape key, init)]"""
    out = []
    for (name, flow, kind, payload, dims) in desc:
        eff = flow if not flipped else ("i" if flow == "o" else "o")
        for idx in itertools.product(*[range(n) for n in dims]):
            path = prefix + (name,) + idx
            if kind == "p":
                out.append((path, eff, payload[0], payload[1]))
            else:
                # a nested signature member with effective flow In is seen flipped; one declared with sub.flip() once more
                out += ref_leaves(payload, flipped=(eff == "i") != (kind == "f"), prefix=path)
    return out


def _leaf_signals(sig, obj):
    """[(path, flow 'i'/'o', Value)] through the real flatten"""
    from amaranth.hdl import Value
    from amaranth.lib.wiring import In
    out = []
    for path, member, value in sig.flatten(obj):
        out.append((path, "i" if member.flow == In else "o", value))
    return out


def has_sig_dims(desc):
    return any(kind in ("s", "f") and (dims or has_sig_dims(payload)) for (_n, _f, kind, payload, dims) in desc)


def tree_name(k, desc):
    return f"tree{k}" + ("+sigdims" if has_sig_dims(desc) else "")


def _closed(name, ok, fi=None):
    return {"name": name, "kind": "post", "status": "proved" if ok else "refuted", "backend": "closed", "time_s": 0.0,
            **({} if ok else {"failing_input": fi or {"what": name}})}


# ------------------------------------------------------------------------------------------------

def check_structure(k, desc):
    from amaranth.hdl import Signal, Shape, Value, Const
    from amaranth.lib.wiring import flipped, In, Out
    shapes, _E = _shapes()
    name = tree_name(k, desc)
    obs = []
    fi = {"signature": repr(desc)}
    sig = build_sig(desc)
    fl = sig.flip()
    obs.append(_closed(f"{name}::flip-twice-is-original", fl.flip() == sig and sig.flip().flip().members == sig.members, fi))
    obs.append(_closed(f"{name}::flip-is-not-original-unless-empty", (fl != sig) or not ref_leaves(desc), fi))
    for (mname, mflow, mkind, mpayload, mdims) in desc:
        if mkind in ("s", "f"):
            subsig = build_sig(mpayload)
            want_sig = subsig.flip() if (mflow == "i") != (mkind == "f") else subsig
            got_sig = sig.members[mname].signature
            obs.append(_closed(f"{name}::member[{mname}]::signature-is-the-sub-signature-as-seen-from-outside",
                               got_sig == want_sig and got_sig.flip() == want_sig.flip() and got_sig.flip().flip() == got_sig
                               and type(got_sig.flip().flip()) is type(got_sig),
                               {**fi, "member": mname, "member.signature": repr(got_sig), "expected": repr(want_sig)}))
    obj = sig.create(path=("obj",))
    obs.append(_closed(f"{name}::created-object-complies", sig.is_compliant(obj), fi))
    fobj = flipped(obj)
    obs.append(_closed(f"{name}::flipped-object-complies-with-flipped-signature", fl.is_compliant(fobj) and fobj.signature == fl, fi))
    obs.append(_closed(f"{name}::flipped-twice-is-the-object", flipped(fobj) is obj, fi))
    for label, s, o, flp in (("plain", sig, obj, False), ("flipped", fl, fobj, True)):
        want = ref_leaves(desc, flipped=flp)
        got = _leaf_signals(s, o)
        paths_ok = sorted(p for p, _f, _v in got) == sorted(p for p, _f, _s, _i in want) and len(got) == len({p for p, _f, _v in got})
        obs.append(_closed(f"{name}::flatten[{label}]::every-leaf-exactly-once", paths_ok,
                           {**fi, "flatten paths": [p for p, _f, _v in got], "reference": [p for p, _f, _s, _i in want]}))
        wd = {p: (f, sk, init) for p, f, sk, init in want}
        flow_ok = all(p in wd and wd[p][0] == f for p, f, _v in got)
        obs.append(_closed(f"{name}::flatten[{label}]::effective-direction", flow_ok,
                           {**fi, "flatten": [(p, f) for p, f, _v in got], "reference": [(p, f) for p, f, _s, _i in want]}))
        shape_ok = True
        for p, f, v in got:
            if p not in wd:
                continue
            sk, init = wd[p][1], wd[p][2]
            val = Value.cast(v)
            sh = Shape.cast(shapes[sk])
            if not isinstance(val, Signal) or val.shape() != sh:
                shape_ok = False
            elif init is not None and val.init != Const(init, sh).value:
                shape_ok = False
        obs.append(_closed(f"{name}::flatten[{label}]::leaf-shape-and-initial-value", shape_ok, fi))
    # the two flattenings talk about the same signals, with opposite directions
    a, b = _leaf_signals(sig, obj), _leaf_signals(fl, fobj)
    same = len(a) == len(b) and all(pa == pb and fa != fb and Value.cast(va) is Value.cast(vb) for (pa, fa, va), (pb, fb, vb) in zip(sorted(a, key=lambda t: repr(t[0])), sorted(b, key=lambda t: repr(t[0]))))
    obs.append(_closed(f"{name}::one-flip-reverses-every-leaf", same, fi))
    return {"task": name, "paths": 0, "solver_s": 0.0, "obligations": obs}


def _tuples(sig, desc):
    """(label, builder) -> list of interface objects with exactly one output per leaf"""
    from amaranth.lib.wiring import flipped
    fl = sig.flip()
    flows = {f for _p, f, _s, _i in ref_leaves(desc)}

    def two():
        return [sig.create(path=("a",)), fl.create(path=("b",))]

    def three():
        return [sig.create(path=("a",)), fl.create(path=("b",)), fl.create(path=("c",))]

    def proxies():
        return [flipped(fl.create(path=("a",))), flipped(sig.create(path=("b",)))]
    def three_rev():
        return [fl.create(path=("a",)), sig.create(path=("b",)), sig.create(path=("c",))]
    out = [("pair", two), ("proxies", proxies)]
    if flows == {"o"}:
        out.append(("triple", three))          # one driver, two listeners on every leaf
    elif flows == {"i"}:
        out.append(("triple", three_rev))
    return out


def check_connect(k, desc, broken=False):
    from amaranth.hdl import Module, Value, Fragment, Signal
    from amaranth.lib.wiring import connect
    name = tree_name(k, desc)
    sig = build_sig(desc)
    parts = []
    for label, build in _tuples(sig, desc):
        objs = build()
        n = len(objs)
        results = {}
        failed = None
        for perm in itertools.permutations(range(n)):
            m = Module()
            try:
                connect(m, *[objs[i] for i in perm])
            except Exception as e:
                import traceback
                failed = {"signature": repr(desc), "interfaces": label, "argument order": perm, "exception": repr(e)[:300],
                          "traceback": traceback.format_exc()[-700:],
                          "how": "sig = checks.c14.build_sig(desc); connect(Module(), sig.create(), sig.flip().create())"}
                break
            stmts = Fragment.get(m, None).statements.get("comb", [])
            results[perm] = stmts
        parts.append({"task": name, "paths": 0, "solver_s": 0.0, "obligations": [_closed(f"{name}::connect[{label}]::no-exception", failed is None, failed)]})
        if failed is not None:
            continue
        leaves = []          # (obj index, path, flow, signal)
        for i, o in enumerate(objs):
            for p, f, v in _leaf_signals(o.signature, o):
                leaves.append((i, p, f, Value.cast(v)))
        by_path = {}
        for i, p, f, s in leaves:
            by_path.setdefault(p, []).append((i, f, s))

        def body(path, label=label, results=results, leaves=leaves, by_path=by_path):
            env = Env()
            for i, p, f, s in leaves:
                if len(s) == 0:
                    env[s] = 0
                    continue
                sh = s.shape()
                lo, hi = shape_range(sh.width, sh.signed)
                env[s] = path.var(f"v{i}_{'_'.join(map(str, p))}", lo, hi)
            first = None
            for perm, stmts in results.items():
                new = Env(env)
                exec_stmts(stmts, env, new)
                masks, _t = driven_masks(stmts)
                tag = "".join(map(str, perm))
                for p, group in by_path.items():
                    outs = [(i, s) for i, f, s in group if f == "o"]
                    ins = [(i, s) for i, f, s in group if f == "i"]
                    pn = "_".join(map(str, p))
                    for i, s in outs:
                        path.prove(f"{name}::connect[{label}]::output-not-driven", masks.get(id(s), 0) == 0 if not broken else masks.get(id(s), 0) != 0)
                    if len(outs) == 1:
                        src = outs[0][1]
                        for i, s in ins:
                            w = len(s)
                            path.prove(f"{name}::connect[{label}]::input-follows-output", (to_sint(new[s]) & mask(w)) == (to_sint(env[src]) & mask(w)))
                            path.prove(f"{name}::connect[{label}]::input-fully-driven", masks.get(id(s), 0) == mask(w))
                snapshot = sorted((id(s), masks.get(id(s), 0)) for _i, _p, _f, s in leaves)
                if first is None:
                    first = (snapshot, new)
                else:
                    path.prove(f"{name}::connect[{label}]::independent-of-argument-order",
                               And(snapshot == first[0], *[to_sint(new[s]) == to_sint(first[1][s]) for _i, _p, _f, s in leaves]))
            path.prove(f"{name}::connect[{label}]::connected", True)
        parts.append(runner.from_exploration(name, Exploration(f"{name}::connect[{label}]", body).run()))
    return runner.merge_results(name, parts)


def check_errors():
    """single-point corruptions of a compliant pair"""
    from types import SimpleNamespace
    from amaranth.hdl import Module, Signal, Const, Fragment
    from amaranth.lib.wiring import Signature, In, Out, connect, ConnectionError as WCE, flipped
    obs = []

    def case(label, builder, expect_error):
        m = Module()
        try:
            builder(m)
            raised = False
        except WCE:
            raised = True
        except Exception as e:
            raised = f"{type(e).__name__}: {e}"[:200]
        stmts = Fragment.get(m, None).statements.get("comb", [])
        ok = raised == expect_error and (not raised or not stmts)
        obs.append(_closed(f"errors::{label}", ok, {"case": label, "ConnectionError": raised, "expected": expect_error, "statements added": len(stmts)}))
    base = Signature({"a": Out(2, init=1), "b": In(3), "s": Out(Signature({"x": In(1), "y": Out(1).array(2)}))})
    ok_pair = lambda: (base.create(path=("p",)), base.flip().create(path=("q",)))
    case("compliant-pair-accepted", lambda m: connect(m, *ok_pair()), False)
    case("single-interface-accepted", lambda m: connect(m, ok_pair()[0]), False)

    def missing(m):
        p, q = ok_pair()
        del q.b
        connect(m, p, q)
    case("member-missing-from-object", missing, True)
    other = lambda members: Signature(members)
    case("member-missing-from-signature", lambda m: connect(m, ok_pair()[0], other({"a": In(2, init=1), "s": In(Signature({"x": In(1), "y": Out(1).array(2)}))}).create()), True)
    case("extra-member", lambda m: connect(m, ok_pair()[0], other({"a": In(2, init=1), "b": Out(3), "c": In(1), "s": In(Signature({"x": In(1), "y": Out(1).array(2)}))}).create()), True)
    case("width-mismatch", lambda m: connect(m, ok_pair()[0], other({"a": In(3, init=1), "b": Out(3), "s": In(Signature({"x": In(1), "y": Out(1).array(2)}))}).create()), True)
    case("initial-value-mismatch", lambda m: connect(m, ok_pair()[0], other({"a": In(2, init=2), "b": Out(3), "s": In(Signature({"x": In(1), "y": Out(1).array(2)}))}).create()), True)
    case("initial-value-unspecified-vs-nonzero", lambda m: connect(m, Signature({"a": Out(8, init=5)}).create(), Signature({"a": In(8)}).create()), True)
    case("initial-value-unspecified-vs-nonzero-reversed", lambda m: connect(m, Signature({"a": In(8)}).create(), Signature({"a": Out(8, init=5)}).create()), True)
    case("initial-value-unspecified-vs-nonzero-nested", lambda m: connect(m, Signature({"s": Out(Signature({"a": Out(4, init=-3).array(2)}))}).create(),
                                                                                 Signature({"s": In(Signature({"a": Out(4).array(2)}))}).create()), True)
    case("initial-value-unspecified-equals-zero", lambda m: connect(m, Signature({"a": Out(8, init=0)}).create(), Signature({"a": In(8)}).create()), False)
    case("dimension-mismatch", lambda m: connect(m, ok_pair()[0], other({"a": In(2, init=1), "b": Out(3), "s": In(Signature({"x": In(1), "y": Out(1).array(3)}))}).create()), True)
    sub = lambda n: Signature({"x": In(1), "y": Out(1).array(2)})
    arr_a = Signature({"v": Out(sub(0)).array(2)})
    arr_b = Signature({"v": In(sub(0)).array(3)})
    arr_c = Signature({"v": In(sub(0))})
    case("signature-member-dimension-mismatch", lambda m: connect(m, arr_a.create(), arr_b.create()), True)
    case("signature-member-with-and-without-dimensions", lambda m: connect(m, arr_a.create(), arr_c.create()), True)
    case("signature-member-dimensions-accepted", lambda m: connect(m, arr_a.create(), arr_a.flip().create()), False)
    case("nested-leaf-width-mismatch", lambda m: connect(m, ok_pair()[0], other({"a": In(2, init=1), "b": Out(3), "s": In(Signature({"x": In(2), "y": Out(1).array(2)}))}).create()), True)
    case("two-outputs-on-a-leaf", lambda m: connect(m, base.create(), base.create()), True)
    case("port-vs-signature-member", lambda m: connect(m, ok_pair()[0], other({"a": In(2, init=1), "b": Out(3), "s": In(1)}).create()), True)
    case("inputs-only", lambda m: connect(m, Signature({"a": In(1)}).create(), Signature({"a": In(1)}).create()), True)
    case("signedness-may-differ", lambda m: connect(m, Signature({"a": Out(2)}).create(), Signature({"a": In(__import__("amaranth").hdl.signed(2))}).create()), False)
    # constants
    csig_o, csig_i = Signature({"k": Out(2)}), Signature({"k": In(2)})
    mk = lambda sig, v: SimpleNamespace(signature=sig, k=v)
    case("constant-input-equal-constant-output", lambda m: connect(m, mk(csig_o, Const(2, 2)), mk(csig_i, Const(2, 2))), False)
    case("constant-input-different-constant-output", lambda m: connect(m, mk(csig_o, Const(1, 2)), mk(csig_i, Const(2, 2))), True)
    case("constant-input-varying-output", lambda m: connect(m, mk(csig_o, Signal(2)), mk(csig_i, Const(2, 2))), True)

    # constants that are not hdl.Const objects: a plain integer, a member of a shaped enumeration, a layout constant -- as the
    # input leaf and as the output leaf, equal and different, and against a varying output; in arrays too
    from amaranth.lib import data as _data, enum as _aenum

    class _K(_aenum.Enum, shape=2):
        A = 0
        B = 2
    _L = _data.StructLayout({"x": 1, "y": 1})
    esig_o, esig_i = Signature({"k": Out(_K)}), Signature({"k": In(_K)})
    lsig_o, lsig_i = Signature({"k": Out(_L)}), Signature({"k": In(_L)})
    asig_o, asig_i = Signature({"k": Out(2).array(2)}), Signature({"k": In(2).array(2)})
    forms = [
        ("int", csig_o, csig_i, 2, 3, lambda: Signal(2)),
        ("enum-member", esig_o, esig_i, _K.B, _K.A, lambda: Signal(_K)),
        ("layout-constant", lsig_o, lsig_i, _L.const({"x": 1, "y": 0}), _L.const({"x": 0, "y": 1}), lambda: Signal(_L)),
        ("array-of-ints", asig_o, asig_i, [2, 3], [3, 3], lambda: [Signal(2), Signal(2)]),
    ]
    for label, so, si, same, other_v, var in forms:
        case(f"constant-input[{label}]-equal-constant-output", lambda m, so=so, si=si, same=same: connect(m, mk(so, same), mk(si, same)), False)
        case(f"constant-input[{label}]-different-constant-output", lambda m, so=so, si=si, same=same, other_v=other_v: connect(m, mk(so, other_v), mk(si, same)), True)
        case(f"constant-input[{label}]-varying-output", lambda m, so=so, si=si, same=same, var=var: connect(m, mk(so, var()), mk(si, same)), True)

        def _adds_nothing(m, so=so, si=si, same=same):
            connect(m, mk(so, same), mk(si, same))
        mm = Module()
        try:
            _adds_nothing(mm)
            n_st = len(Fragment.get(mm, None).statements.get("comb", []))
        except Exception as e:
            n_st = repr(e)[:200]
        obs.append(_closed(f"errors::constant-input[{label}]-is-never-driven", n_st == 0, {"statements added / exception": n_st, "form": label}))

    # a port member whose shape is a shape-castable with a NON-ZERO default constant (a Struct class with declared field
    # values) and no explicit init=: created objects start from that default, comply, and connect
    class _Pixel(_data.Struct):
        r: 4 = 5
        g: 4 = 3
    psig = Signature({"p": Out(_Pixel), "q": In(_Pixel).array(2)})
    pobj = psig.create()
    fobj = psig.flip().create()
    from amaranth.hdl import Value as _Value
    obs.append(_closed("errors::shape-castable-default::created-signals-start-from-the-default",
                       _Value.cast(pobj.p).init == 0x35 and all(_Value.cast(x).init == 0x35 for x in pobj.q),
                       {"init of the created signal": _Value.cast(pobj.p).init, "expected": 0x35}))
    obs.append(_closed("errors::shape-castable-default::created-objects-comply", psig.is_compliant(pobj) and psig.flip().is_compliant(fobj),
                       {"what": "Signature({'p': Out(Pixel)}).create() does not comply with its own signature (Pixel: Struct with r=5, g=3)"}))
    case("shape-castable-default-connects", lambda m: connect(m, psig.create(), psig.flip().create()), False)
    case("shape-castable-default-vs-explicit-equal-init", lambda m: connect(m, psig.create(), Signature({"p": In(_Pixel, init={"r": 5, "g": 3}), "q": Out(_Pixel).array(2)}).create()), False)
    case("shape-castable-default-vs-zero-init", lambda m: connect(m, psig.create(), Signature({"p": In(_Pixel, init={"r": 0, "g": 0}), "q": Out(_Pixel).array(2)}).create()), True)

    def const_not_driven(m):
        connect(m, mk(csig_o, Const(2, 2)), mk(csig_i, Const(2, 2)), mk(csig_i, Signal(2, name="sink")))
    m = Module()
    const_not_driven(m)
    stmts = Fragment.get(m, None).statements.get("comb", [])
    ok = len(stmts) == 1 and repr(stmts[0].lhs) == "(sig sink)"
    obs.append(_closed("errors::constant-output-drives-only-signal-inputs", ok, {"statements": [repr(s) for s in stmts]}))
    return {"task": "errors", "paths": 0, "solver_s": 0.0, "obligations": obs}


def check_metadata(k, desc):
    from amaranth.hdl import Shape, Const
    from amaranth.lib import wiring
    from amaranth.lib.wiring import In
    shapes, _E = _shapes()
    name = tree_name(k, desc)
    sig = build_sig(desc)

    class C(wiring.Component):
        def __init__(self):
            super().__init__(sig)

        def elaborate(self, platform):
            from amaranth.hdl import Module
            return Module()
    c = C()
    obs = []
    fi = {"signature": repr(desc)}
    try:
        js = c.metadata.as_json()
        c.metadata.validate(js)
        valid = True
    except Exception as e:
        js, valid = None, False
        fi["exception"] = repr(e)[:300]
    obs.append(_closed(f"{name}::metadata::validates-against-schema", valid, fi))
    if js is not None:
        # walk the json: {"interface": {"members": {name: {"type": "port"|"interface", ...}}}}
        def walk(members, prefix):
            out = []
            for nm, mem in members.items():
                def expand(node, path):
                    if isinstance(node, list):
                        for i, sub in enumerate(node):
                            yield from expand(sub, path + (i,))
                    else:
                        yield path, node
                for path, node in expand(mem, prefix + (nm,)):
                    if node["type"] == "port":
                        out.append((path, node))
                    else:
                        out += walk(node["members"], path)
            return out
        got = walk(js["interface"]["members"], ())
        want = ref_leaves(desc)
        wd = {p: (f, sk, init) for p, f, sk, init in want}
        ok = sorted(map(repr, (p for p, _n in got))) == sorted(map(repr, wd)) and len(got) == len(wd)
        detail = []
        for p, node in got:
            if p not in wd:
                ok = False
                continue
            f, sk, init = wd[p]
            sh = Shape.cast(shapes[sk])
            exp_init = Const(init if init is not None else 0, sh).value if not hasattr(shapes[sk], "const") else None
            good = node["dir"] == ("in" if f == "i" else "out") and node["width"] == sh.width and node["signed"] == sh.signed
            if exp_init is not None:
                good = good and int(node["init"]) == exp_init
            if not good:
                ok = False
                detail.append((p, node))
        obs.append(_closed(f"{name}::metadata::every-leaf-with-direction-width-signedness-init", ok, {**fi, "mismatches": repr(detail)[:400]}))
    return {"task": f"{name}::metadata", "paths": 0, "solver_s": 0.0, "obligations": obs}


def check_metadata_aggregates():
    """component metadata for ports with aggregate shapes whose initial value is given as a dict / list / enum member: every
    leaf is listed with the packed initial value, width and signedness of its shape"""
    from amaranth.hdl import Shape, Const, signed
    from amaranth.lib import wiring, data, enum
    from amaranth.lib.wiring import In, Out, Signature

    class Kind(enum.Enum, shape=2):
        A = 0
        B = 2
    S = data.StructLayout({"x": 2, "y": signed(2)})
    AL = data.ArrayLayout(3, 2)
    cases = {
        "st": (S, {"x": 1, "y": -1}), "ar": (AL, [5, 2]), "en": (Kind, Kind.B), "sg": (signed(4), -3),
        "un": (data.UnionLayout({"a": 3, "b": 2}), {"a": 5}),
    }
    sig = Signature({"p": Out(Signature({n: (In if k % 2 else Out)(sh, init=iv) for k, (n, (sh, iv)) in enumerate(cases.items())})).array(2),
                     **{n: Out(sh, init=iv) for n, (sh, iv) in cases.items()}})

    class C(wiring.Component):
        def __init__(self):
            super().__init__(sig)

        def elaborate(self, platform):
            from amaranth.hdl import Module
            return Module()
    obs = []
    try:
        js = C().metadata.as_json()
        C().metadata.validate(js)
        err = None
    except Exception as e:
        js, err = None, repr(e)[:300]
    obs.append(_closed("metadata[aggregates]::as_json-and-validate", err is None, {"exception": err, "signature": repr(sig)[:300]}))
    if js is not None:
        def leaf(node, path):
            for step in path:
                node = node["members"][step] if isinstance(step, str) else node[step]
            return node
        bad = []
        top = js["interface"]
        for n, (sh, iv) in cases.items():
            want_init = Shape.cast(sh)
            want = sh.const(iv).as_value().value if hasattr(sh, "const") else Const(iv, sh).value
            cs = Shape.cast(sh)
            for path in ((n,), ("p", 0, n), ("p", 1, n)):
                node = leaf(top, path)
                if not (node["type"] == "port" and int(node["init"]) == want and node["width"] == cs.width and node["signed"] == cs.signed):
                    bad.append((path, node, want))
        obs.append(_closed("metadata[aggregates]::packed-initial-values", not bad, {"mismatches": repr(bad)[:500]}))
    return {"task": "metadata-aggregates", "paths": 0, "solver_s": 0.0, "obligations": obs}


# ------------------------------------------------------------------------------------------------

def tasks(tier):
    ts = []
    tr = all_trees(tier)
    for k in range(len(tr)):
        ts += [("structure", tier, k), ("connect", tier, k), ("metadata", tier, k)]
    ts.append(("errors",))
    ts.append(("metadata-aggregates",))
    return ts


def canaries(tier):
    return [("canary-connect",)]


def run_task(task):
    k = task[0]
    if k in ("structure", "connect", "metadata"):
        desc = all_trees(task[1])[task[2]]
        fn = {"structure": check_structure, "connect": check_connect, "metadata": check_metadata}[k]
        return fn(task[2], desc)
    if k == "errors":
        return check_errors()
    if k == "metadata-aggregates":
        return check_metadata_aggregates()
    if k == "canary-connect":
        return check_connect(0, trees(2)[6], broken=True)
    raise KeyError(k)


def find_failing_input(res, ob):
    if ob.get("failing_input"):
        return ob["failing_input"]
    if ob.get("model") is not None:
        return {"model": ob["model"], "how": "leaf values (v<object>_<path>) for which the statements connect() added do not make the input leaf "
                "follow the output leaf under the reference statement semantics; obligation " + ob["name"]}
    return None


def replay(data):
    for t in tasks("quick"):
        r = run_task(t)
        if any(o["name"] == data["obligation"] and o["status"] == "refuted" for o in r["obligations"]):
            return True
    return False
