"""C15 -- data layouts and shaped enumerations obey the shape-castable laws.

Function contracts on the real `amaranth.lib.data` / `amaranth.lib.enum`, executed on symbolic raw bit
patterns and field values (all values; layouts enumerated):

  placement     closed: struct fields contiguous in declaration order, union fields at offset 0 with the size of the
                largest, array element i at i * element width, flexible layout bounds check
  bits          data.Const(layout, raw).as_bits() == raw; from_bits is the same constructor; rejects raw outside range
  field-read    data.Const.__getitem__ on every field / element / slice == (raw >> offset) & mask reinterpreted in the
                field's shape (signed, range-shaped and enumeration fields included; nested layouts return a Const
                of the sub-layout holding the sub-bits)
  const         Layout.const(init): reading every field back returns the initialiser value wrapped to the field's
                shape (struct, array, nested); for a union the written field; unspecified fields are 0
  view          View.__getitem__ builds an expression whose value (reference semantics `sem`) equals the same
                arithmetic for EVERY raw pattern -- static fields, array elements with constant and run-time index,
                array slices, signed / range / enum fields
  view-assign   `view.field.eq(v)` changes exactly the field's bits of the underlying signal (reference assignment)
  enum          shaped Enum/Flag: const(member) / from_bits round trip for every member; FlagView ~ & | ^ equal
                Python's enum.Flag operators for every pair of member combinations (finite, exhaustive), including
                flag classes with multi-bit alias members and gaps
"""
import enum as py_enum
import itertools

from pyvc.explore import Exploration
from pyvc.sym import SInt, to_sint, And, Or, Not, Implies, ite
from pyvc.shims import shimmed
from pyvc import runner, source
from spec.sem import sem, Env, norm, mask, shape_range, assign

PROPERTY = "C15"

META = {
    "level": "proof",
    "trusted_base": [
        "pyvc symbolic integer encoding; z3 / cvc5",
        "module-global shims (int / isinstance / range / len / operator.index) in amaranth.lib.data, amaranth.hdl._ast, "
        "amaranth.utils for the duration of a run; identity on concrete values",
        "spec/sem.py `sem` / `assign` for the expressions a View builds (shared with C01/C02)",
    ],
    "assumptions": [
        "layout trees enumerated (listed in LAYOUTS; nesting depth <= 2, field widths <= 4, arrays <= 4 elements); all "
        "raw patterns and field values per layout",
        "Struct/Union classes: only _AggregateMeta.const (three classes, every pair of calls); class creation, inheritance and annotations are not decided",
        "flag operators: exhaustive over all value pairs of the listed flag classes",
    ],
    "bounds": {"quick": {}, "thorough": {}},
    "explanation": "function contracts on layout arithmetic and view construction",
}


def functions():
    f = "amaranth/lib/data.py"
    out = [source.describe(f, q, arith="exact (bit-vector) / closed", bound="layouts enumerated")
           for q in ("StructLayout.__init__", "UnionLayout.__init__", "UnionLayout.size", "StructLayout.size",
                     "ArrayLayout.__getitem__", "ArrayLayout.__iter__", "ArrayLayout.size", "FlexibleLayout.__init__",
                     "Layout.const", "Layout.from_bits", "View.__getitem__", "View.__init__", "Const.__init__",
                     "Const.__getitem__", "Const.as_bits", "UnionLayout.const")]
    out += [source.describe("amaranth/lib/enum.py", q, arith="closed (exhaustive)", bound="flag classes enumerated")
            for q in ("EnumType.const", "EnumType.from_bits", "EnumType.__call__", "FlagView.__invert__", "FlagView.__and__",
                      "FlagView.__or__", "FlagView.__xor__", "EnumView.__eq__")]
    return out


class Sgn(py_enum.Enum):
    A = -2
    B = 0
    C = 1


class Small(py_enum.Enum):
    X = 0
    Y = 3


_SHAPED = {}


def shaped_enums():
    if not _SHAPED:
        from amaranth.hdl import unsigned, signed
        from amaranth.lib import enum as E

        class SOp(E.Enum, shape=signed(3)):
            NEG = -3
            ZERO = 0
            POS = 2

        class UOp(E.Enum, shape=unsigned(2)):
            A = 0
            B = 1
            C = 3
        _SHAPED.update(SOp=SOp, UOp=UOp)
    return _SHAPED


class _Lcg:
    def __init__(self, seed):
        self.x = seed & 0xFFFFFFFF

    def next(self, n):
        self.x = (1103515245 * self.x + 12345) & 0x7FFFFFFF
        return (self.x >> 8) % n

    def pick(self, xs):
        return xs[self.next(len(xs))]


N_GENERATED = {"quick": 12, "thorough": 80}
_GEN = {}


def _generated_layouts():
    """Layouts drawn at random with a fixed seed: struct / union / array / flexible, nested to depth 2, fields of unsigned,
    signed, zero-width, range, plain-enum and shaped-enum shapes; total size <= 16 bits."""
    if _GEN:
        return _GEN
    from amaranth.hdl import unsigned, signed, Shape
    from amaranth.lib import data
    se = shaped_enums()
    g = _Lcg(15092026)

    def scalar():
        k = g.next(12)
        if k < 4:
            return unsigned(g.pick([0, 1, 1, 2, 3, 4]))
        if k < 7:
            return signed(g.pick([1, 2, 3, 4]))
        if k == 7:
            return range(-3, 2)
        if k == 8:
            return range(2, 6)
        if k == 9:
            return Sgn
        if k == 10:
            return se["SOp"]
        return se["UOp"]

    def lay(depth):
        k = g.next(10)
        def member():
            return lay(depth + 1) if depth < 2 and g.next(4) == 0 else scalar()
        names = ["a", "b", "c", "d"]
        if k < 4:
            return data.StructLayout({names[i]: member() for i in range(1 + g.next(4))})
        if k < 6:
            return data.UnionLayout({names[i]: member() for i in range(1 + g.next(3))})
        if k < 8:
            return data.ArrayLayout(member(), g.pick([0, 1, 2, 2, 3]))
        fields, size = {}, 0
        for i in range(1 + g.next(3)):
            sh = member()
            off = g.next(6)
            fields[names[i] if g.next(4) else i] = data.Field(sh, off)
            size = max(size, off + Shape.cast(sh).width)
        return data.FlexibleLayout(size + g.next(3), fields)
    n = 0
    while len(_GEN) < N_GENERATED["thorough"]:
        n += 1
        L = lay(0)
        if 0 < L.size <= 16:
            _GEN[f"gen{len(_GEN):02d}"] = L
    return _GEN


def LAYOUTS():
    from amaranth.hdl import unsigned, signed
    from amaranth.lib import data
    inner = data.StructLayout({"p": unsigned(2), "q": signed(2)})
    se = shaped_enums()
    return {
        "struct-shaped-enum": data.StructLayout({"a": unsigned(2), "e": se["SOp"], "u": se["UOp"]}),
        "array-shaped-enum": data.ArrayLayout(se["SOp"], 2),
        "struct-basic": data.StructLayout({"a": unsigned(3), "b": signed(3), "c": unsigned(1)}),
        "struct-zero": data.StructLayout({"z": unsigned(0), "a": unsigned(2), "e": unsigned(0), "b": signed(1)}),
        "struct-range-enum": data.StructLayout({"r": range(-3, 2), "e": Sgn, "u": Small, "pos": range(2, 6)}),
        "struct-nested": data.StructLayout({"hd": unsigned(1), "in": inner, "arr": data.ArrayLayout(signed(2), 2)}),
        "union": data.UnionLayout({"x": unsigned(4), "y": signed(2), "z": inner}),
        "array-u": data.ArrayLayout(unsigned(2), 4),
        "array-s": data.ArrayLayout(signed(3), 3),
        "array-range": data.ArrayLayout(range(-2, 2), 3),
        "array-struct": data.ArrayLayout(inner, 2),
        "array-empty": data.ArrayLayout(unsigned(3), 0),
        "flex": data.FlexibleLayout(8, {"lo": data.Field(unsigned(3), 0), "ov": data.Field(signed(4), 2), 7: data.Field(unsigned(1), 7)}),
        "empty-struct": data.StructLayout({}),
        **_generated_layouts(),
    }


def tasks(tier):
    ts = [("placement",)]
    for name in LAYOUTS():
        if name.startswith("gen") and int(name[3:]) >= N_GENERATED["quick" if tier == "quick" else "thorough"]:
            continue
        ts += [("const-read", name), ("const-build", name), ("view", name), ("view-assign", name)]
    ts += [("enum-roundtrip",), ("flags", 0), ("flags", 1), ("flags", 2)]
    ts += [("class-const", c) for c in ("SDef", "SPlain", "UDef")]
    ts += [("signal-of-layout", tier)]
    return ts


def canaries(tier):
    return [("canary-view",)]


def _mods():
    import amaranth.utils as U
    import amaranth.hdl._ast as A
    import amaranth.lib.data as D
    return U, A, D


def leaf_fields(layout):
    """[(key path, offset, shape-like)] of every scalar leaf (nested layouts expanded)."""
    from amaranth.lib import data
    out = []
    for key, field in layout:
        if isinstance(field.shape, data.Layout):
            for kp, off, sh in leaf_fields(field.shape):
                out.append(((key,) + kp, field.offset + off, sh))
        else:
            out.append(((key,), field.offset, field.shape))
    return out


def ref_value(raw, offset, shape_like):
    """The documented reading of a field: its bits reinterpreted in the field's shape."""
    from amaranth.hdl import Shape
    sh = Shape.cast(shape_like)
    return norm((raw >> offset) & mask(sh.width), sh.width, sh.signed)


def check_placement():
    from amaranth.hdl import unsigned, signed, Shape
    from amaranth.lib import data
    obs = []

    def ob(nm, ok, detail=None):
        obs.append({"name": f"placement::{nm}", "kind": "post", "status": "proved" if ok else "refuted", "backend": "closed",
                    "time_s": 0.0, **({} if ok else {"failing_input": detail or {}})})
    shapes = [unsigned(0), unsigned(1), unsigned(3), signed(1), signed(4), range(-3, 2), range(5), Sgn, Small,
              data.ArrayLayout(unsigned(2), 2), data.StructLayout({"x": signed(2)})]
    import itertools as it
    for combo in list(it.permutations(shapes, 3))[:400]:
        members = {f"f{k}": sh for k, sh in enumerate(combo)}
        st = data.StructLayout(members)
        off = 0
        ok = True
        for key, sh in members.items():
            ok &= st[key].offset == off and st[key].shape is sh
            off += Shape.cast(sh).width
        ok &= st.size == off and [k for k, _f in st] == list(members)
        if not ok:
            ob(f"struct{list(members.values())!r}"[:100], False, {"members": repr(members), "fields": repr(dict(st))})
            break
        un = data.UnionLayout(members)
        oku = all(un[k].offset == 0 for k in members) and un.size == max(Shape.cast(s).width for s in combo)
        if not oku:
            ob(f"union{list(members.values())!r}"[:100], False, {"members": repr(members), "size": un.size})
            break
    else:
        ob("struct-contiguous-union-overlaid(400 member triples)", True)
    okk = True
    for sh in shapes:
        w = Shape.cast(sh).width
        for n in range(0, 5):
            ar = data.ArrayLayout(sh, n)
            good = ar.size == w * n and [(k, f.offset) for k, f in ar] == [(k, k * w) for k in range(n)]
            for k in range(-n, n):
                good &= ar[k].offset == (k % n) * w
            for k in (n, -n - 1):
                try:
                    ar[k]
                    good = False
                except KeyError:
                    pass
            if not good:
                okk = False
                ob(f"array({sh!r},{n})", False, {"elem": repr(sh), "length": n})
    if okk:
        ob("array-element-offsets", True)
    # flexible layout: accepts fields inside, rejects fields sticking out
    try:
        data.FlexibleLayout(4, {"a": data.Field(unsigned(3), 2)})
        ob("flexible-rejects-overflow", False, {"what": "field of 3 bits at offset 2 accepted in a 4-bit flexible layout"})
    except ValueError:
        ob("flexible-rejects-overflow", True)
    fl = data.FlexibleLayout(5, {"a": data.Field(unsigned(3), 2), "b": data.Field(signed(2), 0)})
    ob("flexible-keeps-offsets", fl["a"].offset == 2 and fl["b"].offset == 0 and fl.size == 5)
    return {"task": "placement", "paths": 0, "solver_s": 0.0, "obligations": obs}


def _get(c, keypath):
    for k in keypath:
        c = c[k]
    return c


def check_const_read(lname):
    U, A, D = _mods()
    layout = LAYOUTS()[lname]
    name = f"const-read[{lname}]"
    size = layout.size

    def body(path):
        raw = path.var("raw", 0, mask(size))
        with shimmed(U, A, D):
            c = D.Const(layout, raw)
            path.prove(f"{name}::as_bits", to_sint(c.as_bits()) == raw)
            fb = layout.from_bits(raw)
            path.prove(f"{name}::from_bits", to_sint(fb.as_bits()) == raw)
            for kp, off, sh in leaf_fields(layout):
                want = ref_value(raw, off, sh)
                if not (isinstance(sh, A.ShapeCastable) and isinstance(sh, type)):
                    got = _get(c, kp)
                if isinstance(sh, A.ShapeCastable) and isinstance(sh, type) and issubclass(sh, py_enum.Enum):
                    # a shaped enumeration field reads back as the member whose value is the field's bits
                    # reinterpreted in the enumeration's shape; other patterns are rejected with ValueError
                    members = {m.value: m for m in sh}
                    is_member = Or(*[to_sint(want) == v for v in members])
                    try:
                        got = _get(c, kp)
                    except ValueError:
                        path.prove(f"{name}::field{kp}::rejects-only-non-members", Not(is_member))
                        continue
                    path.prove(f"{name}::field{kp}::member", And(is_member, to_sint(want) == got.value))
                    continue
                if isinstance(sh, type) and issubclass(sh, py_enum.Enum):
                    continue        # plain enum fields read back as integers through hdl.Const: covered below
                path.prove(f"{name}::field{kp}", to_sint(got) == to_sint(want))
            # sub-layout fields hold exactly their bits
            for key, field in layout:
                if isinstance(field.shape, D.Layout):
                    sub = c[key]
                    path.prove(f"{name}::sub[{key}]", to_sint(sub.as_bits()) == ((raw >> field.offset) & mask(field.width)))
            if isinstance(layout, D.ArrayLayout) and layout.length >= 2 and not isinstance(layout.elem_shape, D.Layout):
                w = A.Shape.cast(layout.elem_shape).width
                sl = c[1:]
                path.prove(f"{name}::slice[1:]", to_sint(sl.as_bits()) == (raw >> w))
                sl2 = c[::2]
                exp = 0
                for j, i in enumerate(range(0, layout.length, 2)):
                    exp = exp | (((raw >> (i * w)) & mask(w)) << (j * w))
                path.prove(f"{name}::slice[::2]", to_sint(sl2.as_bits()) == to_sint(exp))
    res = runner.from_exploration(name, Exploration(name, body).run())
    # range: out-of-range raw rejected
    ok = True
    for bad in (-1, 1 << size):
        try:
            D.Const(layout, bad)
            ok = False
        except ValueError:
            pass
    res["obligations"].append({"name": f"{name}::rejects-out-of-range", "kind": "post", "status": "proved" if ok else "refuted",
                               "backend": "closed", "time_s": 0.0})
    return res


def check_const_build(lname):
    """Layout.const(init) then reading the fields back."""
    U, A, D = _mods()
    layout = LAYOUTS()[lname]
    name = f"const-build[{lname}]"
    if layout.size == 0 and not list(layout):
        return {"task": name, "paths": 0, "solver_s": 0.0, "obligations": [
            {"name": f"{name}::empty", "kind": "post", "status": "proved" if layout.const(None).as_bits() == 0 else "refuted",
             "backend": "closed", "time_s": 0.0}]}
    top_fields = list(layout)
    is_union = isinstance(layout, D.UnionLayout)

    def scalar(sh):
        return not isinstance(sh, D.Layout) and not (isinstance(sh, type) and issubclass(sh, py_enum.Enum))

    def overlaps(f1, f2):
        return f1.offset < f2.offset + f2.width and f2.offset < f1.offset + f1.width

    def body(path):
        vals = {}
        init = {}
        chosen = [kf for kf in top_fields if scalar(kf[1].shape)]
        if is_union:
            chosen = chosen[:1]
        for k, (key, field) in enumerate(chosen):
            w = field.width
            sh = A.Shape.cast(field.shape)
            if isinstance(field.shape, range):
                lo, hi = min(field.shape), max(field.shape)          # a range-shaped field only takes its elements
            else:
                lo, hi = -(1 << w), (1 << w)
            v = path.var(f"v{k}", lo, hi)
            vals[key] = v
            init[key] = v
        with shimmed(U, A, D):
            c = layout.const(init if not isinstance(layout, D.ArrayLayout) else init)
            for key, field in chosen:
                # a later overlapping initialiser may overwrite (flexible layouts): only check non-overlapped fields
                later = [f2 for (k2, f2) in chosen if k2 != key and overlaps(field, f2)]
                if later:
                    continue
                sh = A.Shape.cast(field.shape)
                path.prove(f"{name}::readback[{key}]", to_sint(c[key]) == to_sint(norm(vals[key], sh.width, sh.signed)))
            covered = 0
            for key, field in chosen:
                covered |= mask(field.width) << field.offset
            path.prove(f"{name}::unspecified-bits-zero", (to_sint(c.as_bits()) & ~covered) == 0)
    res = runner.from_exploration(name, Exploration(name, body).run())
    # initialisers given as hdl.Const of ANOTHER width / signedness than the field (wider: truncated to the field; narrower
    # signed: sign-extended into the field; narrower unsigned: zero-extended), against the integer model "all-zero value with the
    # fields assigned in order" -- every combination of the listed constants, closed
    from amaranth.hdl import Const as HConst, signed as hsigned, unsigned as hunsigned
    chosen = [kf for kf in top_fields if scalar(kf[1].shape) and not isinstance(kf[1].shape, range)]
    if is_union:
        chosen = chosen[:1]
    bad = None
    n = 0
    if chosen:
        def variants(w):
            out = []
            for cw, sg in ((w + 2, False), (w + 2, True), (max(w - 1, 1), True), (max(w - 1, 1), False)):
                for cv in (0, 1, -1, (1 << (cw - 1)), (1 << cw) - 1, 5):
                    out.append(HConst(cv, hsigned(cw) if sg else hunsigned(cw)))
            return out
        import itertools as _it
        pools = [variants(f.width)[:: max(1, len(chosen) - 1)] for _k, f in chosen]
        for combo in _it.islice(_it.product(*pools), 4000):
            n += 1
            init = {key: cst for (key, _f), cst in zip(chosen, combo)}
            want = 0
            for (key, f), cst in zip(chosen, combo):
                m_ = mask(f.width) << f.offset
                want = (want & ~m_) | ((cst.value << f.offset) & m_)
            try:
                got = layout.const(init).as_bits()
            except Exception as e:
                got = repr(e)[:100]
            if got != want and bad is None:
                bad = {"layout": lname, "initialiser": {str(k): repr(v) for k, v in init.items()}, "as_bits()": got, "expected": want,
                       "how": "Layout.const(init).as_bits() against an all-zero value with the fields assigned in order"}
        res["obligations"].append({"name": f"{name}::const-initialisers-of-other-widths", "kind": "post", "status": "proved" if bad is None else "refuted",
                                   "backend": "closed", "time_s": 0.0, **({} if bad is None else {"failing_input": bad})})
    # the ORDER of the initialiser: const(init) is the all-zero value with the fields assigned in the order in which init names
    # them -- it matters exactly when fields overlap (flexible layouts, unions are limited to one field): every order of every
    # subset of the scalar fields, two value patterns
    chosen = [kf for kf in top_fields if scalar(kf[1].shape) and not isinstance(kf[1].shape, range)]
    if len(chosen) >= 2 and not is_union and any(overlaps(f1, f2) for (k1, f1) in chosen for (k2, f2) in chosen if k1 != k2):
        import itertools as _it
        bad2, n2 = None, 0
        for r in range(2, min(len(chosen), 4) + 1):
            for perm in _it.permutations(chosen, r):
                for pattern in (0, 1, 2, 3):
                    n2 += 1
                    init = {}
                    want = 0
                    for j, (key, f) in enumerate(perm):
                        # overlapping bits must differ between consecutive fields, or the order would not show
                        v = [mask(f.width), 0, 0b0101 & mask(f.width), 0b1010 & mask(f.width)][(j + 2 * (pattern // 2) + pattern) % 4] if pattern >= 2 \
                            else (mask(f.width) if (j + pattern) % 2 == 0 else 0)
                        sh_ = A.Shape.cast(f.shape)
                        init[key] = norm(v, sh_.width, sh_.signed)
                        m_ = mask(f.width) << f.offset
                        want = (want & ~m_) | ((v << f.offset) & m_)
                    try:
                        got = layout.const(init).as_bits()
                    except Exception as e:
                        got = repr(e)[:100]
                    if got != want and bad2 is None:
                        bad2 = {"layout": repr(layout), "initialiser (in this order)": {str(k): v for k, v in init.items()}, "as_bits()": got,
                                "expected": want, "how": "Layout.const(init).as_bits() against an all-zero value with the fields assigned in init order"}
        res["obligations"].append({"name": f"{name}::initialiser-order-is-assignment-order", "kind": "post", "status": "proved" if bad2 is None else "refuted",
                                   "backend": "closed", "time_s": 0.0, **({} if bad2 is None else {"failing_input": bad2})})
    return res


def _agg_classes():
    from amaranth.hdl import unsigned, signed
    from amaranth.lib import data

    class SDef(data.Struct):
        a: 4 = 5
        b: signed(3) = -2
        c: 2

    class SPlain(data.Struct):
        a: 4
        b: signed(3)
        c: 2

    class UDef(data.Union):
        x: 4 = 9
        y: signed(2)
    return {"SDef": (SDef, {"a": 5, "b": -2, "c": 0}), "SPlain": (SPlain, {"a": 0, "b": 0, "c": 0}), "UDef": (UDef, None)}


def check_class_const(cname):
    """Struct / Union CLASSES (the annotation form): cls.const(init) is a function of init and of the declared field
    initialisers -- a field named in init reads back the given value, any other field its declared initial value (0 when
    none is declared) -- for every SEQUENCE of two calls on the same class (the second call's result does not depend on
    the first call), and const() leaves the class's declared initialisers unchanged (frame)."""
    U, A, D = _mods()
    cls, declared = _agg_classes()[cname]
    name = f"class-const[{cname}]"
    layout = cls.as_shape()
    keys = [k for k, _f in layout]
    is_union = isinstance(layout, D.UnionLayout)
    import itertools as _it
    subsets = [tuple(c) for r in range(len(keys) + 1) for c in _it.combinations(keys, r)]
    if is_union:
        subsets = [c for c in subsets if len(c) <= 1]

    def snapshot():
        return repr(sorted(cls._AggregateMeta__default.items()))

    def make_body(first, second):
        pair = f"[{','.join(first) or '-'}]then[{','.join(second) or '-'}]"

        def body(path):
            cls._AggregateMeta__default.clear()             # every path starts from the class as declared
            cls._AggregateMeta__default.update(pristine)
            before = snapshot()
            for rnd, subset in (("1st", first), ("2nd", second)):
                init = {}
                for k in subset:
                    w = layout[k].width
                    # the first call's values are fixed (all different from the declared initial values); the second's are symbolic
                    init[k] = {"a": 1, "b": 1, "c": 1, "x": 3, "y": 1}[k] if rnd == "1st" else path.var(f"{rnd}_{k}", -(1 << w), (1 << w))
                forms = [init] if subset else [init, None]
                for form in forms:
                    with shimmed(U, A, D):
                        c = cls.const(form)
                    tag = f"{name}::{pair}::{rnd}" + ("::None" if form is None else "")
                    if is_union:
                        if subset:
                            k = subset[0]
                            sh = A.Shape.cast(layout[k].shape)
                            path.prove(f"{tag}::readback[{k}]", to_sint(c[k]) == to_sint(norm(init[k], sh.width, sh.signed)))
                        else:
                            path.prove(f"{tag}::declared-initial-value[x]", to_sint(c["x"]) == 9)
                        continue
                    for k in keys:
                        sh = A.Shape.cast(layout[k].shape)
                        if k in init:
                            path.prove(f"{tag}::readback[{k}]", to_sint(c[k]) == to_sint(norm(init[k], sh.width, sh.signed)))
                        else:
                            path.prove(f"{tag}::declared-initial-value[{k}]", to_sint(c[k]) == declared[k])
            path.prove(f"{name}::{pair}::declared-initialisers-unchanged", snapshot() == before)
        return body
    parts = []
    pristine = dict(cls._AggregateMeta__default)
    for first in subsets:
        for second in subsets:
            saved = dict(pristine)
            try:
                parts.append(runner.from_exploration(name, Exploration(name, make_body(first, second)).run()))
            finally:
                cls._AggregateMeta__default.clear()          # a refuted frame obligation must not leak into the next pair
                cls._AggregateMeta__default.update(saved)
    res = runner.merge_results(name, parts)
    # the same through the other public routes, closed: Signal(cls, init=...) and hdl.Const(init, cls) after an earlier call
    from amaranth.hdl import Signal as HSignal
    bad = None
    if not is_union:
        cls.const({"a": 1, "b": 1, "c": 1})
        got = HSignal(cls).as_value().init
        want = cls.as_shape().const(declared).as_bits()
        if got != want:
            bad = {"class": cname, "sequence": "cls.const({'a':1,'b':1,'c':1}); Signal(cls).init", "returned": got, "expected": want}
        got2 = HSignal(cls, init={"c": 3}).as_value().init
        want2 = cls.as_shape().const({**declared, "c": 3}).as_bits()
        if bad is None and got2 != want2:
            bad = {"class": cname, "sequence": "cls.const({...}); Signal(cls, init={'c': 3}).init", "returned": got2, "expected": want2}
        res["obligations"].append({"name": f"{name}::signal-init-after-earlier-const", "kind": "post", "status": "proved" if bad is None else "refuted",
                                   "backend": "closed", "time_s": 0.0, **({} if bad is None else {"failing_input": bad})})
    return res


def check_signal_of_layout(tier):
    """Every layout (listed and generated) can back a Signal -- in simulation and synthesis alike a layout is used through
    Signal(layout) -- and the signal's view reads the fields at the declared places (D26: layouts with a signed shape-castable
    field could not)."""
    from amaranth.hdl import Signal
    obs = []
    for lname, layout in LAYOUTS().items():
        if lname.startswith("gen") and int(lname[3:]) >= N_GENERATED["quick" if tier == "quick" else "thorough"]:
            continue
        bad = None
        try:
            sig = Signal(layout)
            v = sig.as_value()
            ok = len(v) == layout.size
            for key, field in layout:
                fv = sig[key]
                fval = fv.as_value() if hasattr(fv, "as_value") else fv
                ok = ok and len(fval) == field.width
            if not ok:
                bad = {"layout": repr(layout), "what": "Signal(layout) has the wrong width or field widths"}
        except Exception as e:
            bad = {"layout": repr(layout), "raised": repr(e)[:300], "how": "Signal(layout)"}
        obs.append({"name": f"signal-of-layout[{lname}]", "kind": "post", "status": "proved" if bad is None else "refuted", "backend": "closed",
                    "time_s": 0.0, **({} if bad is None else {"failing_input": bad})})
    return {"task": "signal-of-layout", "paths": len(obs), "solver_s": 0.0, "obligations": obs}


def check_view(lname, broken=False):
    from amaranth.hdl import Signal, Value, Shape
    U, A, D = _mods()
    layout = LAYOUTS()[lname]
    name = f"view[{lname}]"
    size = layout.size
    sig = Signal(size, name="raw")
    view = D.View(layout, sig)
    idx = Signal(2, name="idx")
    exprs = []       # (label, amaranth value, reference fn(raw, i))
    for kp, off, sh in leaf_fields(layout):
        v = view
        for k in kp:
            v = v[k]
        exprs.append((f"field{kp}", Value.cast(v), (lambda off, sh: lambda raw, i: ref_value(raw, off, sh))(off, sh), Shape.cast(sh)))
    if isinstance(layout, D.ArrayLayout) and not isinstance(layout.elem_shape, D.Layout) and layout.length > 0:
        w = Shape.cast(layout.elem_shape).width
        esh = layout.elem_shape
        dyn = Value.cast(view[idx])

        def ref_dyn(raw, i):
            r = 0
            for k in reversed(range(layout.length)):
                r = ite(i == k, ref_value(raw, k * w, esh), r)
            return r
        exprs.append(("dynamic-index", dyn, ref_dyn, Shape.cast(esh)))
        if layout.length >= 2:
            sl = Value.cast(view[1:])
            exprs.append(("slice[1:]", sl, lambda raw, i: raw >> w, Shape(w * (layout.length - 1))))
            sl2 = Value.cast(view[::-1])
            def ref_rev(raw, i):
                r = 0
                for j, k in enumerate(reversed(range(layout.length))):
                    r = r | (((raw >> (k * w)) & mask(w)) << (j * w))
                return r
            exprs.append(("slice[::-1]", sl2, ref_rev, Shape(w * layout.length)))

    def body(path):
        raw = path.var("raw", 0, mask(size))
        i = path.var("idx", 0, 3)
        env = Env([(sig, raw), (idx, i)])
        for label, e, ref, esh in exprs:
            want = to_sint(ref(raw, i))
            if broken and label.startswith("field"):
                want = want + 1
            cond = True
            if label == "dynamic-index":
                cond = i < layout.length
            got = to_sint(sem(e, env))
            path.prove(f"{name}::{label}", Implies(cond, got == want) if cond is not True else got == want)
            sh = e.shape()
            path.prove(f"{name}::{label}::shape", sh.width == esh.width and sh.signed == esh.signed)
    if not exprs:
        return {"task": name, "paths": 0, "solver_s": 0.0, "obligations": [
            {"name": f"{name}::no-fields", "kind": "post", "status": "proved", "backend": "closed", "time_s": 0.0}]}
    return runner.from_exploration(name, Exploration(name, body).run())


def check_view_assign(lname):
    from amaranth.hdl import Signal, Value, Shape
    U, A, D = _mods()
    layout = LAYOUTS()[lname]
    name = f"view-assign[{lname}]"
    size = layout.size
    sig = Signal(size, name="raw")
    view = D.View(layout, sig)
    leaves = leaf_fields(layout)
    if not leaves:
        return {"task": name, "paths": 0, "solver_s": 0.0, "obligations": [
            {"name": f"{name}::no-fields", "kind": "post", "status": "proved", "backend": "closed", "time_s": 0.0}]}

    def body(path):
        raw = path.var("raw", 0, mask(size))
        for kp, off, sh in leaves:
            w = Shape.cast(sh).width
            v = view
            for k in kp:
                v = v[k]
            rhs = Signal(Shape(w + 1, True), name="rhs")
            val = path.var(f"val{off}_{w}", -(1 << w), (1 << w) - 1)
            stmt = Value.cast(v).eq(rhs)
            env = Env([(sig, raw), (rhs, val)])
            new = assign(stmt.lhs, sem(stmt.rhs, env), env)
            want = (raw & ~(mask(w) << off)) | ((val & mask(w)) << off)
            path.prove(f"{name}::field{kp}", to_sint(new[sig]) == to_sint(want))
    return runner.from_exploration(name, Exploration(name, body).run())


def check_enum_roundtrip():
    from amaranth.hdl import unsigned, signed, Shape, Const, Value
    from amaranth.lib import enum as E
    obs = []

    class Op(E.Enum, shape=unsigned(3)):
        ADD = 0
        SUB = 1
        MUL = 6

    class SOp(E.Enum, shape=signed(3)):
        NEG = -3
        ZERO = 0
        POS = 2

    class Fl(E.Flag, shape=unsigned(3)):
        R = 1
        W = 2
        X = 4

    class IE(E.IntEnum, shape=unsigned(2)):
        A = 0
        B = 3
    for cls in (Op, SOp, Fl, IE):
        sh = Shape.cast(cls)
        for member in cls:
            c = cls.const(member)
            cv = Const.cast(Value.cast(c))
            ok = cv.value == norm(member.value, sh.width, sh.signed) and cv.shape() == sh
            bits = cv.value & mask(sh.width)
            back = None
            try:
                back = cls.from_bits(norm(bits, sh.width, sh.signed))
                ok &= back is member
            except Exception as e:
                ok = False
                back = repr(e)
            obs.append({"name": f"enum::{cls.__name__}.{member.name}::const/from_bits", "kind": "post",
                        "status": "proved" if ok else "refuted", "backend": "closed", "time_s": 0.0,
                        **({} if ok else {"failing_input": {"enum": cls.__name__, "member": member.name, "const value": cv.value,
                                                            "shape": repr(cv.shape()), "from_bits": repr(back)}})})
        c0 = Const.cast(Value.cast(cls.const(None)))
        first_zero = [m for m in cls if m.value == 0]
        ok = c0.value == 0 if (first_zero or issubclass(cls, py_enum.Flag)) else True
        obs.append({"name": f"enum::{cls.__name__}::const(None)", "kind": "post", "status": "proved" if ok else "refuted",
                    "backend": "closed", "time_s": 0.0})
    return {"task": "enum-roundtrip", "paths": 0, "solver_s": 0.0, "obligations": obs}


def _flag_classes():
    from amaranth.hdl import unsigned
    from amaranth.lib import enum as E

    class Perm(E.Flag, shape=unsigned(3)):
        R = 1
        W = 2
        FULL = 7            # bit 2 has no single-bit flag of its own

    class Plain(E.Flag, shape=unsigned(3)):
        A = 1
        B = 2
        C = 4

    class Gap(E.Flag, shape=unsigned(4)):
        LO = 1
        HI = 8
        BOTH = 9
    return [Perm, Plain, Gap]


def check_flags(k):
    """FlagView operators against Python's enum.Flag operators, for every pair of values (finite, exhaustive)."""
    from amaranth.hdl import Const, Value, Shape
    cls = _flag_classes()[k]
    sh = Shape.cast(cls)
    obs = []
    name = f"flags[{cls.__name__}]"
    cases = 0
    bad = None
    valid = []
    for v in range(1 << sh.width):
        try:
            valid.append((v, cls(v)))
        except ValueError:
            pass

    def view_of(v):
        return cls(Const(v, sh))

    def value_of(view):
        # the view wraps an expression over constants: evaluate it with the reference semantics
        return int(sem(Value.cast(view), Env())) & mask(sh.width)
    for (va, ma) in valid:
        cases += 1
        try:
            want = (~ma).value
        except Exception:
            want = None
        if want is not None:
            got = value_of(~view_of(va))
            if got != want and bad is None:
                bad = {"flag class": cls.__name__, "expression": f"~{ma!r}", "view": got, "python": want}
        for (vb, mb) in valid:
            for opn, op in (("&", lambda x, y: x & y), ("|", lambda x, y: x | y), ("^", lambda x, y: x ^ y)):
                cases += 1
                try:
                    want = op(ma, mb).value
                except Exception:
                    continue              # Python itself rejects the combination (STRICT boundary)
                got = value_of(op(view_of(va), view_of(vb)))
                got2 = value_of(op(view_of(va), mb))
                got3 = value_of(op(ma, view_of(vb)))           # the member on the left: the view's reflected operator
                if (got != want or got2 != want or got3 != want) and bad is None:
                    bad = {"flag class": cls.__name__, "expression": f"{ma!r} {opn} {mb!r}", "view OP view": got, "view OP member": got2,
                           "member OP view": got3, "python": want}
    ok = bad is None
    obs.append({"name": f"{name}::operators-equal-enum.Flag({cases} cases)", "kind": "post", "status": "proved" if ok else "refuted",
                "backend": "closed(exhaustive)", "time_s": 0.0, **({} if ok else {"failing_input": bad})})
    return {"task": name, "paths": cases, "solver_s": 0.0, "obligations": obs}


def run_task(task):
    k = task[0]
    if k == "placement":
        return check_placement()
    if k == "const-read":
        return check_const_read(task[1])
    if k == "const-build":
        return check_const_build(task[1])
    if k == "view":
        return check_view(task[1])
    if k == "view-assign":
        return check_view_assign(task[1])
    if k == "class-const":
        return check_class_const(task[1])
    if k == "signal-of-layout":
        return check_signal_of_layout(task[1])
    if k == "enum-roundtrip":
        return check_enum_roundtrip()
    if k == "flags":
        return check_flags(task[1])
    if k == "canary-view":
        return check_view("struct-basic", broken=True)
    raise KeyError(k)


def concrete_view_search(lname):
    """Real simulator: every raw pattern of the layout, view fields vs the reference reading."""
    from amaranth.hdl import Signal, Module, Value, Shape
    from amaranth.lib import data
    from harness.realsim import comb_table
    layout = LAYOUTS()[lname]
    sig = Signal(layout.size, name="raw")
    view = data.View(layout, sig)
    outs, refs = [], []
    m = Module()
    for kp, off, sh in leaf_fields(layout):
        v = view
        for k in kp:
            v = v[k]
        v = Value.cast(v)
        o = Signal(v.shape(), name="o" + "_".join(map(str, kp)))
        m.d.comb += o.eq(v)
        outs.append(o)
        refs.append((kp, off, sh))
    if not outs:
        return None
    assigns = [(r,) for r in range(1 << layout.size)]
    rows = comb_table(m, [sig], outs, assigns)
    for (r,), row in zip(assigns, rows):
        for got, (kp, off, sh) in zip(row, refs):
            want = int(ref_value(r, off, sh))
            if got != want:
                return {"layout": lname, "raw": r, "field": list(map(str, kp)), "view reads": got, "expected": want,
                        "how": "real Simulator: comb out.eq(view field), all raw patterns"}
    return None


def find_failing_input(res, ob):
    nm = ob["name"]
    if nm.startswith("view["):
        lname = nm[len("view["):nm.index("]")]
        w = concrete_view_search(lname)
        if w:
            return w
    if ob.get("model"):
        return {"model": ob["model"], "how": "exact counter-model (raw pattern / field values) of " + nm}
    return None


def replay(data):
    nm = data["obligation"]
    if nm.startswith("view[") and (data.get("failing_input") or {}).get("layout"):
        return concrete_view_search(data["failing_input"]["layout"]) is not None
    for t in tasks("quick"):
        r = run_task(t)
        if any(o["name"] == nm and o["status"] == "refuted" for o in r["obligations"]):
            return True
    return False
