"""C11 -- memories behave as arrays of rows under any port configuration.

Layer B/C on the real `lib.memory.Memory` (-> `MemoryInstance` -> the memory branch of
`_FragmentCompiler`): rows and port registers are the representation, a clock edge of a port domain is
the operation (body = generated run() code), the array of rows is the abstract view.  For every
enumerated configuration and for ALL row contents, addresses, data and enables:

  async-read     an asynchronous read port outputs the addressed row (address < depth)
  write          after the edge, every row equals the old row with exactly the enabled granules of the
                 enabled write ports that address it replaced (ports in declaration order; writes
                 beyond the depth change nothing); signed rows stay canonical
  sync-read      a synchronous read port, when enabled, captures the addressed pre-edge row patched with
                 the granules being written at this edge by ports in its transparency set (same
                 address); holds its output when disabled
  other-domain   an edge of another domain changes neither the rows nor this domain's read registers
  en-width       WritePort.Signature: en_width * granularity == width (zero-width / None cases)
  init           the reset state holds the declared initial contents (wrapped as C10 states)
The storage contracts (_PyMemoryState.read/write/commit) are used through their contracts, proved in
C08; testbench row access to the same storage is C05's `row` obligations.
  behaviour      the netlist of the real build_netlist (cell semantics of spec/nir_eval.py) and the RTLIL of the real
                 rtlil.convert (parsed; $memwr_v2 / $memrd_v2 under spec/rtlil_eval.py) give, for ALL rows, addresses,
                 data, enables and read-register contents, the same asynchronous read data, next rows and next read
                 registers as the reference above -- the simulator, the netlist and the RTLIL agree per configuration
  rtlil          closed parameter obligations on the emitted memory cells
"""
import itertools

from pyvc.explore import Exploration
from pyvc.sym import SInt, to_sint, And, Or, Not, Implies, ite
from pyvc import runner, source
from spec.sem import mask, norm, shape_range
from harness.kernel import Design
from checks import c04

PROPERTY = "C11"

META = {
    "level": "proof",
    "trusted_base": [
        "pyvc symbolic integer encoding; z3 / cvc5",
        "kernel composition model (harness/kernel.py)",
        "contracts of _PyMemoryState.read/write/commit and _PySignalState.update (C08)",
        "array-of-rows reference in this file, written from the property statement",
    ],
    "assumptions": [
        "configurations enumerated (shapes, depths incl. non-power-of-two and 1, 0..2 write ports with "
        "granularities, comb / sync / transparent read ports, one or two domains) plus 3 (quick) / 40 (thorough) "
        "configurations drawn with a fixed seed (up to three clocked domains)",
        "two write ports enabled on the same granule of the same row at the same edge is excluded (a write "
        "conflict the property does not order)",
        "reads beyond the depth are unspecified and excluded",
    ],
    "bounds": {"quick": {}, "thorough": {}},
    "explanation": "memory process templates against an array-of-rows model",
}


def functions():
    return [source.describe("amaranth/sim/_pyrtl.py", "_FragmentCompiler.__call__", arith="generated code executed", bound="configs enumerated"),
            source.describe("amaranth/lib/memory.py", "Memory.elaborate", arith="-", bound="configs enumerated"),
            source.describe("amaranth/lib/memory.py", "Memory.read_port", arith="-", bound="-"),
            source.describe("amaranth/lib/memory.py", "Memory.write_port", arith="-", bound="-"),
            source.describe("amaranth/lib/memory.py", "WritePort.Signature.__init__", arith="closed", bound="widths <= 12"),
            source.describe("amaranth/hdl/_mem.py", "MemoryInstance._WritePort._granularity", arith="closed", bound="-"),
            source.describe("amaranth/hdl/_mem.py", "MemoryInstance.read_port", arith="-", bound="-"),
            source.describe("amaranth/hdl/_mem.py", "MemoryInstance.write_port", arith="-", bound="-")] + \
        [source.describe("amaranth/hdl/_ir.py", q, arith="netlist evaluated symbolically", bound="configs enumerated")
         for q in ("NetlistEmitter.emit_memory", "NetlistEmitter.emit_write_port", "NetlistEmitter.emit_read_port")] + \
        [source.describe("amaranth/back/rtlil.py", q, arith="RTLIL evaluated symbolically", bound="configs enumerated")
         for q in ("ModuleEmitter.emit_memory", "ModuleEmitter.emit_write_port", "ModuleEmitter.emit_read_port")]


# configuration: (width, signed, depth, write ports [(domain, granularity)], read ports [(domain, transparent idx tuple)])
class _Lcg:
    def __init__(self, seed):
        self.x = seed & 0xFFFFFFFF

    def next(self, n):
        self.x = (1103515245 * self.x + 12345) & 0x7FFFFFFF
        return (self.x >> 8) % n

    def pick(self, xs):
        return xs[self.next(len(xs))]


N_GENERATED = {"quick": 3, "thorough": 40}
_GEN = []


def _generated_configs():
    """port configurations drawn with a fixed seed: width 1..6 (signed or not), depth 1..5, 0..2 write ports (granularity a
    divisor of the width, domains sync / w), 0..3 read ports (comb / sync / w / r) with a transparency set among the write
    ports of their own domain"""
    if _GEN:
        return _GEN
    g = _Lcg(11092026)
    while len(_GEN) < N_GENERATED["thorough"]:
        sgn = g.next(4) == 0
        w = g.pick([1, 2, 3, 4, 4, 6])
        depth = g.pick([1, 2, 3, 3, 4, 5])
        wps = []
        for _ in range(g.pick([0, 1, 1, 1, 2, 2])):
            divs = [d for d in range(1, w + 1) if w % d == 0]
            wps.append((g.pick(["sync", "sync", "w"]), None if sgn or g.next(3) == 0 else g.pick(divs)))
        rps = []
        for _ in range(g.pick([0, 1, 1, 2, 2, 3])):
            dom = g.pick(["comb", "sync", "sync", "w", "r"])
            same = [i for i, (d, _g) in enumerate(wps) if d == dom]
            tr = tuple(i for i in same if g.next(2)) if dom != "comb" else ()
            rps.append((dom, tr))
        if not wps and not rps:
            continue
        _GEN.append((w, sgn, depth, wps, rps))
    return _GEN


def configs(tier):
    cs = []
    base = [
        (4, False, 3, [("sync", None)], [("comb", ())]),
        (4, False, 3, [("sync", 2)], [("sync", ())]),
        (4, False, 3, [("sync", 2)], [("sync", (0,))]),
        (4, False, 2, [("sync", 1), ("sync", 4)], [("sync", (0,)), ("comb", ())]),
        (4, False, 3, [("sync", 2), ("sync", 2)], [("sync", (0, 1))]),
        (4, False, 3, [("sync", 4), ("sync", 2)], [("sync", (1,))]),
        (3, True, 2, [("sync", None)], [("sync", (0,)), ("comb", ())]),
        (3, True, 3, [("sync", None), ("sync", None)], [("sync", ())]),
        (0, False, 2, [("sync", None)], [("sync", ()), ("comb", ())]),
        (0, False, 2, [("sync", 0)], [("comb", ())]),
        (1, False, 1, [("sync", None)], [("sync", (0,)), ("comb", ())]),
        (2, False, 1, [("sync", 1)], [("comb", ())]),
        (2, False, 4, [("w", None)], [("r", ()), ("w", (0,)), ("comb", ())]),
        (2, False, 3, [("w", 1), ("r", 2)], [("r", (1,)), ("w", ())]),
        (2, False, 2, [], [("sync", ()), ("comb", ())]),
        (2, False, 2, [("sync", None)], []),
        (4, False, 5, [("sync", 2)], [("sync", (0,))]),
    ]
    cs += base
    cs += _generated_configs()[:N_GENERATED["quick" if tier == "quick" else "thorough"]]
    if tier == "thorough":
        cs += [
            (6, False, 4, [("sync", 2), ("sync", 3)], [("sync", (0, 1)), ("sync", (1,)), ("comb", ())]),
            (6, False, 6, [("sync", 1)], [("sync", (0,)), ("comb", ())]),
            (4, True, 5, [("sync", None), ("w", None)], [("sync", (0,)), ("w", (1,)), ("comb", ())]),
            (8, False, 3, [("sync", 4), ("sync", 2), ("sync", 8)], [("sync", (0, 1, 2))]),
        ]
    return cs


def tasks(tier):
    ts = [("config", k) for k in range(len(configs(tier)))] + [("en-width",), ("init-frame",), ("async-reset-domain",), ("tb-row-access",), ("several-memories",), ("clock-polarity-and-defaults",)]
    ts += [("rtlil", k) for k in range(len(configs(tier)))]
    ts += [("behaviour", k) for k in range(len(configs(tier)))]
    # the storage class itself (the contracts the configurations above rely on)
    ts += [("storage", 2, False, 2), ("storage", 2, True, 2)]
    return ts


def canaries(tier):
    return [("canary-transparency",), ("canary-behaviour",)]


def _granules(width, gran):
    """list of (lo, hi) bit ranges, one per enable bit"""
    if gran is None:
        return [(0, width)]
    if width == 0 or gran == 0:
        return []
    return [(k * gran, (k + 1) * gran) for k in range(width // gran)]


def check_config(cfg, name, break_transparency=False):
    from amaranth.hdl import Module, ClockDomain, Shape
    from amaranth.lib.memory import Memory
    width, signed, depth, wps, rps = cfg
    init = [(3 * i + 1) & mask(width) if not signed else -(i % (1 << max(width - 1, 0))) for i in range(depth)]
    mem = Memory(shape=Shape(width, signed), depth=depth, init=init)
    wports = [mem.write_port(domain=dom, granularity=g) for dom, g in wps]
    rports = [mem.read_port(domain=dom, transparent_for=tuple(wports[i] for i in tr)) for dom, tr in rps]
    m = Module()
    doms = sorted({d for d, _ in wps} | {d for d, _ in rps if d != "comb"})
    cds = {}
    for dn in doms:
        # a resettable domain: the domain reset (left symbolic) must not affect rows or read registers
        cds[dn] = ClockDomain(dn)
        m.domains += cds[dn]
    m.submodules.mem = mem
    d = Design(m)
    for p in wports:
        d.register(p.en, p.addr, p.data)
    for p in rports:
        d.register(p.addr, p.data)
        if p.domain != "comb":
            d.register(p.en)
    obs = []
    ms = d.mem(0) if d.mem_slots else None
    # --- init
    if ms is not None:
        d.reset_state()
        ok = [int(x) for x in ms.data] == [norm(v, width, signed) for v in init]
        obs.append({"name": f"{name}::init", "kind": "post", "status": "proved" if ok else "refuted", "backend": "closed",
                    "time_s": 0.0, **({} if ok else {"failing_input": {"init": init, "stored": [int(x) for x in ms.data]}})})
    parts = []
    for edge_dom in doms:
        def body(path, edge_dom=edge_dom):
            d.fresh(path)
            for cd in cds.values():
                d.set(cd.clk, 0)
            d.apply([], path, f"{name}::{edge_dom}::pre")
            rows = list(ms.data) if ms is not None else []
            # --- asynchronous read
            for k, p in enumerate(rports):
                if p.domain == "comb":
                    a = d.val(p.addr)
                    exp = 0
                    for i in reversed(range(depth)):
                        exp = ite(a == i, rows[i], exp)
                    path.prove(f"{name}::{edge_dom}::async-read[{k}]", Implies(a < depth, to_sint(d.val(p.data)) == to_sint(exp)))
            # --- inputs at the edge
            wr = []
            for p, (dom, g) in zip(wports, wps):
                wr.append((dom, d.val(p.addr), d.val(p.data), d.val(p.en), _granules(width, g)))
            # exclude write conflicts (two ports of the edge domain enabled on overlapping bits of one row)
            for (i, a), (j, b) in itertools.combinations(enumerate(wr), 2):
                if a[0] == edge_dom and b[0] == edge_dom:
                    for ga, (alo, ahi) in enumerate(a[4]):
                        for gb, (blo, bhi) in enumerate(b[4]):
                            if alo < bhi and blo < ahi:
                                path.assume(Not(And(a[1] == b[1], ((a[3] >> ga) & 1) != 0, ((b[3] >> gb) & 1) != 0)))
            old_rdata = [d.val(p.data) for p in rports]
            r_in = [(d.val(p.addr), d.val(p.en) if p.domain != "comb" else 1) for p in rports]
            d.apply([(cds[edge_dom].clk, 1)], path, f"{name}::{edge_dom}::post")
            # --- rows after the edge
            exp_rows = list(rows)
            for (dom, addr, data, en, grans) in wr:
                if dom != edge_dom:
                    continue
                for i in range(depth):
                    nv = exp_rows[i] & mask(width)
                    for gk, (lo, hi) in enumerate(grans):
                        gm = mask(hi - lo) << lo
                        nv = ite(((en >> gk) & 1) != 0, (nv & ~gm) | (data & gm), nv)
                    nv = norm(nv, width, signed)
                    exp_rows[i] = ite(addr == i, nv, exp_rows[i])
            for i in range(depth):
                path.prove(f"{name}::{edge_dom}::row[{i}]", to_sint(ms.data[i]) == to_sint(exp_rows[i]))
            # --- synchronous read ports
            for k, (p, (dom, tr)) in enumerate(zip(rports, rps)):
                if dom == "comb":
                    continue
                if dom != edge_dom:
                    path.prove(f"{name}::{edge_dom}::other-domain-read-held[{k}]", to_sint(d.val(p.data)) == to_sint(old_rdata[k]))
                    continue
                a, en = r_in[k]
                cap = 0
                for i in reversed(range(depth)):
                    cap = ite(a == i, rows[i], cap)
                cap = to_sint(cap) & mask(width)
                for wi in tr:
                    (wdom, waddr, wdata, wen, grans) = wr[wi]
                    for gk, (lo, hi) in enumerate(grans):
                        gm = mask(hi - lo) << lo
                        hit = And(waddr == a, ((wen >> gk) & 1) != 0)
                        if break_transparency:
                            hit = And(hit, False)
                        cap = ite(hit, (cap & ~gm) | (wdata & gm), cap)
                cap = norm(cap, width, signed)
                path.prove(f"{name}::{edge_dom}::sync-read[{k}]",
                           Implies(a < depth, to_sint(d.val(p.data)) == ite(en != 0, to_sint(cap), to_sint(old_rdata[k]))))
                path.prove(f"{name}::{edge_dom}::sync-read-hold[{k}]",
                           Implies(en == 0, to_sint(d.val(p.data)) == to_sint(old_rdata[k])))
        if ms is None:
            continue
        parts.append(runner.from_exploration(name, Exploration(f"{name}::{edge_dom}", body).run()))
    res = runner.merge_results(name, parts)
    res["obligations"] = obs + res["obligations"]
    if not res["obligations"]:
        res["obligations"].append({"name": f"{name}::elaborates", "kind": "post", "status": "proved", "backend": "closed", "time_s": 0.0})
    return res


def check_en_width():
    from amaranth.hdl import Shape
    from amaranth.lib.memory import WritePort
    obs = []
    for width in range(0, 13):
        for gran in [None] + list(range(0, 13)):
            legal = gran is None or width == 0 or (gran > 0 and width % gran == 0)
            try:
                sig = WritePort.Signature(addr_width=2, shape=Shape(width), granularity=gran)
                en_w = sig.members["en"].shape.width if hasattr(sig.members["en"].shape, "width") else Shape.cast(sig.members["en"].shape).width
                if gran is None:
                    ok = en_w == 1
                elif width == 0:
                    ok = en_w == 0
                else:
                    ok = legal and en_w * gran == width
            except ValueError:
                ok = not legal
            obs.append({"name": f"en-width::w={width},g={gran}", "kind": "post", "status": "proved" if ok else "refuted",
                        "backend": "closed", "time_s": 0.0,
                        **({} if ok else {"failing_input": {"width": width, "granularity": gran}})})
    return {"task": "en-width", "paths": 0, "solver_s": 0.0, "obligations": obs}


def check_rtlil(cfg, name):
    """Emitted RTLIL memory cells agree with the declared memory: $meminit_v2 DATA is the concatenation of
    the initial rows (each as `width` two's complement bits, row 0 least significant), WIDTH/WORDS/size,
    one $memwr_v2 per write port with distinct dense PORTIDs and per-granule EN replication, one $memrd_v2 per
    read port whose TRANSPARENCY_MASK has exactly the PORTID bits of its transparency set, CLK_ENABLE iff
    synchronous."""
    from amaranth.hdl import Module, ClockDomain, Shape
    from amaranth.lib.memory import Memory
    from amaranth.back import rtlil
    from harness import rtlil_parse as RP
    width, signed, depth, wps, rps = cfg
    init = [(3 * i + 1) & mask(width) if not signed else -(i % (1 << max(width - 1, 0))) - (1 if i == 0 and width > 0 else 0)
            for i in range(depth)]
    init = [norm(v, width, signed) for v in init]
    mem = Memory(shape=Shape(width, signed), depth=depth, init=init)
    wports = [mem.write_port(domain=dom, granularity=g) for dom, g in wps]
    rports = [mem.read_port(domain=dom, transparent_for=tuple(wports[i] for i in tr)) for dom, tr in rps]
    for k, p in enumerate(wports):
        p.addr.name, p.data.name, p.en.name = f"w{k}_addr", f"w{k}_data", f"w{k}_en"
    for k, p in enumerate(rports):
        p.addr.name, p.data.name = f"r{k}_addr", f"r{k}_data"
        if p.domain != "comb":
            p.en.name = f"r{k}_en"
    m = Module()
    for dn in sorted({d for d, _ in wps} | {d for d, _ in rps if d != "comb"}):
        m.domains += ClockDomain(dn, reset_less=True)
    m.submodules.mem = mem
    ports = []
    for p in wports:
        ports += [p.en, p.addr, p.data]
    for p in rports:
        ports += [p.addr, p.data] + ([p.en] if p.domain != "comb" else [])
    text = rtlil.convert(m, ports=ports, emit_src=False)
    mods = RP.parse(text)
    obs = []

    def ob(nm, ok, detail=None):
        obs.append({"name": f"{name}::rtlil::{nm}", "kind": "post", "status": "proved" if ok else "refuted",
                    "backend": "closed", "time_s": 0.0,
                    **({} if ok else {"failing_input": {"config": repr(cfg), "init": init, "detail": detail,
                                                        "how": "rtlil.convert of the memory design, parsed"}})})
    cells = [c for mod in mods.values() for c in mod.cells.values()]
    mems = [mm for mod in mods.values() for mm in mod.memories.values()]
    inits = [c for c in cells if c.kind == "$meminit_v2"]
    wrs = [c for c in cells if c.kind == "$memwr_v2"]
    rds = [c for c in cells if c.kind == "$memrd_v2"]
    if not wports and not rports:
        ob("no-ports", True)
        return {"task": name, "paths": 0, "solver_s": 0.0, "obligations": obs}
    ob("one-memory", len(mems) == 1 and mems[0].width == width and mems[0].size == depth, [(mm.width, mm.size) for mm in mems])
    ob("one-init-cell", len(inits) == 1, len(inits))
    if len(inits) == 1:
        c = inits[0]
        data = c.ports["\\DATA"]
        top0 = [mod for mod in mods.values() if c in mod.cells.values()][0]
        bl = RP.bits_of(data, top0)
        bits = "".join(b for _k, b in reversed(bl)) if all(k == "const" for k, _b in bl) else None
        want = "".join(format(r & mask(width), f"0{width}b") if width else "" for r in reversed(init))
        ob("init-data", bits == want, {"emitted": bits, "expected": want})
        ob("init-shape", c.params.get("\\WIDTH") == width and c.params.get("\\WORDS") == depth,
           {k: repr(v) for k, v in c.params.items()})
    ob("write-port-count", len(wrs) == len(wports), len(wrs))
    ids = sorted(c.params.get("\\PORTID") for c in wrs)
    ob("write-portids-dense", ids == list(range(len(wrs))), ids)
    ob("read-port-count", len(rds) == len(rports), len(rds))
    # match cells to ports through the ADDR connection (port signals are top-level wires named <x>__addr)
    top = [mod for mod in mods.values() if any(c in mod.cells.values() for c in wrs + rds)][0]

    def addr_name(c):
        a = c.ports["\\ADDR"]
        bs = RP.bits_of(a, top)
        if bs:
            return bs[0][0]
        # zero-width address: identify the port through its DATA / EN connection instead
        for pn in ("\\DATA", "\\EN"):
            bs = [b for b in RP.bits_of(c.ports[pn], top) if b[0] != "const"]
            if bs:
                return bs[0][0].replace("_data", "_addr").replace("_en", "_addr")
        return None
    wid = {}
    for k, p in enumerate(wports):
        for c in wrs:
            en_bits = RP.bits_of(c.ports["\\EN"], top)
            grans = _granules(width, wps[k][1])
            nm = addr_name(c)
            if nm is not None and nm.lstrip("\\") == p.addr.name:
                wid[k] = c.params["\\PORTID"]
                # EN bit j is enable bit of the granule containing j
                ok = len(en_bits) == width and all(
                    en_bits[j][1] == gi for gi, (lo, hi) in enumerate(grans) for j in range(lo, hi))
                ob(f"write-en-replication[{k}]", ok, en_bits)
    for k, (p, (dom, tr)) in enumerate(zip(rports, rps)):
        for c in rds:
            nm = addr_name(c)
            if nm is not None and nm.lstrip("\\") == p.addr.name:
                tm = c.params["\\TRANSPARENCY_MASK"]
                tmv = tm.value if isinstance(tm, RP.Const) else tm
                want = sum(1 << wid[i] for i in tr if i in wid)
                ob(f"read-transparency-mask[{k}]", tmv == want, {"emitted": repr(tm), "expected": want})
                ob(f"read-clk-enable[{k}]", bool(c.params["\\CLK_ENABLE"]) == (dom != "comb"), c.params["\\CLK_ENABLE"])
    return {"task": name, "paths": 0, "solver_s": 0.0, "obligations": obs}


def check_several_memories():
    """Several memories in ONE module (what most designs look like): per memory, the write ports' PORTIDs are dense from 0 and
    every read port's TRANSPARENCY_MASK has exactly the bits of its own transparency set -- the numbering restarts for every
    memory -- in every order of declaration."""
    import itertools as _it
    from amaranth.hdl import Module, ClockDomain
    from amaranth.lib.memory import Memory
    from amaranth.back import rtlil
    from harness import rtlil_parse as RP
    obs = []
    specs = {"A": (2, (False,)), "B": (1, (True,)), "C": (2, (True, False))}     # name -> (write ports, per read port: transparent for all?)
    for order in _it.permutations("ABC"):
        m = Module()
        m.domains += ClockDomain("sync", reset_less=True)
        ports = []
        want = {}
        for nm in order:
            n_wr, reads = specs[nm]
            mem = Memory(shape=4, depth=2, init=[1, 2])
            wps = [mem.write_port() for _ in range(n_wr)]
            rps = [mem.read_port(transparent_for=tuple(wps) if tr else ()) for tr in reads]
            for k, p_ in enumerate(wps):
                p_.addr.name, p_.data.name, p_.en.name = f"{nm}_w{k}_addr", f"{nm}_w{k}_data", f"{nm}_w{k}_en"
                ports += [p_.addr, p_.data, p_.en]
            for k, p_ in enumerate(rps):
                p_.addr.name, p_.data.name, p_.en.name = f"{nm}_r{k}_addr", f"{nm}_r{k}_data", f"{nm}_r{k}_en"
                ports += [p_.addr, p_.data, p_.en]
            m.submodules[f"mem_{nm}"] = mem
            want[nm] = (n_wr, reads)
        mods = RP.parse(rtlil.convert(m, ports=ports, emit_src=False))
        bad = None
        for mod in mods.values():
            by_mem = {}
            for c in mod.cells.values():
                if c.kind in ("$memwr_v2", "$memrd_v2"):
                    by_mem.setdefault(str(c.params["\\MEMID"]), []).append(c)
            for memid, cells in by_mem.items():
                wrs = [c for c in cells if c.kind == "$memwr_v2"]
                rds = [c for c in cells if c.kind == "$memrd_v2"]
                ids = sorted(c.params["\\PORTID"] for c in wrs)
                if ids != list(range(len(wrs))) and bad is None:
                    bad = {"memory": memid, "write port PORTIDs": ids, "expected": list(range(len(wrs)))}
                # which declared memory is this?  the address wire names carry it
                nm = None
                for c in wrs + rds:
                    bs = RP.bits_of(c.ports["\\ADDR"], mod)
                    if bs:
                        nm = bs[0][0].lstrip("\\")[0]
                if nm is None:
                    continue
                n_wr, reads = want[nm]
                for c in rds:
                    bs = RP.bits_of(c.ports["\\ADDR"], mod)
                    k = int(bs[0][0].lstrip("\\").split("_r")[1][0])
                    tm = c.params["\\TRANSPARENCY_MASK"]
                    tmv = tm.value if isinstance(tm, RP.Const) else tm
                    exp = ((1 << n_wr) - 1) if reads[k] else 0
                    if tmv != exp and bad is None:
                        bad = {"memory": memid, "read port": k, "TRANSPARENCY_MASK": repr(tm), "expected": exp, "write ports of this memory": n_wr}
        obs.append({"name": f"several-memories[{''.join(order)}]::portids-and-transparency-masks-per-memory", "kind": "post",
                    "status": "proved" if bad is None else "refuted", "backend": "closed", "time_s": 0.0,
                    **({} if bad is None else {"failing_input": {**bad, "declaration order": "".join(order),
                                                                 "how": "three Memory objects in one Module, rtlil.convert, parsed"}})})
    return {"task": "several-memories", "paths": 0, "solver_s": 0.0, "obligations": obs}


def check_clock_polarity_and_defaults():
    """(a) every clocked memory port cell ($memrd_v2 with CLK_ENABLE, $memwr_v2) has the CLK_POLARITY of its domain's active
    edge, for ports in a posedge and in a negedge domain of the same memory;  (b) rows the initialiser does not mention hold
    the row shape's default constant (shape.const(None)) -- not all-zero bits -- in MemoryData.Init, in the simulator's
    storage and in the emitted $meminit_v2 DATA, for a row shape with a non-zero default."""
    from amaranth.hdl import Module, ClockDomain
    from amaranth.hdl._mem import MemoryData
    from amaranth.lib.memory import Memory
    from amaranth.lib import data
    from amaranth.back import rtlil
    from amaranth.sim import Simulator
    from harness import rtlil_parse as RP
    obs = []

    def ob(nm, ok, fi):
        obs.append({"name": f"memory::{nm}", "kind": "post", "status": "proved" if ok else "refuted", "backend": "closed", "time_s": 0.0,
                    **({} if ok else {"failing_input": fi})})
    # (a)
    mem = Memory(shape=4, depth=2, init=[1, 2])
    ports = {}
    for dn in ("p", "n"):
        ports[dn] = (mem.write_port(domain=dn), mem.read_port(domain=dn))
    m = Module()
    m.domains += [ClockDomain("p", reset_less=True), ClockDomain("n", clk_edge="neg", reset_less=True)]
    m.submodules.mem = mem
    plist = []
    for dn, (wp, rp) in ports.items():
        wp.addr.name, rp.addr.name = f"{dn}_waddr", f"{dn}_raddr"
        plist += [wp.addr, wp.data, wp.en, rp.addr, rp.data, rp.en]
    mods = RP.parse(rtlil.convert(m, ports=plist, emit_src=False))
    seen = {}
    for mod in mods.values():
        for c in mod.cells.values():
            if c.kind in ("$memrd_v2", "$memwr_v2"):
                bs = RP.bits_of(c.ports["\\ADDR"], mod)
                dom = bs[0][0].lstrip("\\")[0] if bs else "?"
                seen[(c.kind, dom)] = (int(bool(c.params["\\CLK_POLARITY"])), int(bool(c.params.get("\\CLK_ENABLE", 1))))
    want = {("$memrd_v2", "p"): (1, 1), ("$memrd_v2", "n"): (0, 1), ("$memwr_v2", "p"): (1, 1), ("$memwr_v2", "n"): (0, 1)}
    ob("rtlil::port-clock-polarity-is-the-domain's-edge", seen == want, {"(cell, domain) -> (CLK_POLARITY, CLK_ENABLE)": {str(k): v for k, v in seen.items()},
                                                                            "expected": {str(k): v for k, v in want.items()},
                                                                            "how": "Memory with a write and a sync read port in a posedge and in a negedge domain; rtlil.convert, parsed"})
    # (b)

    class Row(data.Struct):
        a: 4 = 5
        b: 4 = 0xA
    default = Row.const(None).as_bits()
    md = MemoryData(shape=Row, depth=3, init=[{"a": 1, "b": 2}])
    raw = [int(x) if isinstance(x, int) else x for x in md.init._raw]
    ob("init::unmentioned-rows-hold-the-shape's-default", raw == [0x21, default, default] and default == 0xA5,
       {"raw rows": raw, "expected": [0x21, default, default], "how": "MemoryData(shape=Struct with a=5, b=0xA defaults, depth=3, init=[{'a': 1, 'b': 2}]).init._raw"})
    mem2 = Memory(shape=Row, depth=3, init=[{"a": 1, "b": 2}])
    rp2 = mem2.read_port(domain="comb")
    m2 = Module()
    m2.submodules.mem = mem2
    got = []

    async def tb(ctx):
        for i in range(3):
            ctx.set(rp2.addr, i)
            got.append(ctx.get(rp2.data.as_value()) if hasattr(rp2.data, "as_value") else ctx.get(rp2.data))
    sim = Simulator(m2)
    sim.add_testbench(tb)
    try:
        sim.run()
    except Exception as e:
        got.append(repr(e)[:200])
    ob("simulator::unmentioned-rows-read-as-the-shape's-default", got == [0x21, default, default], {"rows read through an asynchronous port": got, "expected": [0x21, default, default]})
    text = rtlil.convert(m2, ports=[rp2.addr, rp2.data.as_value() if hasattr(rp2.data, "as_value") else rp2.data], emit_src=False)
    mods2 = RP.parse(text)
    datas = []
    for mod in mods2.values():
        for c in mod.cells.values():
            if c.kind == "$meminit_v2":
                bl = RP.bits_of(c.ports["\\DATA"], mod)
                datas.append("".join(b for _k, b in reversed(bl)))
    want_bits = "".join(format(v, "08b") for v in reversed([0x21, default, default]))
    ob("rtlil::meminit-data-holds-the-shape's-default", datas == [want_bits], {"$meminit_v2 DATA": datas, "expected": want_bits})
    return {"task": "clock-polarity-and-defaults", "paths": 0, "solver_s": 0.0, "obligations": obs}


def check_behaviour(cfg, name, broken=False):
    """The netlist (`build_netlist`, evaluated under spec/nir_eval.py) and the emitted RTLIL (parsed, evaluated under the
    published $memrd_v2 / $memwr_v2 semantics of spec/rtlil_eval.py) behave as the array-of-rows reference -- the same
    reference the simulator's process code is proved against in check_config -- for ALL row contents, addresses, data,
    enables and read-register contents: asynchronous read data now; rows and synchronous read registers after an edge of
    each domain."""
    from amaranth.hdl import Module, ClockDomain, Shape
    from amaranth.hdl._ir import build_netlist, Fragment
    from amaranth.hdl import _nir
    from amaranth.lib.memory import Memory
    from amaranth.back import rtlil
    from harness import rtlil_parse as RP
    from spec.nir_eval import NirEval
    from spec.rtlil_eval import RtlilEval
    width, signed, depth, wps, rps = cfg
    init = [norm((3 * i + 1) & mask(width), width, signed) for i in range(depth)]

    def build():
        mem = Memory(shape=Shape(width, signed), depth=depth, init=init)
        wports = [mem.write_port(domain=dom, granularity=g) for dom, g in wps]
        rports = [mem.read_port(domain=dom, transparent_for=tuple(wports[i] for i in tr)) for dom, tr in rps]
        for k, p in enumerate(wports):
            p.addr.name, p.data.name, p.en.name = f"w{k}_addr", f"w{k}_data", f"w{k}_en"
        for k, p in enumerate(rports):
            p.addr.name, p.data.name = f"r{k}_addr", f"r{k}_data"
            if p.domain != "comb":
                p.en.name = f"r{k}_en"
        m = Module()
        clkname = {}
        clks = []
        for dn in sorted({d for d, _ in wps} | {d for d, _ in rps if d != "comb"}):
            cd = ClockDomain(dn, reset_less=True)
            m.domains += cd
            clkname[dn] = cd.clk.name
            clks.append(cd.clk)
        m.submodules.mem = mem
        ports = list(clks)
        for p in wports:
            ports += [p.en, p.addr, p.data]
        for p in rports:
            ports += [p.addr, p.data] + ([p.en] if p.domain != "comb" else [])
        return m, ports, wports, rports, clkname
    m, ports, wports, rports, clkname = build()
    if not wports and not rports:
        return {"task": name, "paths": 0, "solver_s": 0.0, "obligations": [
            {"name": f"{name}::behaviour::no-ports", "kind": "post", "status": "proved", "backend": "closed", "time_s": 0.0}]}
    nl = build_netlist(Fragment.get(m, None), ports)
    m2, ports2, _w, _r, _c = build()
    mods = RP.parse(rtlil.convert(m2, ports=ports2, emit_src=False))
    top = nl.cells[0]
    doms = sorted({d for d, _ in wps} | {d for d, _ in rps if d != "comb"})
    mem_idx = [i for i, c in enumerate(nl.cells) if isinstance(c, _nir.Memory)]
    srp_idx = [i for i, c in enumerate(nl.cells) if isinstance(c, _nir.SyncReadPort)]
    out_names = {f"r{k}_data" for k in range(len(rports))}

    def body(path):
        rows = [path.var(f"row{i}", 0, mask(width)) for i in range(depth)]
        inputs = {}
        for nm, (_st, w) in top.ports_i.items():
            inputs[nm] = 0 if nm in clkname.values() else path.var(f"in_{nm}", 0, mask(w))
        wr = [(dom, inputs.get(f"w{k}_addr", 0), inputs.get(f"w{k}_data", 0), inputs.get(f"w{k}_en", 0), _granules(width, g))
              for k, (dom, g) in enumerate(wps)]
        old_r = [path.var(f"rreg{k}", 0, mask(width)) for k in range(len(rports))]
        r_in = [(inputs.get(f"r{k}_addr", 0), inputs.get(f"r{k}_en", 1) if dom != "comb" else 1) for k, (dom, _t) in enumerate(rps)]
        # netlist state
        nstate = {}
        for i in mem_idx:
            nstate[i] = list(rows)
        # map sync read port cells to port numbers through their data output nets
        srp_of = {}
        for k in range(len(rports)):
            if rps[k][0] != "comb" and f"r{k}_data" in top.ports_o and len(top.ports_o[f"r{k}_data"]):
                srp_of[top.ports_o[f"r{k}_data"][0] >> 16] = k
        for i in srp_idx:
            nstate[i] = old_r[srp_of[i]] if i in srp_of else 0
        ev = NirEval(nl, inputs, nstate)
        # RTLIL state
        rstate = {}
        rev = RtlilEval(mods, inputs=dict(inputs), state=rstate)
        rd_cells = {}
        for inst in rev.instances():
            for memid in inst.m.memories:
                rstate[(inst.path, memid)] = list(rows)
            for c in inst.m.cells.values():
                if c.kind == "$memrd_v2" and c.params["\\CLK_ENABLE"]:
                    rd_cells[(inst.path, c.name)] = (inst, c)
        # (names are not reliable across hierarchy levels: identify by behaviour instead -- set each register to its port's variable
        #  by matching the top-level output it reaches)
        for key, (inst, c) in rd_cells.items():
            rstate[key] = None
        for key in list(rd_cells):
            for k in range(len(rports)):
                if rps[k][0] == "comb":
                    continue
                trial = dict(rstate)
                for k2 in rd_cells:
                    trial[k2] = 0
                trial[key] = mask(width) if width else 0
                tv = RtlilEval(mods, inputs={nm: 0 for nm in inputs}, state={**trial, **{(i.path, mid): [0] * depth for i in rev.instances() for mid in i.m.memories}})
                if width and int(tv.out(f"r{k}_data")) == mask(width):
                    rstate[key] = old_r[k]
                    rd_cells[key] = (rd_cells[key][0], rd_cells[key][1], k)
            if rstate[key] is None:
                rstate[key] = 0
        # conflicts excluded as in check_config
        for (i, a), (j, b) in itertools.combinations(enumerate(wr), 2):
            if a[0] == b[0]:
                for ga, (alo, ahi) in enumerate(a[4]):
                    for gb, (blo, bhi) in enumerate(b[4]):
                        if alo < bhi and blo < ahi:
                            path.assume(Not(And(a[1] == b[1], ((a[3] >> ga) & 1) != 0, ((b[3] >> gb) & 1) != 0)))
        # --- asynchronous reads
        for k, (dom, _t) in enumerate(rps):
            if dom == "comb" and width:
                a = r_in[k][0]
                exp = 0
                for i in reversed(range(depth)):
                    exp = ite(a == i, rows[i], exp)
                if broken:
                    exp = exp ^ 1
                path.prove(f"{name}::behaviour::nir::async-read[{k}]", Implies(a < depth, to_sint(ev.value(top.ports_o[f"r{k}_data"])) == to_sint(exp)))
                path.prove(f"{name}::behaviour::rtlil::async-read[{k}]", Implies(a < depth, to_sint(rev.out(f"r{k}_data")) == to_sint(exp)))
        # --- edges
        for edge_dom in doms:
            exp_rows = list(rows)
            for (dom, addr, data, en, grans) in wr:
                if dom != edge_dom:
                    continue
                for i in range(depth):
                    nv = exp_rows[i]
                    for gk, (lo, hi) in enumerate(grans):
                        gm = mask(hi - lo) << lo
                        nv = ite(((en >> gk) & 1) != 0, (nv & ~gm) | (data & gm), nv)
                    exp_rows[i] = ite(addr == i, nv, exp_rows[i])
            exp_r = []
            for k, (dom, tr) in enumerate(rps):
                if dom == "comb":
                    exp_r.append(None)
                    continue
                if dom != edge_dom:
                    exp_r.append(old_r[k])
                    continue
                a, en = r_in[k]
                cap = 0
                for i in reversed(range(depth)):
                    cap = ite(a == i, rows[i], cap)
                for wi in tr:
                    (wdom, waddr, wdata, wen, grans) = wr[wi]
                    if wdom != edge_dom:
                        continue
                    for gk, (lo, hi) in enumerate(grans):
                        gm = mask(hi - lo) << lo
                        cap = ite(And(waddr == a, ((wen >> gk) & 1) != 0), (cap & ~gm) | (wdata & gm), cap)
                exp_r.append((a, ite(en != 0, cap, old_r[k])))
            # netlist
            clk_net = None
            for nm, (start, w) in top.ports_i.items():
                if nm == clkname[edge_dom]:
                    clk_net = start
            ns = ev.next_state({clk_net: 1})
            for i in mem_idx:
                for r in range(depth):
                    path.prove(f"{name}::behaviour::nir::{edge_dom}::row[{r}]", to_sint(ns[i][r]) & mask(width) == to_sint(exp_rows[r]))
            for i in srp_idx:
                if i in srp_of and exp_r[srp_of[i]] is not None:
                    e = exp_r[srp_of[i]]
                    if isinstance(e, tuple):
                        path.prove(f"{name}::behaviour::nir::{edge_dom}::sync-read[{srp_of[i]}]", Implies(e[0] < depth, to_sint(ns[i]) & mask(width) == to_sint(e[1])))
                    else:
                        path.prove(f"{name}::behaviour::nir::{edge_dom}::read-held[{srp_of[i]}]", to_sint(ns[i]) == to_sint(e))
            # RTLIL
            cn = clkname[edge_dom]
            before = RtlilEval(mods, inputs={**inputs, cn: 0}, state=rstate)
            after = RtlilEval(mods, inputs={**inputs, cn: 1}, state=rstate)

            def active(inst, c):
                ib, cb_ = c04.find_cell(before, inst.path, c.name)
                ia, ca_ = c04.find_cell(after, inst.path, c.name)
                vb, va = int(ib.sig(cb_.ports["\\CLK"])), int(ia.sig(ca_.ports["\\CLK"]))
                pol = 1 if c.params["\\CLK_POLARITY"] else 0
                return vb != va and va == pol
            rn = before.next_memories(active)
            for inst in before.instances():
                for memid in inst.m.memories:
                    for r in range(depth):
                        path.prove(f"{name}::behaviour::rtlil::{edge_dom}::row[{r}]", to_sint(rn[(inst.path, memid)][r]) & mask(width) == to_sint(exp_rows[r]))
            for key, tup in rd_cells.items():
                if len(tup) == 3 and exp_r[tup[2]] is not None:
                    e = exp_r[tup[2]]
                    if isinstance(e, tuple):
                        path.prove(f"{name}::behaviour::rtlil::{edge_dom}::sync-read[{tup[2]}]", Implies(e[0] < depth, to_sint(rn[key]) & mask(width) == to_sint(e[1])))
                    else:
                        path.prove(f"{name}::behaviour::rtlil::{edge_dom}::read-held[{tup[2]}]", to_sint(rn[key]) == to_sint(e))
        path.prove(f"{name}::behaviour::evaluated", True)
    x = Exploration(f"{name}::behaviour", body).run()
    return runner.from_exploration(name, x)


def check_init_frame():
    """Simulation never writes into the design: after rows have been written through a write port and through testbench row
    access on the real Simulator, the memory's declared initial contents (`memory.init`, what RTLIL $meminit_v2 carries) are
    unchanged, `Simulator.reset()` restores them, and a second Simulator on the same design starts from them."""
    from amaranth.hdl import Module, Shape
    from amaranth.lib.memory import Memory
    from amaranth.sim import Simulator
    from amaranth.back import rtlil
    obs = []
    for (w, sgn) in ((4, False), (3, True)):
        init = [1, 2, -3 if sgn else 3, 0, 2]
        mem = Memory(shape=Shape(w, sgn), depth=5, init=init)
        wp = mem.write_port()
        rp = mem.read_port(domain="comb")
        m = Module()
        m.submodules.mem = mem
        declared = [int(x) for x in mem.init]
        ports = [wp.addr, wp.data, wp.en, rp.addr, rp.data]
        text0 = rtlil.convert(m, ports=ports, emit_src=False)
        sim = Simulator(m)
        sim.add_clock(1e-6)
        seen = {}

        async def tb(ctx):
            seen["start"] = [ctx.get(mem.data[i]) for i in range(5)]
            ctx.set(wp.addr, 1)
            ctx.set(wp.data, 7 if not sgn else -1)
            ctx.set(wp.en, 1)
            await ctx.tick()
            ctx.set(wp.en, 0)
            ctx.set(mem.data[3], 5 if not sgn else 2)
            await ctx.tick()
            seen["end"] = [ctx.get(mem.data[i]) for i in range(5)]
        sim.add_testbench(tb)
        sim.run()
        after = [int(x) for x in mem.init]
        nm = f"init-frame[{w},{sgn}]"

        def ob(label, ok, fi):
            obs.append({"name": f"{nm}::{label}", "kind": "post", "status": "proved" if ok else "refuted", "backend": "closed", "time_s": 0.0,
                        **({} if ok else {"failing_input": {**fi, "how": "Memory with a write port, written through the port and through ctx.set(mem.data[i]) on the real Simulator"}})})
        ob("rows-were-written", seen["end"] != seen["start"] and seen["start"] == declared, {"start": seen.get("start"), "end": seen.get("end"), "declared": declared})
        ob("declared-initial-contents-unchanged", after == declared, {"declared": declared, "memory.init after simulation": after})
        m2 = Module()
        text1 = rtlil.convert(m, ports=ports, emit_src=False)
        ob("rtlil-initial-contents-unchanged", text1 == text0, {"what": "rtlil.convert of the same design differs after simulating it"})
        sim.reset()
        got = {}

        async def tb2(ctx):
            got["rows"] = [ctx.get(mem.data[i]) for i in range(5)]
        sim2 = Simulator(m)
        sim2.add_testbench(tb2)
        sim2.run()
        ob("second-simulator-starts-from-declared-contents", got.get("rows") == declared, {"rows": got.get("rows"), "declared": declared})
    return {"task": "init-frame", "paths": 0, "solver_s": 0.0, "obligations": obs}


def check_tb_row_access():
    """Direct row access from a testbench reads and writes the SAME storage the ports see: for memories with 0, 1 and 2 write
    ports, after ctx.set(mem.data[i], v) an asynchronous read port addressing row i outputs v at once, a synchronous read
    port captures v at its next edge, ctx.get(mem.data[i]) returns v, and the other rows are unchanged -- every row and every
    value of the shape (exhaustive for the listed sizes), whole-row and slice writes; a row written through a write port is
    what ctx.get(mem.data[i]) returns.  Real Simulator."""
    from amaranth.hdl import Module, Shape
    from amaranth.lib.memory import Memory
    from amaranth.sim import Simulator
    obs = []
    for n_wr in (0, 1, 2):
        for (w, sgn, depth) in ((2, False, 3), (3, True, 2)):
            init = [(k + 1) % (1 << (w - 1)) for k in range(depth)]
            mem = Memory(shape=Shape(w, sgn), depth=depth, init=init)
            wps = [mem.write_port() for _ in range(n_wr)]
            rpa = mem.read_port(domain="comb")
            rps = mem.read_port(domain="sync")
            m = Module()
            m.submodules.mem = mem
            bad = []
            lo, hi = (-(1 << (w - 1)), 1 << (w - 1)) if sgn else (0, 1 << w)

            async def tb(ctx, mem=mem, rpa=rpa, rps=rps, wps=wps, depth=depth, bad=bad, lo=lo, hi=hi, w=w, sgn=sgn):
                def note(what, **kw):
                    if not bad:
                        bad.append({"what": what, **kw})
                for i in range(depth):
                    for v in range(lo, hi):
                        before = [ctx.get(mem.data[k]) for k in range(depth)]
                        ctx.set(rpa.addr, i)
                        ctx.set(rps.addr, i)
                        ctx.set(mem.data[i], v)
                        if ctx.get(rpa.data) != v:
                            note("asynchronous read port does not output the row the testbench just wrote", row=i, written=v, port=ctx.get(rpa.data))
                        if ctx.get(mem.data[i]) != v:
                            note("row reads back differently", row=i, written=v, read=ctx.get(mem.data[i]))
                        others = [ctx.get(mem.data[k]) for k in range(depth)]
                        if any(others[k] != before[k] for k in range(depth) if k != i):
                            note("another row changed", row=i, written=v, before=before, after=others)
                        await ctx.tick()
                        if ctx.get(rps.data) != v:
                            note("synchronous read port did not capture the row the testbench wrote", row=i, written=v, port=ctx.get(rps.data))
                        # slice write: only the addressed bits of the row change
                        ctx.set(mem.data[i][0:1], 1 - (v & 1))
                        want = (v & ~1) | (1 - (v & 1))
                        if sgn and want >= (1 << (w - 1)):
                            want -= 1 << w
                        if sgn and want < -(1 << (w - 1)):
                            want += 1 << w
                        if ctx.get(mem.data[i]) != want or ctx.get(rpa.data) != want:
                            note("slice write through a row", row=i, row_before=v, expected=want, row_after=ctx.get(mem.data[i]), async_port=ctx.get(rpa.data))
                    if wps:
                        ctx.set(wps[-1].addr, i)
                        ctx.set(wps[-1].data, lo)
                        ctx.set(wps[-1].en, 1)
                        await ctx.tick()
                        ctx.set(wps[-1].en, 0)
                        if ctx.get(mem.data[i]) != lo:
                            note("row written through a write port reads differently from the testbench", row=i, written=lo, read=ctx.get(mem.data[i]))
            sim = Simulator(m)
            sim.add_clock(1e-6)
            sim.add_testbench(tb)
            try:
                sim.run()
            except Exception as e:
                if not bad:
                    bad.append({"raised": repr(e)[:300]})
            nm = f"tb-row-access[write_ports={n_wr},w={w},signed={sgn},depth={depth}]"
            obs.append({"name": f"{nm}::same-storage", "kind": "post", "status": "proved" if not bad else "refuted", "backend": "closed", "time_s": 0.0,
                        **({} if not bad else {"failing_input": {**bad[0], "memory": f"Memory(shape={Shape(w, sgn)!r}, depth={depth}) with {n_wr} write ports, a comb and a sync read port",
                                                                 "how": "real Simulator testbench: ctx.set(mem.data[i], v), then the read ports and ctx.get(mem.data[k])"}})})
    return {"task": "tb-row-access", "paths": 0, "solver_s": 0.0, "obligations": obs}


def check_async_reset_domain():
    """a memory whose ports are in a domain with an ASYNCHRONOUS reset: neither the assertion of the reset (no clock edge) nor
    a clock edge while it is asserted changes a row or a read register beyond what the ports do -- the emitted $memrd_v2 /
    $memwr_v2 have no reset, and the reset edge is not a clock edge"""
    from amaranth.hdl import Module, ClockDomain, Shape
    from amaranth.lib.memory import Memory
    name = "async-reset-domain"
    mem = Memory(shape=Shape(3), depth=2, init=[5, 2])
    wp = mem.write_port(domain="sync")
    rp = mem.read_port(domain="sync")
    m = Module()
    cd = ClockDomain("sync", async_reset=True)
    m.domains += cd
    m.submodules.mem = mem
    d = Design(m)
    d.register(wp.en, wp.addr, wp.data, rp.addr, rp.data, rp.en)
    ms = d.mem(0)

    def body(path):
        d.fresh(path)
        d.set(cd.clk, 0)
        d.set(cd.rst, 0)
        d.apply([], path, f"{name}::pre")
        rows = list(ms.data)
        rdata = d.val(rp.data)
        d.apply([(cd.rst, 1)], path, f"{name}::rst-rise")
        path.prove(f"{name}::reset-edge-leaves-rows", And(*[to_sint(ms.data[i]) == to_sint(rows[i]) for i in range(2)]))
        path.prove(f"{name}::reset-edge-leaves-read-register", to_sint(d.val(rp.data)) == to_sint(rdata))
        # a clock edge while the reset is asserted: the ports work as always
        a, en, wa, wd, we = d.val(rp.addr), d.val(rp.en), d.val(wp.addr), d.val(wp.data), d.val(wp.en)
        d.apply([(cd.clk, 1)], path, f"{name}::clk-in-reset")
        cap = ite(a == 0, rows[0], rows[1])
        path.prove(f"{name}::read-port-works-in-reset", to_sint(d.val(rp.data)) == ite(en != 0, to_sint(cap), to_sint(rdata)))
        for i in range(2):
            path.prove(f"{name}::write-port-works-in-reset[{i}]", to_sint(ms.data[i]) == to_sint(ite(And(we != 0, wa == i), wd, rows[i])))
    return runner.from_exploration(name, Exploration(name, body).run())


def run_task(task):
    if task[0] == "rtlil":
        cfg = configs("thorough")[task[1]]
        return check_rtlil(cfg, f"mem{task[1]}{cfg!r}".replace(" ", ""))
    if task[0] == "storage":
        from . import c08
        return c08.unit_mem(task[1], task[2], task[3])
    if task[0] == "config":
        cfg = configs("thorough")[task[1]]
        return check_config(cfg, f"mem{task[1]}{cfg!r}".replace(" ", ""))
    if task[0] == "en-width":
        return check_en_width()
    if task[0] == "clock-polarity-and-defaults":
        return check_clock_polarity_and_defaults()
    if task[0] == "several-memories":
        return check_several_memories()
    if task[0] == "tb-row-access":
        return check_tb_row_access()
    if task[0] == "init-frame":
        return check_init_frame()
    if task[0] == "async-reset-domain":
        return check_async_reset_domain()
    if task[0] == "behaviour":
        cfg = configs("thorough")[task[1]]
        return check_behaviour(cfg, f"mem{task[1]}{cfg!r}".replace(" ", ""))
    if task[0] == "canary-behaviour":
        cfg = configs("quick")[3]
        return check_behaviour(cfg, "canary-behaviour", broken=True)
    if task[0] == "canary-transparency":
        cfg = configs("quick")[2]
        return check_config(cfg, "canary", break_transparency=True)
    raise KeyError(task[0])


def find_failing_input(res, ob):
    if ob.get("model") is None:
        return None
    return {"model": ob["model"], "how": "exact counter-model of the generated memory process code: rows (s<k>_row<i>), "
            "port inputs before the edge; obligation " + ob["name"]}


def replay(data):
    import re
    m = re.match(r"mem(\d+)\(", data["obligation"])
    if data["obligation"].startswith("_PyMemoryState"):
        r = runner.merge_results("storage", [run_task(("storage", 2, False, 2)), run_task(("storage", 2, True, 2))])
    elif not m:
        r = check_en_width()
    elif "::rtlil::" in data["obligation"]:
        r = run_task(("rtlil", int(m.group(1))))
    else:
        r = run_task(("config", int(m.group(1))))
    return any(o["status"] == "refuted" for o in r["obligations"])
