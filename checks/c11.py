"""C11 -- memories behave as arrays of rows under any port configuration.

Layer B/C on the real `lib.memory.Memory` (-> `MemoryInstance` -> the memory branch of
`_FragmentCompiler`): rows and port registers are the representation, a clock edge of a port domain is
the operation (body = generated run() code), the array of rows is the abstract view.  For every
enumerated configuration and for ALL row contents, addresses, data and enables:

  async-read     an asynchronous read port outputs the addressed row (address < depth)
  write          after the edge, every row equals the old row with exactly the enabled granules of the
                 enabled write ports that address it replaced (ports in declaration order; writes
                 beyond the depth change nothing); signed rows stay canonical
  sync-read      a synchronous read port, when enabled, captures the addressed pre-edge row patched with
                 the granules being written at this edge by ports in its transparency set (same
                 address); holds its output when disabled
  other-domain   an edge of another domain changes neither the rows nor this domain's read registers
  en-width       WritePort.Signature: en_width * granularity == width (zero-width / None cases)
  init           the reset state holds the declared initial contents (wrapped as C10 states)
The storage contracts (_PyMemoryState.read/write/commit) are used through their contracts, proved in
C08; testbench row access to the same storage is C05's `row` obligations.  RTLIL agreement: C04.
"""
import itertools

from pyvc.explore import Exploration
from pyvc.sym import SInt, to_sint, And, Or, Not, Implies, ite
from pyvc import runner, source
from spec.sem import mask, norm, shape_range
from harness.kernel import Design

PROPERTY = "C11"

META = {
    "level": "proof",
    "trusted_base": [
        "pyvc symbolic integer encoding; z3 / cvc5",
        "kernel composition model (harness/kernel.py)",
        "contracts of _PyMemoryState.read/write/commit and _PySignalState.update (C08)",
        "array-of-rows reference in this file, written from the property statement",
    ],
    "assumptions": [
        "configurations enumerated (shapes, depths incl. non-power-of-two and 1, 0..2 write ports with "
        "granularities, comb / sync / transparent read ports, one or two domains)",
        "two write ports enabled on the same granule of the same row at the same edge is excluded (a write "
        "conflict the property does not order)",
        "reads beyond the depth are unspecified and excluded",
    ],
    "bounds": {"quick": {}, "thorough": {}},
    "explanation": "memory process templates against an array-of-rows model",
}


def functions():
    return [source.describe("amaranth/sim/_pyrtl.py", "_FragmentCompiler.__call__", arith="generated code executed", bound="configs enumerated"),
            source.describe("amaranth/lib/memory.py", "Memory.elaborate", arith="-", bound="configs enumerated"),
            source.describe("amaranth/lib/memory.py", "Memory.read_port", arith="-", bound="-"),
            source.describe("amaranth/lib/memory.py", "Memory.write_port", arith="-", bound="-"),
            source.describe("amaranth/lib/memory.py", "WritePort.Signature.__init__", arith="closed", bound="widths <= 12"),
            source.describe("amaranth/hdl/_mem.py", "MemoryInstance._WritePort._granularity", arith="closed", bound="-"),
            source.describe("amaranth/hdl/_mem.py", "MemoryInstance.read_port", arith="-", bound="-"),
            source.describe("amaranth/hdl/_mem.py", "MemoryInstance.write_port", arith="-", bound="-")]


# configuration: (width, signed, depth, write ports [(domain, granularity)], read ports [(domain, transparent idx tuple)])
def configs(tier):
    cs = []
    base = [
        (4, False, 3, [("sync", None)], [("comb", ())]),
        (4, False, 3, [("sync", 2)], [("sync", ())]),
        (4, False, 3, [("sync", 2)], [("sync", (0,))]),
        (4, False, 2, [("sync", 1), ("sync", 4)], [("sync", (0,)), ("comb", ())]),
        (4, False, 3, [("sync", 2), ("sync", 2)], [("sync", (0, 1))]),
        (4, False, 3, [("sync", 4), ("sync", 2)], [("sync", (1,))]),
        (3, True, 2, [("sync", None)], [("sync", (0,)), ("comb", ())]),
        (3, True, 3, [("sync", None), ("sync", None)], [("sync", ())]),
        (0, False, 2, [("sync", None)], [("sync", ()), ("comb", ())]),
        (0, False, 2, [("sync", 0)], [("comb", ())]),
        (1, False, 1, [("sync", None)], [("sync", (0,)), ("comb", ())]),
        (2, False, 1, [("sync", 1)], [("comb", ())]),
        (2, False, 4, [("w", None)], [("r", ()), ("w", (0,)), ("comb", ())]),
        (2, False, 3, [("w", 1), ("r", 2)], [("r", (1,)), ("w", ())]),
        (2, False, 2, [], [("sync", ()), ("comb", ())]),
        (2, False, 2, [("sync", None)], []),
        (4, False, 5, [("sync", 2)], [("sync", (0,))]),
    ]
    cs += base
    if tier == "thorough":
        cs += [
            (6, False, 4, [("sync", 2), ("sync", 3)], [("sync", (0, 1)), ("sync", (1,)), ("comb", ())]),
            (6, False, 6, [("sync", 1)], [("sync", (0,)), ("comb", ())]),
            (4, True, 5, [("sync", None), ("w", None)], [("sync", (0,)), ("w", (1,)), ("comb", ())]),
            (8, False, 3, [("sync", 4), ("sync", 2), ("sync", 8)], [("sync", (0, 1, 2))]),
        ]
    return cs


def tasks(tier):
    ts = [("config", k) for k in range(len(configs(tier)))] + [("en-width",)]
    ts += [("rtlil", k) for k in range(len(configs(tier)))]
    # the storage class itself (the contracts the configurations above rely on)
    ts += [("storage", 2, False, 2), ("storage", 2, True, 2)]
    return ts


def canaries(tier):
    return [("canary-transparency",)]


def _granules(width, gran):
    """list of (lo, hi) bit ranges, one per enable bit"""
    if gran is None:
        return [(0, width)]
    if width == 0 or gran == 0:
        return []
    return [(k * gran, (k + 1) * gran) for k in range(width // gran)]


def check_config(cfg, name, break_transparency=False):
    from amaranth.hdl import Module, ClockDomain, Shape
    from amaranth.lib.memory import Memory
    width, signed, depth, wps, rps = cfg
    init = [(3 * i + 1) & mask(width) if not signed else -(i % (1 << max(width - 1, 0))) for i in range(depth)]
    mem = Memory(shape=Shape(width, signed), depth=depth, init=init)
    wports = [mem.write_port(domain=dom, granularity=g) for dom, g in wps]
    rports = [mem.read_port(domain=dom, transparent_for=tuple(wports[i] for i in tr)) for dom, tr in rps]
    m = Module()
    doms = sorted({d for d, _ in wps} | {d for d, _ in rps if d != "comb"})
    cds = {}
    for dn in doms:
        # a resettable domain: the domain reset (left symbolic) must not affect rows or read registers
        cds[dn] = ClockDomain(dn)
        m.domains += cds[dn]
    m.submodules.mem = mem
    d = Design(m)
    for p in wports:
        d.register(p.en, p.addr, p.data)
    for p in rports:
        d.register(p.addr, p.data)
        if p.domain != "comb":
            d.register(p.en)
    obs = []
    ms = d.mem(0) if d.mem_slots else None
    # --- init
    if ms is not None:
        d.reset_state()
        ok = [int(x) for x in ms.data] == [norm(v, width, signed) for v in init]
        obs.append({"name": f"{name}::init", "kind": "post", "status": "proved" if ok else "refuted", "backend": "closed",
                    "time_s": 0.0, **({} if ok else {"failing_input": {"init": init, "stored": [int(x) for x in ms.data]}})})
    parts = []
    for edge_dom in doms:
        def body(path, edge_dom=edge_dom):
            d.fresh(path)
            for cd in cds.values():
                d.set(cd.clk, 0)
            d.apply([], path, f"{name}::{edge_dom}::pre")
            rows = list(ms.data) if ms is not None else []
            # --- asynchronous read
            for k, p in enumerate(rports):
                if p.domain == "comb":
                    a = d.val(p.addr)
                    exp = 0
                    for i in reversed(range(depth)):
                        exp = ite(a == i, rows[i], exp)
                    path.prove(f"{name}::{edge_dom}::async-read[{k}]", Implies(a < depth, to_sint(d.val(p.data)) == to_sint(exp)))
            # --- inputs at the edge
            wr = []
            for p, (dom, g) in zip(wports, wps):
                wr.append((dom, d.val(p.addr), d.val(p.data), d.val(p.en), _granules(width, g)))
            # exclude write conflicts (two ports of the edge domain enabled on overlapping bits of one row)
            for (i, a), (j, b) in itertools.combinations(enumerate(wr), 2):
                if a[0] == edge_dom and b[0] == edge_dom:
                    for ga, (alo, ahi) in enumerate(a[4]):
                        for gb, (blo, bhi) in enumerate(b[4]):
                            if alo < bhi and blo < ahi:
                                path.assume(Not(And(a[1] == b[1], ((a[3] >> ga) & 1) != 0, ((b[3] >> gb) & 1) != 0)))
            old_rdata = [d.val(p.data) for p in rports]
            r_in = [(d.val(p.addr), d.val(p.en) if p.domain != "comb" else 1) for p in rports]
            d.apply([(cds[edge_dom].clk, 1)], path, f"{name}::{edge_dom}::post")
            # --- rows after the edge
            exp_rows = list(rows)
            for (dom, addr, data, en, grans) in wr:
                if dom != edge_dom:
                    continue
                for i in range(depth):
                    nv = exp_rows[i] & mask(width)
                    for gk, (lo, hi) in enumerate(grans):
                        gm = mask(hi - lo) << lo
                        nv = ite(((en >> gk) & 1) != 0, (nv & ~gm) | (data & gm), nv)
                    nv = norm(nv, width, signed)
                    exp_rows[i] = ite(addr == i, nv, exp_rows[i])
            for i in range(depth):
                path.prove(f"{name}::{edge_dom}::row[{i}]", to_sint(ms.data[i]) == to_sint(exp_rows[i]))
            # --- synchronous read ports
            for k, (p, (dom, tr)) in enumerate(zip(rports, rps)):
                if dom == "comb":
                    continue
                if dom != edge_dom:
                    path.prove(f"{name}::{edge_dom}::other-domain-read-held[{k}]", to_sint(d.val(p.data)) == to_sint(old_rdata[k]))
                    continue
                a, en = r_in[k]
                cap = 0
                for i in reversed(range(depth)):
                    cap = ite(a == i, rows[i], cap)
                cap = to_sint(cap) & mask(width)
                for wi in tr:
                    (wdom, waddr, wdata, wen, grans) = wr[wi]
                    for gk, (lo, hi) in enumerate(grans):
                        gm = mask(hi - lo) << lo
                        hit = And(waddr == a, ((wen >> gk) & 1) != 0)
                        if break_transparency:
                            hit = And(hit, False)
                        cap = ite(hit, (cap & ~gm) | (wdata & gm), cap)
                cap = norm(cap, width, signed)
                path.prove(f"{name}::{edge_dom}::sync-read[{k}]",
                           Implies(a < depth, to_sint(d.val(p.data)) == ite(en != 0, to_sint(cap), to_sint(old_rdata[k]))))
                path.prove(f"{name}::{edge_dom}::sync-read-hold[{k}]",
                           Implies(en == 0, to_sint(d.val(p.data)) == to_sint(old_rdata[k])))
        if ms is None:
            continue
        parts.append(runner.from_exploration(name, Exploration(f"{name}::{edge_dom}", body).run()))
    res = runner.merge_results(name, parts)
    res["obligations"] = obs + res["obligations"]
    if not res["obligations"]:
        res["obligations"].append({"name": f"{name}::elaborates", "kind": "post", "status": "proved", "backend": "closed", "time_s": 0.0})
    return res


def check_en_width():
    from amaranth.hdl import Shape
    from amaranth.lib.memory import WritePort
    obs = []
    for width in range(0, 13):
        for gran in [None] + list(range(0, 13)):
            legal = gran is None or width == 0 or (gran > 0 and width % gran == 0)
            try:
                sig = WritePort.Signature(addr_width=2, shape=Shape(width), granularity=gran)
                en_w = sig.members["en"].shape.width if hasattr(sig.members["en"].shape, "width") else Shape.cast(sig.members["en"].shape).width
                if gran is None:
                    ok = en_w == 1
                elif width == 0:
                    ok = en_w == 0
                else:
                    ok = legal and en_w * gran == width
            except ValueError:
                ok = not legal
            obs.append({"name": f"en-width::w={width},g={gran}", "kind": "post", "status": "proved" if ok else "refuted",
                        "backend": "closed", "time_s": 0.0,
                        **({} if ok else {"failing_input": {"width": width, "granularity": gran}})})
    return {"task": "en-width", "paths": 0, "solver_s": 0.0, "obligations": obs}


def check_rtlil(cfg, name):
    """Emitted RTLIL memory cells agree with the declared memory: $meminit_v2 DATA is the concatenation of
    the initial rows (each as `width` two's complement bits, row 0 least significant), WIDTH/WORDS/size,
    one $memwr_v2 per write port with distinct dense PORTIDs and per-granule EN replication, one $memrd_v2 per
    read port whose TRANSPARENCY_MASK has exactly the PORTID bits of its transparency set, CLK_ENABLE iff
    synchronous."""
    from amaranth.hdl import Module, ClockDomain, Shape
    from amaranth.lib.memory import Memory
    from amaranth.back import rtlil
    from harness import rtlil_parse as RP
    width, signed, depth, wps, rps = cfg
    init = [(3 * i + 1) & mask(width) if not signed else -(i % (1 << max(width - 1, 0))) - (1 if i == 0 and width > 0 else 0)
            for i in range(depth)]
    init = [norm(v, width, signed) for v in init]
    mem = Memory(shape=Shape(width, signed), depth=depth, init=init)
    wports = [mem.write_port(domain=dom, granularity=g) for dom, g in wps]
    rports = [mem.read_port(domain=dom, transparent_for=tuple(wports[i] for i in tr)) for dom, tr in rps]
    for k, p in enumerate(wports):
        p.addr.name, p.data.name, p.en.name = f"w{k}_addr", f"w{k}_data", f"w{k}_en"
    for k, p in enumerate(rports):
        p.addr.name, p.data.name = f"r{k}_addr", f"r{k}_data"
        if p.domain != "comb":
            p.en.name = f"r{k}_en"
    m = Module()
    for dn in sorted({d for d, _ in wps} | {d for d, _ in rps if d != "comb"}):
        m.domains += ClockDomain(dn, reset_less=True)
    m.submodules.mem = mem
    ports = []
    for p in wports:
        ports += [p.en, p.addr, p.data]
    for p in rports:
        ports += [p.addr, p.data] + ([p.en] if p.domain != "comb" else [])
    text = rtlil.convert(m, ports=ports, emit_src=False)
    mods = RP.parse(text)
    obs = []

    def ob(nm, ok, detail=None):
        obs.append({"name": f"{name}::rtlil::{nm}", "kind": "post", "status": "proved" if ok else "refuted",
                    "backend": "closed", "time_s": 0.0,
                    **({} if ok else {"failing_input": {"config": repr(cfg), "init": init, "detail": detail,
                                                        "how": "rtlil.convert of the memory design, parsed"}})})
    cells = [c for mod in mods.values() for c in mod.cells.values()]
    mems = [mm for mod in mods.values() for mm in mod.memories.values()]
    inits = [c for c in cells if c.kind == "$meminit_v2"]
    wrs = [c for c in cells if c.kind == "$memwr_v2"]
    rds = [c for c in cells if c.kind == "$memrd_v2"]
    if not wports and not rports:
        ob("no-ports", True)
        return {"task": name, "paths": 0, "solver_s": 0.0, "obligations": obs}
    ob("one-memory", len(mems) == 1 and mems[0].width == width and mems[0].size == depth, [(mm.width, mm.size) for mm in mems])
    ob("one-init-cell", len(inits) == 1, len(inits))
    if len(inits) == 1:
        c = inits[0]
        data = c.ports["\\DATA"]
        top0 = [mod for mod in mods.values() if c in mod.cells.values()][0]
        bl = RP.bits_of(data, top0)
        bits = "".join(b for _k, b in reversed(bl)) if all(k == "const" for k, _b in bl) else None
        want = "".join(format(r & mask(width), f"0{width}b") if width else "" for r in reversed(init))
        ob("init-data", bits == want, {"emitted": bits, "expected": want})
        ob("init-shape", c.params.get("\\WIDTH") == width and c.params.get("\\WORDS") == depth,
           {k: repr(v) for k, v in c.params.items()})
    ob("write-port-count", len(wrs) == len(wports), len(wrs))
    ids = sorted(c.params.get("\\PORTID") for c in wrs)
    ob("write-portids-dense", ids == list(range(len(wrs))), ids)
    ob("read-port-count", len(rds) == len(rports), len(rds))
    # match cells to ports through the ADDR connection (port signals are top-level wires named <x>__addr)
    top = [mod for mod in mods.values() if any(c in mod.cells.values() for c in wrs + rds)][0]

    def addr_name(c):
        a = c.ports["\\ADDR"]
        bs = RP.bits_of(a, top)
        if bs:
            return bs[0][0]
        # zero-width address: identify the port through its DATA / EN connection instead
        for pn in ("\\DATA", "\\EN"):
            bs = [b for b in RP.bits_of(c.ports[pn], top) if b[0] != "const"]
            if bs:
                return bs[0][0].replace("_data", "_addr").replace("_en", "_addr")
        return None
    wid = {}
    for k, p in enumerate(wports):
        for c in wrs:
            en_bits = RP.bits_of(c.ports["\\EN"], top)
            grans = _granules(width, wps[k][1])
            nm = addr_name(c)
            if nm is not None and nm.lstrip("\\") == p.addr.name:
                wid[k] = c.params["\\PORTID"]
                # EN bit j is enable bit of the granule containing j
                ok = len(en_bits) == width and all(
                    en_bits[j][1] == gi for gi, (lo, hi) in enumerate(grans) for j in range(lo, hi))
                ob(f"write-en-replication[{k}]", ok, en_bits)
    for k, (p, (dom, tr)) in enumerate(zip(rports, rps)):
        for c in rds:
            nm = addr_name(c)
            if nm is not None and nm.lstrip("\\") == p.addr.name:
                tm = c.params["\\TRANSPARENCY_MASK"]
                tmv = tm.value if isinstance(tm, RP.Const) else tm
                want = sum(1 << wid[i] for i in tr if i in wid)
                ob(f"read-transparency-mask[{k}]", tmv == want, {"emitted": repr(tm), "expected": want})
                ob(f"read-clk-enable[{k}]", bool(c.params["\\CLK_ENABLE"]) == (dom != "comb"), c.params["\\CLK_ENABLE"])
    return {"task": name, "paths": 0, "solver_s": 0.0, "obligations": obs}


def run_task(task):
    if task[0] == "rtlil":
        cfg = configs("thorough")[task[1]]
        return check_rtlil(cfg, f"mem{task[1]}{cfg!r}".replace(" ", ""))
    if task[0] == "storage":
        from . import c08
        return c08.unit_mem(task[1], task[2], task[3])
    if task[0] == "config":
        cfg = configs("thorough")[task[1]]
        return check_config(cfg, f"mem{task[1]}{cfg!r}".replace(" ", ""))
    if task[0] == "en-width":
        return check_en_width()
    if task[0] == "canary-transparency":
        cfg = configs("quick")[2]
        return check_config(cfg, "canary", break_transparency=True)
    raise KeyError(task[0])


def find_failing_input(res, ob):
    if ob.get("model") is None:
        return None
    return {"model": ob["model"], "how": "exact counter-model of the generated memory process code: rows (s<k>_row<i>), "
            "port inputs before the edge; obligation " + ob["name"]}


def replay(data):
    import re
    m = re.match(r"mem(\d+)\(", data["obligation"])
    if data["obligation"].startswith("_PyMemoryState"):
        r = runner.merge_results("storage", [run_task(("storage", 2, False, 2)), run_task(("storage", 2, True, 2))])
    elif not m:
        r = check_en_width()
    elif "::rtlil::" in data["obligation"]:
        r = run_task(("rtlil", int(m.group(1))))
    else:
        r = run_task(("config", int(m.group(1))))
    return any(o["status"] == "refuted" for o in r["obligations"])
