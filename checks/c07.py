"""C07 -- every emitted RTLIL document is structurally well-formed.

 add-name   PROOF (z3 strings + arrays, real code on proxies): `_ir._add_name(assigned_names, name)` for EVERY
            name, every set of taken names and every set size: returns a name that was not taken, extends the set
            by exactly that name, returns `name` itself when it was free, and raises nothing.  The de-duplication
            loop is explored up to K iterations (paths needing more are cut and reported as a bound).
 builder    RULE obligations over the current source of back/rtlil.py: every insertion into `Module.contents` goes
            through `Module._name`, which asserts freshness; `Design.module` asserts freshness of module names;
            auto names start with `$` and explicit names with a backslash; port ids are reset per module and bumped once per
            port wire.  Hence a converted document has unique names and dense port ids whenever conversion raises
            no AssertionError.
 wf[...]    BOUNDED stand-in: the well-formedness predicate of spec/rtlil_wf.py (independent strict RTLIL reader:
            references, widths, bounds, port ids, exactly-one-driver, submodule port sets, instance contents) is
            evaluated as a run-time postcondition of the real `rtlil.convert` over enumerated design families:
            name clashes (signals / ports / submodules / de-duplication suffixes), zero-width, private-named,
            unused and partially used signals, signals routed through intermediate modules, empty modules at every
            position of small trees, instances with every parameter kind, memories with ports in other modules, I/O
            ports, and every construct template of C01/C02/C04.
"""
import itertools
import z3

from pyvc.explore import Exploration
from pyvc.sym import SBool
from pyvc import runner, source, sym
from pyvc.shims import shimmed

PROPERTY = "C07"

META = {
    "level": "other",
    "trusted_base": [
        "z3 sequence/array theories; pyvc path exploration",
        "harness/rtlil_parse.py (strict RTLIL reader) and spec/rtlil_wf.py (well-formedness predicate, Yosys cell port table)",
        "rule scanner in this file (AST patterns)",
    ],
    "assumptions": [
        "_add_name: the proxy set reports len() as an arbitrary n >= number of distinct known members; the de-duplication loop is explored "
        "up to K iterations (K=3 quick, 6 thorough); paths needing more are cut",
        "names are unique in the text only if the builder's own assertions hold: AssertionError-freedom of conversion is decided on the "
        "enumerated families only",
        "well-formedness of arbitrary designs is NOT proved: wf[...] units are bounded enumeration",
    ],
    "bounds": {"quick": {"K": 3}, "thorough": {"K": 6}},
    "explanation": "naming contracts proved, builder invariants by rule, well-formedness as a run-time postcondition on enumerated families",
}


def functions():
    out = [source.describe("amaranth/hdl/_ir.py", "_add_name", arith="z3 strings", bound="loop iterations <= K")]
    out += [source.describe("amaranth/hdl/_ir.py", q, arith="run-time postcondition", bound="families enumerated")
            for q in ("Design._assign_port_names", "Design._assign_names", "_compute_ports")]
    out += [source.describe("amaranth/back/rtlil.py", q, arith="rule", bound="-")
            for q in ("Module._name", "Module._auto_name", "Module.wire", "Module.cell", "Module.memory", "Module.process", "Module.emit",
                      "Design.module", "Wire.emit")]
    out += [source.describe("amaranth/back/rtlil.py", q, arith="run-time postcondition", bound="families enumerated")
            for q in ("ModuleEmitter.emit_signal_wires", "ModuleEmitter.emit_port_wires", "ModuleEmitter.emit_io_port_wires",
                      "ModuleEmitter.emit_driven_wire", "ModuleEmitter.emit_cell_wires", "ModuleEmitter.emit_submodule_wires",
                      "ModuleEmitter.emit_connects", "ModuleEmitter.emit_submodules", "ModuleEmitter.emit_instance",
                      "ModuleEmitter.emit_memory", "ModuleEmitter.emit_read_port", "ModuleEmitter.emit_write_port",
                      "ModuleEmitter.emit_io_buffer", "EmptyModuleChecker.check", "convert_fragment")]
    return out


# ------------------------------------------------------------------------------------------------
# _add_name: proxies

NAME_MARK = "\x01N\x01"


class SName(str):
    """the symbolic name: a str whose text is a marker (survives f-strings)"""
    def __new__(cls):
        return str.__new__(cls, NAME_MARK)


class SCount:
    """len(assigned_names) + k"""
    def __init__(self, k=0):
        self.k = k

    def __add__(self, o):
        if not isinstance(o, int):
            return NotImplemented
        return SCount(self.k + o)
    __radd__ = __add__

    def __format__(self, spec):
        assert spec == ""
        return f"\x01I{self.k}\x01"

    def __str__(self):
        return format(self, "")


class _Conc:
    def __init__(self, t):
        self.t = t

    def concrete_in(self, model):
        v = model.eval(self.t, model_completion=True)
        if z3.is_string_value(v):
            return v.as_string()
        return v.as_long()


class SNameSet:
    def __init__(self, path, K):
        self.path = path
        self.K = K
        self.S0 = z3.Array("taken", z3.StringSort(), z3.BoolSort())
        self.cur = self.S0
        self.n = z3.Int("len_taken")
        self.name = z3.String("name")
        self.queries = []
        self.adds = []
        self.cut = False
        path.pc.append(self.n >= 0)
        path.x._declare("name", _Conc(self.name))
        path.x._declare("len(assigned_names)", _Conc(self.n))

    def term(self, s):
        parts = []
        for k, piece in enumerate(str(s).split("\x01")):
            if k % 2 == 0:
                if piece:
                    parts.append(z3.StringVal(piece))
            elif piece == "N":
                parts.append(self.name)
            else:
                parts.append(z3.IntToStr(self.n + int(piece[1:])))
        if not parts:
            return z3.StringVal("")
        return parts[0] if len(parts) == 1 else z3.Concat(*parts)

    def __contains__(self, item):
        t = self.term(item)
        if len(self.queries) > self.K:
            self.cut = True
            self.path.assume(False)
        self.queries.append(t)
        # consequence of n == |taken|: n is at least the number of distinct known members
        cnt = 0
        for i, q in enumerate(self.queries):
            cnt = cnt + z3.If(z3.And(z3.Select(self.S0, q), *[q != p for p in self.queries[:i]]), 1, 0)
        self.path.pc.append(self.n >= cnt)
        self.path.x._declare(f"in-set[{len(self.queries) - 1}]", _Conc(t))
        return bool(SBool(z3.Select(self.cur, t)))

    def add(self, item):
        t = self.term(item)
        self.adds.append(t)
        self.cur = z3.Store(self.cur, t, True)

    def __slen__(self):
        return SCount(0)


def check_add_name(K, broken=False):
    from amaranth.hdl import _ir
    name = "_add_name"

    def body(path):
        S = SNameSet(path, K)
        nm = SName()
        try:
            with shimmed(_ir, names=("len",)):
                r = _ir._add_name(S, nm)
        except AssertionError:
            path.fail(f"{name}::no-exception", "AssertionError")
            return
        rt = S.term(r)
        if broken:
            rt = S.name
        path.prove(f"{name}::result-was-not-taken", SBool(z3.Not(z3.Select(S.S0, rt))))
        path.prove(f"{name}::set-extended-by-exactly-the-result", SBool(S.cur == z3.Store(S.S0, rt, True)))
        path.prove(f"{name}::free-name-kept", SBool(z3.Implies(z3.Not(z3.Select(S.S0, S.name)), rt == S.name)))
        path.prove(f"{name}::no-exception", True)
    x = Exploration(name, body, max_paths=4 * K + 8).run()
    res = runner.from_exploration(name, x)
    res["bounded"] = [{"name": "_add_name de-duplication loop", "bound": f"<= {K} further candidates tried; longer runs cut", "cases": x.paths,
                       "failures": 0}]
    return res


def replay_add_name(model):
    """concrete set from the model: the queried names reported as members, padded to the reported size"""
    from amaranth.hdl import _ir
    nm = model.get("name", "")
    n = model.get("len(assigned_names)", 0)
    for size in sorted({n, 2, 3, 4, 5}):
        if size < 1:
            continue
        # the old code fails exactly when `name` and f"{name}${len}" are both taken
        taken = {nm, f"{nm}${size}"}
        k = 0
        while len(taken) < size:
            taken.add(f"filler{k}")
            k += 1
        if len(taken) != size:
            continue
        before = set(taken)
        try:
            r = _ir._add_name(taken, nm)
        except AssertionError as e:
            return {"assigned_names": sorted(before), "name": nm, "raised": "AssertionError"}
        if r in before or taken != before | {r}:
            return {"assigned_names": sorted(before), "name": nm, "returned": r, "set after": sorted(taken)}
    return None


# ------------------------------------------------------------------------------------------------
# builder rules

def check_builder_rules(broken=False):
    import ast
    import os
    path = os.path.join(source.repo_root(), "amaranth/back/rtlil.py")
    tree = ast.parse(open(path).read())
    obs = []

    def ob(nm, ok, detail):
        obs.append({"name": f"builder::{nm}", "kind": "post", "status": "proved" if ok else "refuted", "backend": "rule", "time_s": 0.0,
                    "detail": detail, **({} if ok else {"failing_input": {"rule": nm, "detail": detail, "file": "amaranth/back/rtlil.py"}})})

    def cls(n):
        return next((c for c in tree.body if isinstance(c, ast.ClassDef) and c.name == n), None)

    def fn(c, n):
        return next((f for f in c.body if isinstance(f, ast.FunctionDef) and f.name == n), None) if c else None
    M = cls("Module")
    # 1. every store into self.contents[...] in Module is `self.contents[name] = ...` after `name = self._name(name)`
    stores = 0
    good = True
    for f in (M.body if M else []):
        if not isinstance(f, ast.FunctionDef):
            continue
        named = False
        for st in ast.walk(f):
            if isinstance(st, ast.Assign) and len(st.targets) == 1 and isinstance(st.targets[0], ast.Name) and st.targets[0].id == "name" \
                    and isinstance(st.value, ast.Call) and ast.unparse(st.value) == "self._name(name)":
                named = True
        for st in ast.walk(f):
            if isinstance(st, ast.Subscript) and isinstance(st.ctx, ast.Store) and ast.unparse(st.value) == "self.contents":
                stores += 1
                if not (named and ast.unparse(st.slice) == "name"):
                    good = False
            if isinstance(st, ast.Call) and ast.unparse(st.func) in ("self.contents.update", "self.contents.setdefault", "self.contents.__setitem__"):
                good = False
    if broken:
        good = False
    ob("contents-only-through-_name", good and stores >= 4, f"{stores} insertions into Module.contents, all keyed by `name = self._name(name)`")
    # 2. _name asserts freshness and prefixes
    f = fn(M, "_name")
    src = ast.unparse(f) if f else ""
    ob("_name-asserts-freshness", "assert name not in self.contents" in src and src.strip().endswith("return name"),
       "Module._name: `assert name not in self.contents` then `return name`")
    ob("_name-prefixes", "name = f'\\\\{name}'" in src and "name = self._auto_name()" in src,
       "explicit names get a backslash prefix, anonymous names come from _auto_name")
    f = fn(M, "_auto_name")
    src = ast.unparse(f) if f else ""
    ob("_auto_name-fresh", "self._auto_index += 1" in src and "return f'${self._auto_index}'" in src,
       "_auto_name: strictly increasing counter rendered as $<n>: never equals an earlier auto name nor a backslash name")
    # 3. Design.module asserts module-name freshness
    D = cls("Design")
    f = fn(D, "module")
    src = ast.unparse(f) if f else ""
    ob("module-names-fresh", "assert name not in self.modules" in src, "Design.module: `assert name not in self.modules`")
    # 4. port ids
    f = fn(M, "emit")
    src = ast.unparse(f) if f else ""
    ob("port-id-reset-per-module", src.find("line.port_id = 0") != -1 and src.find("line.port_id = 0") < src.find("item.emit(line)"),
       "Module.emit resets line.port_id before emitting the contents")
    W = cls("Wire")
    f = fn(W, "emit")
    ok = False
    detail = "Wire.emit: port wires print line.port_id and then bump it once; other wires do neither"
    if f:
        for st in f.body:
            if isinstance(st, ast.If) and ast.unparse(st.test) == "self.port_kind is None":
                a, b = "\n".join(map(ast.unparse, st.body)), "\n".join(map(ast.unparse, st.orelse))
                ok = "port_id" not in a and b.count("line.port_id += 1") == 1 and "{line.port_id}" in b \
                    and b.find("{line.port_id}") < b.find("line.port_id += 1")
        n_bumps = ast.unparse(tree).count("port_id += 1")
        ok = ok and n_bumps == 1
    ob("port-ids-dense", ok, detail)
    return {"task": "builder", "paths": 0, "solver_s": 0.0, "obligations": obs}


# ------------------------------------------------------------------------------------------------
# families

def _convert(m, ports, **kw):
    from amaranth.back import rtlil
    return rtlil.convert(m, ports=ports, emit_src=False, **kw)


def fam_names(tier):
    """3 signals with names from a clash set, 2 submodules with names from a clash set"""
    if tier == "quick":
        names = ["a", "a$3", "a$4", "sub"]
        subs = [None, "a", "sub"]
    else:
        names = ["a", "a$1", "a$2", "a$3", "a$4", "a$5", "sub", "U$0", "U$1"]
        subs = [None, "a", "sub", "a$1", "U$0"]
    for sn in itertools.product(names, repeat=3):
        for sb in itertools.product(subs, repeat=2):
            for ports_mode in ("io", "all"):
                yield ("names", sn, sb, ports_mode)


def build_names(desc):
    from amaranth.hdl import Signal, Module
    _, sn, sb, ports_mode = desc
    s0, s1, s2 = (Signal(2, name=n) for n in sn)
    x, o = Signal(2, name="a"), Signal(2, name="o")          # the input is named "a" too
    top, A, B, C = Module(), Module(), Module(), Module()
    top.d.comb += s0.eq(x)
    A.d.comb += s1.eq(s0 + 1)
    C.d.sync += s2.eq(s1)
    A.submodules += C
    B.d.comb += o.eq(s2 ^ s0)
    for nm, sub in zip(sb, (A, B)):
        if nm is None:
            top.submodules += sub
        else:
            top.submodules[nm] = sub
    ports = [x, o] if ports_mode == "io" else [x, o, s0, s1, s2]
    return top, ports, {}


def fam_aggregates(tier):
    """signals of struct / array / enumeration shapes (which get per-field wires `name.field`, `name[i]`), several of them with
    the SAME name in one module or in sibling instances of one component, next to plain signals named like a field wire"""
    names = ["pkt", "pkt", "pkt.a", "q"] if tier == "quick" else ["pkt", "pkt", "pkt.a", "pkt[0]", "pkt$1", "q"]
    for sn in itertools.product(names, repeat=3):
        for kinds in (("struct", "struct", "plain"), ("struct", "array", "struct"), ("array", "array", "enum"), ("struct", "plain", "plain")):
            for where in ("one-module", "two-instances"):
                yield ("agg", sn, kinds, where)


def build_aggregates(desc):
    from amaranth.hdl import Signal, Module, signed
    from amaranth.lib import data, enum as aenum
    _, sn, kinds, where = desc

    class E(aenum.Enum, shape=2):
        X = 0
        Y = 2
    shapes = {"struct": data.StructLayout({"a": 2, "b": signed(2)}), "array": data.ArrayLayout(2, 2), "enum": E, "plain": 4}

    def mk(kind, name):
        s = Signal(shapes[kind], name=name)
        return s, (s.as_value() if hasattr(s, "as_value") else s)
    sigs = [mk(k, n) for k, n in zip(kinds, sn)]
    x, o = Signal(4, name="x"), Signal(4, name="o")
    top = Module()
    if where == "one-module":
        acc = x
        for _s, v in sigs:
            top.d.comb += v.eq(acc)
            acc = v + 1
        top.d.comb += o.eq(acc)
    else:
        acc = x
        for i, (_s, v) in enumerate(sigs):
            sub = Module()
            sub.d.comb += v.eq(acc)
            top.submodules[f"u{i % 2}" if i < 2 else "w"] = sub if i != 1 else sub
            acc = v + 1
        top.d.comb += o.eq(acc ^ sigs[0][1])
    return top, [x, o], {}


def fam_shapes(tier):
    for w in (0, 1, 3):
        for private in (False, True):
            for usage in ("through", "partial-drive", "partial-read", "unused-port", "unused-internal", "cousins"):
                yield ("shapes", w, private, usage)


def build_shapes(desc):
    from amaranth.hdl import Signal, Module, Cat
    _, w, private, usage = desc
    s = Signal(w, name="" if private else "s")
    x, o = Signal(3, name="x"), Signal(4, name="o")
    top, A, B, L = Module(), Module(), Module(), Module()
    ports = [x, o]
    if usage == "through":
        L.d.comb += s.eq(x)
        A.submodules.l = L
        B.d.comb += o.eq(Cat(s, 1))
        top.submodules.a = A
        top.submodules.b = B
    elif usage == "partial-drive":
        L.d.comb += s[0:w // 2].eq(x)
        top.d.comb += s[w // 2:].eq(x[1:])
        top.d.comb += o.eq(s)
        top.submodules.l = L
    elif usage == "partial-read":
        A.d.sync += s.eq(x)
        top.d.comb += o.eq(s[w // 2:])
        top.submodules.a = A
    elif usage == "unused-port":
        top.d.comb += o.eq(x)
        if not private:
            ports = [x, o, s]
    elif usage == "unused-internal":
        A.d.comb += s.eq(x)
        top.d.comb += o.eq(x)
        top.submodules.a = A
    elif usage == "cousins":
        L2 = Module()
        L.d.comb += s.eq(~x)
        L2.d.comb += o.eq(s + 1)
        A.submodules.l = L
        B.submodules.l = L2
        top.submodules.a = A
        top.submodules.b = B
    return top, ports, {}


def _trees(n):
    """all rooted ordered trees with n nodes as nested tuples"""
    if n == 1:
        yield ()
        return
    for first in range(1, n):
        for sub in _trees(first):
            for rest in _trees(n - first):
                yield (sub,) + rest


def fam_empty(tier):
    N = 4 if tier == "quick" else 5
    for n in range(1, N + 1):
        for t in _trees(n):
            for flags in itertools.product((False, True), repeat=n):
                yield ("empty", t, flags)


def build_empty(desc):
    from amaranth.hdl import Signal, Module
    _, tree, flags = desc
    x = Signal(2, name="x")
    outs = []
    counter = [0]

    def mk(t):
        k = counter[0]
        counter[0] += 1
        m = Module()
        if flags[k]:
            o = Signal(2, name=f"o{k}")
            m.d.comb += o.eq(x + k)
            outs.append(o)
        for j, c in enumerate(t):
            sub = mk(c)
            if j % 2:
                m.submodules += sub
            else:
                m.submodules[f"c{j}"] = sub
        return m
    top = mk(tree)
    return top, [x] + outs, {}


PARAMS = [("int", 3), ("zero", 0), ("neg", -5), ("big", 2 ** 40), ("neg-big", -3000000000), ("neg-2^31", -2 ** 31), ("neg-2^31-1", -2 ** 31 - 1),
          ("2^31-1", 2 ** 31 - 1), ("2^31", 2 ** 31), ("neg-huge", -(2 ** 70) - 3), ("str", "he\"llo\\ wo\trld"), ("empty-str", ""), ("float", 1.5),
          ("const-u", ("const", 5, 4, False)), ("const-s", ("const", -1, 3, True)), ("const-0", ("const", 0, 0, False))]


def fam_instances(tier):
    for place in ("top", "sub"):
        for pk in range(len(PARAMS)):
            yield ("inst", place, pk, "plain")
    for place in ("top", "sub"):
        for shape in ("partial-out", "two-outs", "out-to-cousin", "const-in", "zero-width", "unnamed", "io", "io-reversed", "io-noncontig",
                      "in-reversed", "out-noncontig"):
            yield ("inst", place, 0, shape)


def build_instances(desc):
    from amaranth.hdl import Signal, Module, Instance, Const, Cat, IOPort
    _, place, pk, shape = desc
    pname, pv = PARAMS[pk]
    if isinstance(pv, tuple):
        pv = Const(pv[1], (pv[2], pv[3])) if False else Const(pv[1], __import__("amaranth").hdl.Shape(pv[2], pv[3]))
    i, q, o = Signal(2, name="i"), Signal(3, name="q"), Signal(4, name="o")
    top, A, B = Module(), Module(), Module()
    host = top if place == "top" else A
    ports = [i, o]
    expect = {"type": "blk", "params": {"P": pv}, "attrs": {"keep": 1, "tag": "x y"}, "outputs": {"q"}}
    kw = dict(p_P=pv, a_keep=1, a_tag="x y")
    io = None
    if shape == "plain":
        inst = Instance("blk", i_i=i, o_q=q, **kw)
        top.d.comb += o.eq(q)
    elif shape == "partial-out":
        inst = Instance("blk", i_i=i, o_q=q[1:3], **kw)
        top.d.comb += q[0].eq(i[0])
        top.d.comb += o.eq(q)
    elif shape == "two-outs":
        r = Signal(2, name="r")
        inst = Instance("blk", i_i=i, o_q=q, o_r=r, **kw)
        expect["outputs"] = {"q", "r"}
        top.d.comb += o.eq(q + r)
    elif shape == "out-to-cousin":
        inst = Instance("blk", i_i=i, o_q=q, **kw)
        B.d.comb += o.eq(~q)
        top.submodules.b = B
    elif shape == "const-in":
        inst = Instance("blk", i_i=Cat(i, Const(1, 1), i[0]), i_j=5, o_q=q, **kw)
        top.d.comb += o.eq(q)
    elif shape == "zero-width":
        z, zq = Signal(0, name="z"), Signal(0, name="zq")
        inst = Instance("blk", i_i=i, i_z=z, o_zq=zq, o_q=q, **kw)
        expect["outputs"] = {"q", "zq"}
        top.d.comb += o.eq(Cat(q, zq))
    elif shape == "unnamed":
        inst = Instance("blk", i_i=i, o_q=q, **kw)
        top.d.comb += o.eq(q)
    elif shape == "io":
        io = IOPort(2, name="pad")
        inst = Instance("blk", i_i=i, o_q=q, io_pad=io, **kw)
        top.d.comb += o.eq(q)
        ports = [i, o, io]
    elif shape in ("io-reversed", "io-noncontig"):
        io = IOPort(4, name="pad")
        inst = Instance("blk", i_i=i, o_q=q, io_pad=io[::-1] if shape == "io-reversed" else io[0] + io[2], **kw)
        top.d.comb += o.eq(q)
        ports = [i, o, io]
    elif shape == "in-reversed":
        inst = Instance("blk", i_i=Cat(i[1], i[0], o[3], o[1]), o_q=q, **kw)
        top.d.comb += o.eq(q)
    elif shape == "out-noncontig":
        inst = Instance("blk", i_i=i, o_q=Cat(q[2], q[0]), **kw)
        top.d.comb += q[1].eq(i[0])
        top.d.comb += o.eq(q)
    if shape == "unnamed":
        host.submodules += inst
        expect["name"] = None
    else:
        host.submodules.u = inst
        expect["name"] = "u"
    if place == "sub":
        top.submodules.a = A
    return top, ports, {"instance": expect}


def fam_memories(tier):
    for place in ("top", "sub"):
        for rd in ("sync", "comb", "transparent"):
            for nw in (0, 1, 2):
                for spread in (False, True):
                    yield ("mem", place, rd, nw, spread)


def build_memories(desc):
    from amaranth.hdl import Signal, Module
    from amaranth.lib.memory import Memory
    _, place, rd, nw, spread = desc
    top, A, B = Module(), Module(), Module()
    host = top if place == "top" else A
    mem = Memory(shape=4, depth=4, init=[1, 2, 3])
    host.submodules.mem = mem
    ra, rdat = Signal(2, name="addr"), Signal(4, name="data")
    ports = [ra, rdat]
    wps = []
    for k in range(nw):
        wp = mem.write_port(granularity=2 if k else None)
        wa, wd, we = Signal(2, name="addr"), Signal(4, name="data"), Signal(len(wp.en), name="en")
        user = B if spread else host
        user.d.comb += [wp.addr.eq(wa), wp.data.eq(wd), wp.en.eq(we)]
        ports += [wa, wd, we]
        wps.append(wp)
    if rd == "comb":
        rp = mem.read_port(domain="comb")
    elif rd == "transparent" and wps:
        rp = mem.read_port(transparent_for=wps[:1])
    else:
        rp = mem.read_port()
    user = B if spread else top
    user.d.comb += [rp.addr.eq(ra), rdat.eq(rp.data)]
    if place == "sub":
        top.submodules.a = A
    if spread:
        top.submodules.b = B
    return top, ports, {}


def fam_io(tier):
    for place in ("top", "sub"):
        for d in ("i", "o", "io", "o-noen"):
            for w in (0, 1, 3):
                yield ("io", place, d, w, "whole")
            for sel in ("reversed", "noncontig", "slice", "split", "repeat-free-concat"):
                yield ("io", place, d, 4, sel)
        # one port used in different directions on disjoint bits (the port's direction must cover both uses)
        for dirs in (("i", "o"), ("o", "i"), ("i", "io"), ("o-noen", "i")):
            yield ("io", place, dirs, 4, "split")


def _io_select(pad, sel):
    from amaranth.hdl import IOPort
    if sel == "whole":
        return [pad]
    if sel == "reversed":
        return [pad[::-1]]
    if sel == "noncontig":
        return [pad[0] + pad[2]]
    if sel == "slice":
        return [pad[1:3]]
    if sel == "split":                       # two buffers on disjoint halves of one port
        return [pad[0:2], pad[2:4]]
    if sel == "repeat-free-concat":          # bits of two ports in one buffer
        other = IOPort(2, name="pad2")
        return [pad[2:4] + other + pad[0:1]]
    raise KeyError(sel)


def build_io(desc):
    from amaranth.hdl import Signal, Module, IOPort, IOBufferInstance
    _, place, d, w, sel = desc
    top, A = Module(), Module()
    host = top if place == "top" else A
    pad = IOPort(w, name="pad")
    ports = [pad]
    for k, part in enumerate(_io_select(pad, sel)):
        pw = len(part)
        i, o, oe = Signal(pw, name=f"i{k}"), Signal(pw, name=f"o{k}"), Signal(name=f"oe{k}")
        d = desc[2][k] if isinstance(desc[2], tuple) else desc[2]
        if d == "i":
            host.submodules += IOBufferInstance(part, i=i)
            ports += [i]
        elif d == "o":
            host.submodules += IOBufferInstance(part, o=o, oe=oe)
            ports += [o, oe]
        elif d == "o-noen":
            host.submodules += IOBufferInstance(part, o=o)
            ports += [o]
        else:
            host.submodules += IOBufferInstance(part, i=i, o=o, oe=oe)
            ports += [i, o, oe]
    if place == "sub":
        top.submodules.a = A
    return top, ports, {}


# units that are expected to fail (genuine defects recorded in known_findings.json)
def fam_odd_names(tier):
    yield ("odd", "signal-with-space")
    yield ("odd", "submodule-with-space")
    yield ("odd", "dotted-submodule-clash")
    yield ("odd", "dotted-submodule")
    yield ("odd", "unicode-name")
    yield ("odd", "signal-named-like-auto")


def build_odd_names(desc):
    from amaranth.hdl import Signal, Module
    _, kind = desc
    x, y, z = Signal(name="x"), Signal(name="y"), Signal(name="z")
    top, A, B, C = Module(), Module(), Module(), Module()
    if kind == "signal-with-space":
        s = Signal(name="a b")
        top.d.comb += [s.eq(x), z.eq(s)]
    elif kind == "submodule-with-space":
        A.d.comb += z.eq(~x)
        top.submodules["a b"] = A
    elif kind == "dotted-submodule-clash":
        B.d.comb += y.eq(~x)
        C.d.comb += z.eq(~y)
        A.submodules.b = B
        top.submodules["a"] = A
        top.submodules["a.b"] = C
    elif kind == "dotted-submodule":
        A.d.comb += z.eq(~x)
        top.submodules["a.b"] = A
    elif kind == "unicode-name":
        s = Signal(name="größe")
        top.d.comb += [s.eq(x), z.eq(s)]
    elif kind == "signal-named-like-auto":
        s, t = Signal(2, name="$1"), Signal(2, name="$2")
        top.d.comb += [s.eq(x + 1), t.eq(s + 1), z.eq(t[1])]
    return top, [x, z], {}


FAMILIES = {
    "names": (fam_names, build_names), "shapes": (fam_shapes, build_shapes), "empty": (fam_empty, build_empty),
    "inst": (fam_instances, build_instances), "mem": (fam_memories, build_memories), "io": (fam_io, build_io),
    "odd": (fam_odd_names, build_odd_names), "agg": (fam_aggregates, build_aggregates),
}
CHUNK = {"names": 96, "shapes": 12, "empty": 64, "inst": 8, "mem": 9, "io": 8, "odd": 1, "agg": 64}


def _instance_violations(text, expect):
    """the foreign instance appears with exactly the given type, parameters, attributes and port set"""
    from harness import rtlil_parse as RP
    from amaranth.hdl import Const
    out = []
    mods = RP.parse(text)
    cells = [(m, c) for m in mods.values() for c in m.cells.values() if c.kind == "\\" + expect["type"]]
    if len(cells) != 1:
        return [f"instance of {expect['type']} appears {len(cells)} times"]
    m, c = cells[0]
    if expect.get("name") and c.name != "\\" + expect["name"]:
        out.append(f"instance is named {c.name}, expected \\{expect['name']}")
    for pn, pv in expect["params"].items():
        got = c.params.get("\\" + pn, "<missing>")
        if isinstance(pv, float):
            ok = got == repr(pv)
        elif isinstance(pv, str):
            ok = got == pv
        elif isinstance(pv, Const):
            ok = isinstance(got, RP.Const) and len(got) == len(pv) and got.value == (pv.value & ((1 << len(pv)) - 1)) \
                and c.param_signed.get("\\" + pn) == pv.shape().signed
        elif isinstance(pv, int) and 0 <= pv < 2 ** 31 - 1:
            ok = got == pv
        else:
            ok = isinstance(got, RP.Const) and len(got) >= 32 and (got.value - (1 << len(got)) if got.bits[0] == "1" and pv < 0 else got.value) == pv
        if not ok:
            out.append(f"parameter {pn} = {pv!r} appears as {got!r}")
    if set(c.params) != {"\\" + p for p in expect["params"]}:
        out.append(f"parameters {sorted(c.params)}")
    for an, av in expect["attrs"].items():
        got = c.attrs.get("\\" + an)
        want = str(av) if isinstance(av, int) else '"' + av + '"'
        if got != want:
            out.append(f"attribute {an} = {av!r} appears as {got!r}")
    return out


def check_family(fam, start, tier, broken=False):
    from spec.rtlil_wf import violations
    gen, build = FAMILIES[fam]
    descs = list(itertools.islice(gen(tier), start, start + CHUNK[fam]))
    obs = []
    fails = 0
    for desc in descs:
        nm = f"wf[{fam}]::" + repr(desc[1:]).replace(" ", "")
        try:
            m, ports, extra = build(desc)
        except Exception as e:
            # the design itself is refused at construction: not a conversion, nothing to check
            obs.append({"name": nm, "kind": "bounded", "status": "proved", "backend": "cpython", "time_s": 0.0, "detail": f"refused at construction: {e!r}"[:200]})
            continue
        v = []
        text = None
        try:
            text = _convert(m, ports)
        except Exception as e:
            import traceback
            tb = traceback.format_exc()
            from amaranth.hdl._ir import DriverConflict
            v = [f"conversion raised {type(e).__name__}: {e}", tb[-600:]]
        if text is not None:
            fo = {extra["instance"]["name"] or "": extra["instance"]["outputs"]} if "instance" in extra else None
            if fo is not None and "" in fo:
                fo = _unnamed_instance_outputs(text, extra["instance"])
            v = violations(text + ("\nwire width 1 \\zz\n" if broken else ""), foreign_outputs=fo, pad_wires=("pad", "pad2"))
            if not v and "instance" in extra:
                v = _instance_violations(text, extra["instance"])
        ok = not v
        fails += not ok
        obs.append({"name": nm, "kind": "bounded", "status": "proved" if ok else "refuted", "backend": "cpython", "time_s": 0.0,
                    **({} if ok else {"failing_input": {"family": fam, "design": repr(desc), "violations": v[:6],
                                                        "how": f"checks/c07.py build_{fam if fam not in ('inst', 'mem') else fam}(desc) -> rtlil.convert -> spec.rtlil_wf.violations"}})})
    return {"task": f"wf[{fam}][{start}]", "paths": len(descs), "solver_s": 0.0, "obligations": obs,
            "bounded": [{"name": f"well-formedness postcondition of rtlil.convert, family {fam}", "bound": "designs enumerated by fam_" + fam,
                         "cases": len(descs), "failures": fails}]}


def _unnamed_instance_outputs(text, expect):
    from harness import rtlil_parse as RP
    try:
        mods = RP.parse(text)
    except Exception:
        return None
    for m in mods.values():
        for c in m.cells.values():
            if c.kind == "\\" + expect["type"]:
                return {c.name.lstrip("\\"): expect["outputs"]}
    return None


# --- the construct templates of C01 / C02 / C04: every design C04 converts is also checked for well-formedness

def c04_units(tier):
    from checks import c04
    out = []
    for t in c04.tasks(tier):
        if t[0] == "chunk":
            out.extend(t[1])
        elif t[0] in ("hier",):
            out.append(t)
    return out


def check_c04_templates(start, n, tier):
    from checks import c04
    from spec.rtlil_wf import violations
    units = c04_units(tier)[start:start + n]
    obs = []
    fails = 0
    captured = {}

    def fake_check_module(name, m, ports, **kw):
        captured["design"] = (name, m, ports)
        return {"task": name, "paths": 0, "solver_s": 0.0, "obligations": []}
    real = c04.check_module
    c04.check_module = fake_check_module
    try:
        for t in units:
            captured.clear()
            if t[0] == "hier":
                c04.unit_hier(t[1])
            else:
                c04.run_one(t)
            if "design" not in captured:
                continue
            name, m, ports = captured["design"]
            nm = f"wf[templates]::{name}"
            try:
                v = violations(_convert(m, ports))
            except Exception as e:
                v = [f"conversion raised {type(e).__name__}: {e}"]
            ok = not v
            fails += not ok
            obs.append({"name": nm, "kind": "bounded", "status": "proved" if ok else "refuted", "backend": "cpython", "time_s": 0.0,
                        **({} if ok else {"failing_input": {"family": "templates", "design": name, "violations": v[:6]}})})
    finally:
        c04.check_module = real
    return {"task": f"wf[templates][{start}]", "paths": len(units), "solver_s": 0.0, "obligations": obs,
            "bounded": [{"name": "well-formedness postcondition of rtlil.convert, C01/C02/C04 construct templates", "bound": "templates of checks/templates.py, c02 catalogue",
                         "cases": len(obs), "failures": fails}]}


# ------------------------------------------------------------------------------------------------

def tasks(tier):
    K = META["bounds"][tier]["K"]
    ts = [("add-name", K), ("builder",)]
    for fam, (gen, _b) in FAMILIES.items():
        n = sum(1 for _ in gen(tier))
        ts += [("wf", fam, s, tier) for s in range(0, n, CHUNK[fam])]
    n = len(c04_units(tier))
    ts += [("templates", s, 40, tier) for s in range(0, n, 40)]
    return ts


def canaries(tier):
    return [("canary-add-name",), ("canary-rule",), ("canary-wf",)]


def run_task(task):
    k = task[0]
    if k == "add-name":
        return check_add_name(task[1])
    if k == "builder":
        return check_builder_rules()
    if k == "wf":
        return check_family(task[1], task[2], task[3])
    if k == "templates":
        return check_c04_templates(task[1], task[2], task[3])
    if k == "canary-add-name":
        return check_add_name(2, broken=True)
    if k == "canary-rule":
        return check_builder_rules(broken=True)
    if k == "canary-wf":
        return check_family("shapes", 0, "quick", broken=True)
    raise KeyError(k)


def find_failing_input(res, ob):
    if ob["name"].startswith("_add_name") and ob.get("model"):
        r = replay_add_name(ob["model"])
        if r:
            r["how"] = "amaranth.hdl._ir._add_name(set(assigned_names), name)"
        return r
    return None


def replay(data):
    fi = data.get("failing_input") or {}
    if "assigned_names" in fi:
        from amaranth.hdl import _ir
        s = set(fi["assigned_names"])
        try:
            r = _ir._add_name(s, fi["name"])
        except AssertionError:
            return True
        return r in set(fi["assigned_names"])
    for t in tasks("quick"):
        r = run_task(t)
        if any(o["name"] == data["obligation"] and o["status"] == "refuted" for o in r["obligations"]):
            return True
    return False
