"""C10 -- shape casting and constant normalisation are exact and minimal.

Function contracts on the real functions, run unmodified on symbolic integers:

 tier U (unbounded: every integer, every width; z3 Int + instantiated pow2/bit_length lemmas)
   utils.ceil_log2, utils.bits_for, Shape.__init__, Shape.cast (range branch; start/stop unbounded,
   step enumerated), Shape._cast_plain_enum (member values unbounded, member count 1..3 = base case
   and inductive step of the fold), Const.__init__ with shape=None
 tier B (all values, widths <= Wb, exact bit-vector encoding -- labelled bounded, not unbounded)
   utils.exact_log2, Const.__init__ normalisation, Const.cast of Cat/Slice of constants,
   _get_init_value (Shape and range shapes; int and constant-expression inits), MemoryData.Init.__setitem__
"""
import types
import z3

from pyvc.explore import Exploration
from pyvc.sym import SInt, SBool, to_sint, And, Or, Not, Implies, is_sym, ite
from pyvc.uint import UInt, pow2, uite, LEMMAS
from pyvc.shims import shimmed, SRange
from pyvc import sym, runner, source
from spec.sem import norm, mask, in_range, shape_range, Env, sem

PROPERTY = "C10"

META = {
    "level": "proof",
    "trusted_base": [
        "pyvc encodings: tier U (z3 Int, uninterpreted pow2/blen with instantiated lemmas, shift/mask idiom "
        "lowering) and tier B (exact adaptive bit-vectors), both cross-checked against CPython",
        "z3 / cvc5 soundness",
        "module-global shims (int / isinstance / range / len / operator.index rebound in amaranth.utils and "
        "amaranth.hdl._ast for the duration of a run; identity on concrete values)",
        "model of Python's range object (first/last element, length, membership) in pyvc/shims.py",
    ],
    "assumptions": [
        "tier U counter-models are believed only after replay on the real function with real integers",
        "range steps enumerated in {+-1, +-2, +-3, 5, -7}; enumerations with 1..3 members (values unbounded); "
        "the 2-member case is the inductive step of the member fold for every reachable accumulator",
        "tier B obligations: widths <= 12, values within +-2^14 (stated as bounded, not counted as unbounded)",
        "tier U models len(range), range indexing and truthiness as total mathematical functions; CPython's len() raises "
        "OverflowError above sys.maxsize (that is how D22 escaped the symbolic obligations) -- the concrete boundary sweep "
        "(2^k + d, k <= 300 / 1200) runs the real helpers on real integers across that limit",
    ],
    "bounds": {"quick": {"Wb": 8}, "thorough": {"Wb": 12}},
    "explanation": "function contracts on shape/constant helpers",
}


def functions():
    out = [source.describe("amaranth/utils.py", q, arith=a, bound=b) for q, a, b in [
        ("ceil_log2", "U", "unbounded"), ("bits_for", "U", "unbounded"), ("exact_log2", "B", "n < 2^Wb+2")]]
    out += [source.describe("amaranth/hdl/_ast.py", q, arith=a, bound=b) for q, a, b in [
        ("Shape.__init__", "U", "unbounded"), ("Shape.cast", "U", "range: start/stop unbounded, steps enumerated"),
        ("Shape._cast_plain_enum", "U", "values unbounded, 1..3 members"),
        ("Const.__init__", "U (shape=None) / B (normalisation)", "widths <= Wb for normalisation"),
        ("Const.cast", "B", "constant shapes enumerated <= 4 bits"),
        ("_get_init_value", "B", "widths <= Wb, ranges enumerated")]]
    out.append(source.describe("amaranth/hdl/_mem.py", "MemoryData.Init.__setitem__", arith="B", bound="shapes enumerated"))
    return out


# ------------------------------------------------------------------------------------------------
# spec helpers (tier U)

def fits(n, w, signed):
    """n is representable in Shape(w, signed)."""
    if signed:
        return And(w >= 1, n >= -pow2(w - 1), n < pow2(w - 1))
    return And(w >= 0, n >= 0, n < pow2(w))


def is_min_width(n, w, signed):
    """w is the least width such that n fits Shape(w, signed)."""
    if signed:
        return And(fits(n, w, True), Or(w == 1, Not(fits(n, w - 1, True))))
    return And(fits(n, w, False), Or(w == 0, Not(fits(n, w - 1, False))))


def _mods():
    import amaranth.utils as U
    import amaranth.hdl._ast as A
    return U, A


def expect_raises(path, name, exc_type, cond, thunk):
    """Obligation pair: `thunk()` raises exc_type iff cond.  Returns the value or None."""
    try:
        r = thunk()
    except exc_type:
        path.prove(f"{name}::raises-only-if", cond)
        return None
    path.prove(f"{name}::returns-only-if", Not(cond) if not isinstance(cond, bool) else (not cond))
    return r


def unit_ceil_log2():
    U, A = _mods()

    def body(path):
        n = path.uvar("n")
        with shimmed(U):
            r = expect_raises(path, "ceil_log2", ValueError, n < 0, lambda: U.ceil_log2(n))
        if r is not None:
            path.prove("ceil_log2::covers", pow2(r) >= n)
            path.prove("ceil_log2::least", Or(r == 0, pow2(r - 1) < n))
            path.prove("ceil_log2::nonneg", r >= 0)
    return Exploration("ceil_log2", body).run()


def unit_bits_for(rsb):
    U, A = _mods()

    def body(path):
        n = path.uvar("n")
        with shimmed(U):
            r = U.bits_for(n, rsb)
        signed = Or(n < 0, rsb) if not rsb else True
        if rsb:
            path.prove("bits_for(sign)::min-width", is_min_width(n, r, True))
        else:
            # 0 counts as one (unsigned) bit, as it does as a constant
            path.prove("bits_for::min-width",
                       uite(n < 0, is_min_width(n, r, True), uite(n == 0, r == 1, is_min_width(n, r, False))))
    return Exploration(f"bits_for[{rsb}]", body).run()


def unit_exact_log2(Wb):
    U, A = _mods()

    def body(path):
        n = path.var("n", -(1 << 6), (1 << (Wb + 2)))
        is_pow = Or(*[n == (1 << k) for k in range(Wb + 3)])
        with shimmed(U):
            r = expect_raises(path, "exact_log2", ValueError, Not(is_pow), lambda: U.exact_log2(n))
        if r is not None:
            path.prove("exact_log2::value", (1 << to_sint(r)) == n)
    return Exploration("exact_log2", body).run()


def unit_shape_init():
    U, A = _mods()

    def body(path):
        w = path.uvar("w")
        for signed in (False, True):
            bad = (w <= 0) if signed else (w < 0)
            with shimmed(A):
                r = expect_raises(path, f"Shape.__init__[{signed}]", TypeError, bad, lambda: A.Shape(w, signed))
            if r is not None:
                path.prove(f"Shape.__init__[{signed}]::fields", And(r.width == w, r.signed == signed))
    return Exploration("Shape.__init__", body).run()


def unit_shape_cast_range(step):
    U, A = _mods()

    def body(path):
        start, stop = path.uvar("start"), path.uvar("stop")
        rng = SRange(start, stop, step)
        with shimmed(U, A):
            sh = A.Shape.cast(rng)
        w, s = sh.width, sh.signed
        n = rng.length()
        first, last = start, start + (n - 1) * step
        lo, hi = (first, last) if step > 0 else (last, first)
        empty = n == 0
        path.prove(f"cast(range,{step})::empty", Implies(empty, And(w == 0, s == False)))
        path.prove(f"cast(range,{step})::signed-iff-negative-element", Implies(Not(empty), SBool(z3.BoolVal(bool(s))) == (lo < 0))
                   if isinstance(s, bool) else Implies(Not(empty), s == (lo < 0)))
        only_zero = And(lo == 0, hi == 0)
        path.prove(f"cast(range,{step})::only-zero", Implies(And(Not(empty), only_zero), w == 0))
        # narrowest width containing lo and hi (every element lies between them)
        both = And(fits(lo, w, bool(s)), fits(hi, w, bool(s)))
        path.prove(f"cast(range,{step})::contains-all", Implies(And(Not(empty), Not(only_zero)), both))
        if s:
            narrower = And(fits(lo, w - 1, True), fits(hi, w - 1, True))
            path.prove(f"cast(range,{step})::minimal", Implies(Not(empty), Or(w == 1, Not(narrower))))
        else:
            narrower = And(fits(lo, w - 1, False), fits(hi, w - 1, False))
            path.prove(f"cast(range,{step})::minimal", Implies(And(Not(empty), Not(only_zero)), Or(w == 0, Not(narrower))))
    return Exploration(f"Shape.cast(range,step={step})", body).run()


def unit_const_default_shape():
    """Const(v) with no shape: the narrowest shape holding v, signed iff v < 0, 0 being unsigned(1)?  The
    property (C10) says an enumeration member 0 counts as one unsigned bit *as a constant*: Const(0) is
    unsigned(... ) -- checked here as: width is the min width, except that it is what bits_for gives."""
    U, A = _mods()

    def body(path):
        v = path.uvar("v")
        with shimmed(U, A):
            c = A.Const(v)
        sh = c.shape()
        path.prove("Const(v)::signed-iff-negative", (v < 0) == sh.signed if not isinstance(sh.signed, bool)
                   else ((v < 0) if sh.signed else Not(v < 0)))
        path.prove("Const(v)::min-width", uite(v == 0, sh.width == 1,
                                               is_min_width(v, sh.width, bool(sh.signed))))
        path.prove("Const(v)::value", c.value == v)
    return Exploration("Const(v)", body).run()


def unit_plain_enum(nmembers):
    U, A = _mods()

    def body(path):
        vs = [path.uvar(f"m{i}") for i in range(nmembers)]
        members = [types.SimpleNamespace(value=v) for v in vs]
        with shimmed(U, A):
            sh = A.Shape._cast_plain_enum(members)
        w, s = sh.width, sh.signed
        any_neg = Or(*[v < 0 for v in vs])
        path.prove(f"enum[{nmembers}]::signed-iff-some-negative", any_neg if s else Not(any_neg))
        # each member counts with the shape it has as a constant (0 = one unsigned bit): a member with
        # constant shape (wv, sv) needs wv bits in an unsigned result and wv (+1 if unsigned) in a signed one
        needs = []
        for i, v in enumerate(vs):
            wv = path.uvar(f"wv{i}")
            path.assume(uite(v == 0, wv == 1, uite(v < 0, is_min_width(v, wv, True), is_min_width(v, wv, False))))
            need = uite(v < 0, wv, wv + 1) if s else wv
            needs.append(need)
        path.prove(f"enum[{nmembers}]::wide-enough", And(*[w >= nd for nd in needs]))
        path.prove(f"enum[{nmembers}]::narrowest", Or(*[w == nd for nd in needs]))
    return Exploration(f"_cast_plain_enum[{nmembers}]", body).run()


def unit_plain_enum_consts(nmembers):
    """Members whose value is a Const with an explicit shape count with THAT shape (not with the minimal shape of
    their integer value): the result is the narrowest shape containing every member's constant shape."""
    U, A = _mods()

    def body(path):
        ws = [path.var(f"w{i}", 0, 64) for i in range(nmembers)]
        sg = [bool(path.var(f"s{i}", 0, 1) == 1) for i in range(nmembers)]
        members = []
        for i in range(nmembers):
            if sg[i]:
                path.assume(ws[i] >= 1)
            shp = object.__new__(A.Shape)
            shp._width, shp._signed = ws[i], sg[i]
            c = object.__new__(A.Const)
            c._shape, c._value, c.src_loc = shp, 0, None
            members.append(types.SimpleNamespace(value=c))
        with shimmed(U, A):
            sh = A.Shape._cast_plain_enum(members)
        w, s = sh.width, sh.signed
        path.prove(f"enum-consts[{nmembers}]::signed-iff-some-member-signed", bool(s) == any(sg))
        needs = [(ws[i] if sg[i] else ws[i] + 1) if s else ws[i] for i in range(nmembers)]
        path.prove(f"enum-consts[{nmembers}]::contains-every-member-shape", And(*[w >= nd for nd in needs]))
        path.prove(f"enum-consts[{nmembers}]::narrowest", Or(*[w == nd for nd in needs]))
    return Exploration(f"_cast_plain_enum-consts[{nmembers}]", body).run()


def unit_plain_enum_real():
    """Closed family: real enum.Enum classes whose members mix ints, shaped constants, concatenations, slices and
    members of other enumerations, through the public Shape.cast / Signal / Const entry points."""
    import enum as py_enum, itertools
    from amaranth.hdl import Const, Shape, Signal, Cat, Value, signed, unsigned

    class Other(py_enum.IntEnum):
        BIG = 100
    pool = [
        (0, (1, False)), (5, (3, False)), (-3, (3, True)),
        (Const(1, 8), (8, False)), (Const(1, signed(4)), (4, True)), (Const(-1, signed(6)), (6, True)),
        (Cat(Const(1, 2), Const(0, 2)), (4, False)), (Const(5, 8)[0:5], (5, False)), (Other.BIG, (7, False)),
    ]
    bad, n = None, 0
    for k in (1, 2, 3):
        for combo in itertools.combinations(range(len(pool)), k):
            vals = [i for i in combo if isinstance(pool[i][0], Value)]
            if len(vals) > 1:
                continue             # CPython's enum compares an unhashable member with the earlier ones: one Value member at most, first
            combo = vals + [i for i in combo if i not in vals]
            n += 1
            E = py_enum.Enum("E", {f"M{i}": pool[i][0] for i in combo})
            shapes = [pool[i][1] for i in combo]
            sgn = any(s for _, s in shapes)
            wid = max((w if s or not sgn else w + 1) for w, s in shapes)
            try:
                got = Shape.cast(E)
                sig = Signal(E).shape()
                okc = True
                if not sgn and wid >= 8:
                    okc = Const(200, E).value == 200
            except Exception as e:
                got, sig, okc = repr(e), None, False
            if bad is None and not (got == Shape(wid, sgn) and sig == Shape(wid, sgn) and okc):
                bad = {"members": [repr(pool[i][0]) for i in combo], "Shape.cast(E)": repr(got), "Signal(E).shape()": repr(sig),
                       "expected": repr(Shape(wid, sgn)), "how": "enum.Enum('E', members); Shape.cast(E)"}
    ok = bad is None
    return {"task": "plain-enum-real", "paths": n, "solver_s": 0.0, "obligations": [
        {"name": "plain-enum-real::member-constant-shapes-unified", "kind": "bounded", "status": "proved" if ok else "refuted",
         "backend": "cpython", "time_s": 0.0, **({} if ok else {"failing_input": bad})}],
        "bounded": [{"name": "enum.Enum classes over a pool of 9 member kinds", "bound": "1..3 members", "cases": n, "failures": 0 if ok else 1}]}


def unit_const_norm(Wb):
    """Const(v, Shape(w, s)).value is the unique value in the shape's range congruent to v mod 2^w."""
    U, A = _mods()

    def body(path):
        w = path.var("w", 0, Wb)
        v = path.var("v", -(1 << (Wb + 2)), (1 << (Wb + 2)))
        for signed in (False, True):
            if signed:
                path.assume(True)
            sh = object.__new__(A.Shape)
            sh._width, sh._signed = w, signed
            if signed:
                pre = w >= 1
            else:
                pre = True
            if signed and not bool(w >= 1):
                continue
            with shimmed(U, A):
                c = A.Const(v, sh)
            r = to_sint(c.value)
            p = 1 << w
            if signed:
                path.prove("Const(v,signed(w))::in-range", And(r >= -(p >> 1), r < (p >> 1)))
            else:
                path.prove("Const(v,unsigned(w))::in-range", And(r >= 0, r < p))
            path.prove(f"Const(v,{'signed' if signed else 'unsigned'}(w))::congruent", ((v - r) & (p - 1)) == 0)
    return Exploration("Const.__init__ normalisation", body).run()


def unit_const_cast(kind):
    """Const.cast(Cat(consts...)) / Const.cast(const[a:b]) equals evaluating the expression."""
    U, A = _mods()
    from amaranth.hdl import Cat
    if kind == "cat":
        combos = [((2, False), (3, True)), ((0, False), (2, True), (1, False)), ((3, True), (3, True)), ((1, True),)]
    else:
        combos = [((4, False),), ((4, True),), ((1, True),)]
    parts = []
    for shs in combos:
        def body(path, shs=shs):
            consts, vals = [], []
            for i, (w, s) in enumerate(shs):
                lo, hi = shape_range(w, s)
                v = path.var(f"c{i}", lo, hi)
                c = object.__new__(A.Const)
                c._shape, c._value = A.Shape(w, s), v
                consts.append(c)
                vals.append(v)
            if kind == "cat":
                exprs = [Cat(*consts)]
            else:
                w = shs[0][0]
                exprs = [consts[0][a:b] for a in range(w + 1) for b in range(a, w + 1)]
            for e in exprs:
                with shimmed(U, A):
                    r = A.Const.cast(e)
                want = sem_const(e)
                path.prove(f"Const.cast({kind}{shs})::{e!r}"[:120], to_sint(r.value) == to_sint(want))
                path.prove(f"Const.cast({kind}{shs})::shape::{e!r}"[:120],
                           r.shape().width == len(e) and not r.shape().signed)
        parts.append(Exploration(f"Const.cast[{kind}{shs}]", body).run())
    return parts


def sem_const(e):
    from amaranth.hdl import _ast as A
    if isinstance(e, A.Const):
        return e._value
    if isinstance(e, A.Slice):
        return (sem_const(e.value) >> e.start) & mask(e.stop - e.start)
    if isinstance(e, A.Concat):
        r, pos = 0, 0
        for p in e.parts:
            r = r | ((sem_const(p) & mask(len(p))) << pos)
            pos += len(p)
        return r
    raise NotImplementedError


RANGES = [range(0, 10), range(16), range(-3, 5), range(3, -5, -1), range(-8, 0), range(0, 1), range(1, 2),
          range(0), range(2, 9, 3), range(7, 8)]


def unit_init_value(Wb):
    """_get_init_value: wraps like Const for Shape shapes; for range shapes rejects values outside the
    range with SyntaxError and otherwise wraps (which is then the identity)."""
    U, A = _mods()
    parts = []
    for (w, s) in [(0, False), (1, False), (1, True), (4, False), (4, True), (Wb, True)]:
        def body(path, w=w, s=s):
            v = path.var("init", -(1 << (w + 3)), (1 << (w + 3)))
            with shimmed(U, A):
                r = A._get_init_value(v, A.Shape(w, s))
            path.prove(f"_get_init_value[{w},{s}]::wrapped", to_sint(r) == to_sint(norm(v, w, s)))
        parts.append(Exploration(f"_get_init_value[{w},{s}]", body).run())
    # the initial value given as a constant EXPRESSION (a Const of another shape, a Cat of one): first the expression's own
    # value, then wrapped to the target shape -- in particular an unsigned constant re-read as signed
    for (w, s) in [(1, True), (4, False), (4, True)]:
        for (vw, vs) in [(1, False), (4, False), (4, True), (6, False)]:
            for how in ("const", "cat"):
                def body(path, w=w, s=s, vw=vw, vs=vs, how=how):
                    v = path.var("init", -(1 << (vw + 2)), (1 << (vw + 2)))
                    with shimmed(U, A):
                        c = A.Const(v, A.Shape(vw, vs))
                        if how == "cat":
                            c = A.Cat(c)
                        r = A._get_init_value(c, A.Shape(w, s))
                    inner = norm(v, vw, vs if how == "const" else False)
                    path.prove(f"_get_init_value[{w},{s}]::{how}({vw},{vs})::wrapped", to_sint(r) == to_sint(norm(inner, w, s)))
                parts.append(Exploration(f"_get_init_value[{w},{s}]::{how}({vw},{vs})", body).run())
    for rg in RANGES:
        def body(path, rg=rg):
            sh = A.Shape.cast(rg)
            v = path.var("init", -(1 << (sh.width + 3)), (1 << (sh.width + 3)))
            member = Or(*[v == e for e in rg]) if len(rg) else SBool(z3.BoolVal(False))
            with shimmed(U, A):
                r = expect_raises(path, f"_get_init_value[{rg}]", A.SyntaxError, Not(member),
                                  lambda: A._get_init_value(v, rg))
            if r is not None:
                path.prove(f"_get_init_value[{rg}]::value", to_sint(r) == v)
        parts.append(Exploration(f"_get_init_value[{rg}]", body).run())
    return parts


def unit_memory_init():
    """MemoryData.Init rows are wrapped by the same function (call-site obligation)."""
    U, A = _mods()
    import amaranth.hdl._mem as M
    parts = []
    for (w, s) in [(3, False), (3, True), (0, False)]:
        def body(path, w=w, s=s):
            v = path.var("row", -(1 << (w + 2)), (1 << (w + 2)))
            with shimmed(U, A, M):
                init = M.MemoryData.Init([0, v], shape=A.Shape(w, s), depth=3)
            path.prove(f"MemoryData.Init[{w},{s}]::row-wrapped", to_sint(init._raw[1]) == to_sint(norm(v, w, s)))
            path.prove(f"MemoryData.Init[{w},{s}]::others-zero", And(to_sint(init._raw[0]) == 0, to_sint(init._raw[2]) == 0))
        parts.append(Exploration(f"MemoryData.Init[{w},{s}]", body).run())
    # rows written later -- by item assignment, slice assignment and extended slices -- are wrapped the same way, and
    # both views of the rows (`init[i]` and the raw list the netlist builder and the simulator read) agree
    for (w, s) in [(3, False), (3, True)]:
        for how in ("item", "slice", "extended-slice"):
            def body(path, w=w, s=s, how=how):
                v1 = path.var("row_a", -(1 << (w + 2)), (1 << (w + 2)))
                v2 = path.var("row_b", -(1 << (w + 2)), (1 << (w + 2)))
                with shimmed(U, A, M):
                    init = M.MemoryData.Init([5 & ((1 << w) - 1) if not s else -1] * 4, shape=A.Shape(w, s), depth=4)
                    if how == "item":
                        init[1] = v1
                        init[3] = v2
                        idx = (1, 3)
                    elif how == "slice":
                        init[1:3] = [v1, v2]
                        idx = (1, 2)
                    else:
                        init[0::2] = [v1, v2]
                        idx = (0, 2)
                for k, v in zip(idx, (v1, v2)):
                    path.prove(f"MemoryData.Init[{w},{s}]::{how}-assignment::row-wrapped", to_sint(init._raw[k]) == to_sint(norm(v, w, s)))
                    path.prove(f"MemoryData.Init[{w},{s}]::{how}-assignment::views-agree", to_sint(init[k]) == to_sint(init._raw[k]))
                others = [k for k in range(4) if k not in idx]
                path.prove(f"MemoryData.Init[{w},{s}]::{how}-assignment::other-rows-untouched",
                           And(*[to_sint(init._raw[k]) == (5 & ((1 << w) - 1) if not s else -1) for k in others]))
            parts.append(Exploration(f"MemoryData.Init[{w},{s}]::{how}", body).run())
    for rg in (range(0, 10), range(-2, 3)):
        def body(path, rg=rg):
            sh = A.Shape.cast(rg)
            v = path.var("row", -(1 << (sh.width + 2)), (1 << (sh.width + 2)))
            member = Or(*[v == e for e in rg])
            with shimmed(U, A, M):
                r = expect_raises(path, f"MemoryData.Init[{rg}]", A.SyntaxError, Not(member),
                                  lambda: M.MemoryData.Init([v], shape=rg, depth=2))
            if r is not None:
                path.prove(f"MemoryData.Init[{rg}]::value", to_sint(r._raw[0]) == v)
        parts.append(Exploration(f"MemoryData.Init[{rg}]", body).run())
    # rows taken from ANOTHER memory's initial contents (an Init object, whose rows are already wrapped -- to the other
    # memory's shape): wrapped again to this memory's shape, whatever the two shapes' signedness
    for (ws, ss), (wd, sd) in [((3, False), (3, True)), ((3, True), (3, False)), ((4, False), (3, True)), ((2, True), (4, False))]:
        def body(path, ws=ws, ss=ss, wd=wd, sd=sd):
            v = path.var("row", -(1 << (ws + 1)), (1 << (ws + 1)))
            with shimmed(U, A, M):
                src = M.MemoryData.Init([v, 1], shape=A.Shape(ws, ss), depth=2)
                dst = M.MemoryData.Init(src, shape=A.Shape(wd, sd), depth=2)
            nm = f"MemoryData.Init[{wd},{sd}]::from-Init[{ws},{ss}]"
            path.prove(f"{nm}::row-wrapped-to-this-shape", to_sint(dst._raw[0]) == to_sint(norm(norm(v, ws, ss), wd, sd)))
            path.prove(f"{nm}::source-untouched", to_sint(src._raw[0]) == to_sint(norm(v, ws, ss)))
        parts.append(Exploration(f"MemoryData.Init[{wd},{sd}]<-Init[{ws},{ss}]", body).run())
    return parts


STEPS = [1, 2, 3, -1, -2, -3, 5, -7]


def unit_boundary_sweep(K):
    """BOUNDED, concrete: the helpers on every integer 2^k + d (|d| <= 2, k <= K) against exact integer arithmetic.  It
    duplicates what the unbounded obligations prove, on purpose: if a change moves a helper outside the verifiable subset
    (floating point, string formatting) the symbolic tasks can only report 'unsupported'; this sweep still pins the
    documented results on the values where width computations go wrong and yields a concrete failing input."""
    from amaranth.utils import ceil_log2, bits_for, exact_log2
    from amaranth.hdl import Const, Shape, Signal
    n_cases = 0
    bad = None

    for k in range(0, K + 1):
        for d in (-2, -1, 0, 1, 2):
            n = (1 << k) + d
            if n < 0:
                continue
            n_cases += 1
            want_cl = 0 if n <= 1 else (n - 1).bit_length()
            try:
                got = ceil_log2(n)
            except Exception as e:
                got = repr(e)
            if got != want_cl and bad is None:
                bad = {"call": "ceil_log2(n)", "n": n, "n as": f"2**{k}{d:+d}", "returned": got, "expected": want_cl}
            if n == 0:
                continue                 # the zero cases are the symbolic obligations' (bits_for(0) == 1, range(1) -> unsigned(0))
            # bits_for / Const / Shape.cast(range) against the defining inequalities
            try:
                b = bits_for(n)
                ok = (n < (1 << b)) and (b == 0 or n >= (1 << (b - 1)) or n == 0) and (n != 0 or b == 0 or b == 1)
                bn = bits_for(-n) if n > 0 else None
                okn = bn is None or (-(1 << (bn - 1)) <= -n and (bn == 1 or -n < -(1 << (bn - 2))))
                c = Const(n)
                okc = c.value == n and not c.shape().signed and n < (1 << c.shape().width) and (c.shape().width == 0 or n >= (1 << (c.shape().width - 1)))
                cn = Const(-n) if n > 0 else None
                okcn = cn is None or (cn.value == -n and cn.shape().signed and -(1 << (cn.shape().width - 1)) <= -n)
                sh = Shape.cast(range(n + 1))
                oks = not sh.signed and n < (1 << sh.width) and (sh.width == 0 or n >= (1 << (sh.width - 1)))
                si = Signal(range(0, n + 1), init=n).init if n > 0 else 0
                oki = si == n
                if not (ok and okn and okc and okcn and oks and oki) and bad is None:
                    bad = {"n": n, "n as": f"2**{k}{d:+d}", "bits_for(n)": b, "bits_for(-n)": bn, "Const(n)": repr(c), "Const(-n)": repr(cn),
                           "Shape.cast(range(n+1))": repr(sh), "Signal(range(n+1), init=n).init": si}
            except Exception as e:
                if bad is None:
                    bad = {"n": n, "n as": f"2**{k}{d:+d}", "exception": repr(e)}
            if n > 0 and d == 0:
                try:
                    if exact_log2(n) != k and bad is None:
                        bad = {"call": "exact_log2(n)", "n": n, "returned": exact_log2(n), "expected": k}
                except Exception as e:
                    if bad is None:
                        bad = {"call": "exact_log2(n)", "n": n, "exception": repr(e)}
    ok = bad is None
    return {"task": "boundary-sweep", "paths": n_cases, "solver_s": 0.0, "obligations": [
        {"name": f"boundary-sweep::2^k+d::k<={K}", "kind": "bounded", "status": "proved" if ok else "refuted", "backend": "cpython", "time_s": 0.0,
         **({} if ok else {"failing_input": {**bad, "how": "amaranth.utils / hdl helpers called on this integer"}})}],
        "bounded": [{"name": "width helpers at 2^k + d", "bound": f"k <= {K}, |d| <= 2", "cases": n_cases, "failures": 0 if ok else 1}]}


def tasks(tier):
    Wb = 8 if tier == "quick" else 12
    ts = [("ceil_log2",), ("bits_for", False), ("bits_for", True), ("exact_log2", Wb), ("shape_init",),
          ("const_default",), ("const_norm", Wb), ("const_cast", "cat"), ("const_cast", "slice"),
          ("init_value", Wb), ("memory_init",)]
    ts += [("cast_range", st) for st in STEPS]
    ts += [("plain_enum", n) for n in ((1, 2) if tier == "quick" else (1, 2, 3))]
    ts += [("plain_enum_consts", n) for n in ((1, 2) if tier == "quick" else (1, 2, 3))]
    ts += [("plain-enum-real",)]
    ts += [("boundary-sweep", 300 if tier == "quick" else 1200)]
    return ts


def canaries(tier):
    return [("canary-bits_for",), ("canary-norm",)]


def _as_result(name, xs, tierU=False):
    if not isinstance(xs, list):
        xs = [xs]
    parts = [runner.from_exploration(name, x) for x in xs]
    res = runner.merge_results(name, parts)
    if tierU:
        res["tier"] = "U"
    return res


def run_task(task):
    k = task[0]
    name = repr(task).replace(" ", "")
    if k == "boundary-sweep":
        return unit_boundary_sweep(task[1])
    if k == "plain-enum-real":
        return unit_plain_enum_real()
    if k == "plain_enum_consts":
        return _as_result(name, unit_plain_enum_consts(task[1]), True)
    if k == "ceil_log2":
        return _as_result(name, unit_ceil_log2(), True)
    if k == "bits_for":
        return _as_result(name, unit_bits_for(task[1]), True)
    if k == "exact_log2":
        return _as_result(name, unit_exact_log2(task[1]))
    if k == "shape_init":
        return _as_result(name, unit_shape_init(), True)
    if k == "cast_range":
        return _as_result(name, unit_shape_cast_range(task[1]), True)
    if k == "const_default":
        return _as_result(name, unit_const_default_shape(), True)
    if k == "plain_enum":
        return _as_result(name, unit_plain_enum(task[1]), True)
    if k == "const_norm":
        return _as_result(name, unit_const_norm(task[1]))
    if k == "const_cast":
        return _as_result(name, unit_const_cast(task[1]))
    if k == "init_value":
        return _as_result(name, unit_init_value(task[1]))
    if k == "memory_init":
        return _as_result(name, unit_memory_init())
    if k == "canary-bits_for":
        U, A = _mods()

        def body(path):
            n = path.uvar("n")
            with shimmed(U):
                r = U.bits_for(n, False)
            path.prove("canary::bits_for-too-tight", uite(n < 0, is_min_width(n, r - 1, True), uite(n == 0, r == 1, is_min_width(n, r, False))))
        return _as_result(name, Exploration("canary-bits_for", body).run())
    if k == "canary-norm":
        U, A = _mods()

        def body(path):
            v = path.var("v", -64, 64)
            with shimmed(U, A):
                c = A.Const(v, A.Shape(3, True))
            path.prove("canary::norm-unsigned-range", And(to_sint(c.value) >= 0, to_sint(c.value) < 8))
        return _as_result(name, Exploration("canary-norm", body).run())
    raise KeyError(k)


# ------------------------------------------------------------------------------------------------
# replay by concrete search on the real functions (tier U models may be spurious)

def _brute_min_shape(elems):
    if not elems:
        return (0, False)
    lo, hi = min(elems), max(elems)
    s = lo < 0
    w = 0
    while True:
        l, h = shape_range(w, s) if not (s and w == 0) else (1, 0)
        if l <= lo and hi <= h:
            return (w, s)
        w += 1


def concrete_search(task):
    import enum as pyenum
    import amaranth.utils as U
    import amaranth.hdl._ast as A
    k = task[0]
    R = list(range(-70, 71)) + [2 ** k for k in range(7, 40)] + [2 ** k - 1 for k in range(7, 40)] + \
        [-(2 ** k) for k in range(7, 40)] + [-(2 ** k) - 1 for k in range(7, 40)] + [2 ** k + 1 for k in range(7, 40)]
    if k in ("bits_for", "ceil_log2", "const_default"):
        for n in R:
            for rsb in (False, True):
                s = n < 0 or rsb
                w = 1 if n == 0 and not rsb else 0
                while not ((-(1 << (w - 1)) <= n < (1 << (w - 1))) if (s and w > 0) else (not s and 0 <= n < (1 << w))):
                    w += 1
                if U.bits_for(n, rsb) != w:
                    return {"function": "bits_for", "n": n, "require_sign_bit": rsb, "observed": U.bits_for(n, rsb), "expected": w}
            if n >= 0:
                r = U.ceil_log2(n)
                if not ((1 << r) >= n and (r == 0 or (1 << (r - 1)) < n)):
                    return {"function": "ceil_log2", "n": n, "observed": r}
            c = A.Const(n)
            exp = (1, False) if n == 0 else _brute_min_shape([n])
            if (c.shape().width, c.shape().signed) != exp or c.value != n:
                return {"function": "Const", "value": n, "observed_shape": repr(c.shape()), "expected": exp}
    if k == "exact_log2":
        for n in range(-10, 5000):
            ispow = n > 0 and (n & (n - 1)) == 0
            try:
                r = U.exact_log2(n)
                ok = ispow and (1 << r) == n
            except ValueError:
                ok = not ispow
            if not ok:
                return {"function": "exact_log2", "n": n}
    if k == "cast_range":
        step = task[1]
        for start in range(-20, 21):
            for stop in range(-20, 21):
                rg = range(start, stop, step)
                sh = A.Shape.cast(rg)
                exp = _brute_min_shape(list(rg))
                if list(rg) == [0]:
                    exp = (0, False)
                if (sh.width, sh.signed) != exp:
                    return {"function": "Shape.cast", "range": repr(rg), "observed": repr(sh), "expected": exp}
    if k == "plain_enum":
        import itertools
        vals = [-9, -8, -5, -1, 0, 1, 2, 3, 7, 8]
        for combo in itertools.combinations(vals, task[1]):
            E = pyenum.Enum("E", {f"M{i}": v for i, v in enumerate(combo)})
            sh = A.Shape.cast(E)
            sgn = any(v < 0 for v in combo)
            need = 0
            for v in combo:
                cw, cs = (1, False) if v == 0 else _brute_min_shape([v])
                need = max(need, cw + (1 if (sgn and not cs) else 0))
            if (sh.width, sh.signed) != (need, sgn):
                return {"function": "Shape.cast(Enum)", "members": combo, "observed": repr(sh), "expected": (need, sgn)}
    if k == "plain_enum_consts":
        # real Const members with explicit shapes (one Value member per enum.Enum at most -- CPython compares an
        # unhashable member with the earlier ones -- so the others are ints, which count with their minimal shape)
        for w in list(range(0, 12)) + [16, 32, 64]:
            for sg in (False, True):
                if sg and w == 0:
                    continue
                for others in ((), (1,), (-2,), (7, -8))[: task[1] + 1]:
                    E = pyenum.Enum("E", {"C": A.Const(0, A.Shape(w, sg)), **{f"M{i}": v for i, v in enumerate(others)}})
                    sh = A.Shape.cast(E)
                    shapes = [(w, sg)] + [_brute_min_shape([v]) for v in others]
                    sgn = any(s_ for _w, s_ in shapes)
                    need = max((w_ if (s_ or not sgn) else w_ + 1) for w_, s_ in shapes)
                    if (sh.width, sh.signed) != (need, sgn):
                        return {"function": "Shape.cast(Enum)", "members": [f"Const(0, {A.Shape(w, sg)!r})", *others], "observed": repr(sh),
                                "expected": repr(A.Shape(need, sgn)), "how": "enum.Enum('E', members); Shape.cast(E)"}
    if k in ("const_norm", "init_value", "memory_init", "const_cast", "shape_init"):
        for w in range(0, 7):
            for s in (False, True):
                if s and w == 0:
                    continue
                for v in range(-80, 81):
                    exp = norm(v, w, s)
                    if A.Const(v, A.Shape(w, s)).value != exp:
                        return {"function": "Const", "value": v, "shape": (w, s), "observed": A.Const(v, A.Shape(w, s)).value, "expected": exp}
                    if A._get_init_value(v, A.Shape(w, s)) != exp:
                        return {"function": "_get_init_value", "value": v, "shape": (w, s), "expected": exp}
        for rg in RANGES:
            for v in range(-70, 71):
                try:
                    r = A._get_init_value(v, rg)
                    ok = v in rg and r == v
                except A.SyntaxError:
                    ok = v not in rg
                if not ok:
                    return {"function": "_get_init_value", "init": v, "shape": repr(rg)}
    return None


def find_failing_input(res, ob):
    task = eval(res["task"], {"__builtins__": {}}, {})
    found = concrete_search(task)
    if found is None and ob.get("model"):
        # bounded tiers: the model itself is the failing input
        if res.get("tier") != "U":
            return {"model": ob["model"], "how": "exact (tier B) counter-model of the obligation " + ob["name"]}
    return found


def replay(data):
    task = eval(data["task"], {"__builtins__": {}}, {})
    return concrete_search(task) is not None
