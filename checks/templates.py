"""Node templates shared by the staged checks (C01, C02, C04, C05): a template is a picklable
tuple `(kind, params...)`; `build(template)` returns `(operand_shapes, make_expr, direct_spec)`
where `make_expr(*operands)` builds the expression with the *public* Amaranth API from operand
Values of the given shapes, and `direct_spec(*values)` (or None) is the documented meaning of a
derived operator stated directly on integers (not through `sem` of the AST that was built).
"""
from spec.sem import norm, mask, unify
from pyvc.sym import ite, popcount, is_sym

UNOPS = {
    "~": lambda a: ~a,
    "neg": lambda a: -a,
    "pos": lambda a: +a,
    "bool": lambda a: a.bool(),
    "any": lambda a: a.any(),
    "all": lambda a: a.all(),
    "xor": lambda a: a.xor(),
    "as_unsigned": lambda a: a.as_unsigned(),
    "as_signed": lambda a: a.as_signed(),
}
BINOPS = {
    "+": lambda a, b: a + b, "-": lambda a, b: a - b, "*": lambda a, b: a * b,
    "//": lambda a, b: a // b, "%": lambda a, b: a % b,
    "&": lambda a, b: a & b, "|": lambda a, b: a | b, "^": lambda a, b: a ^ b,
    "==": lambda a, b: a == b, "!=": lambda a, b: a != b, "<": lambda a, b: a < b,
    "<=": lambda a, b: a <= b, ">": lambda a, b: a > b, ">=": lambda a, b: a >= b,
    "<<": lambda a, b: a << b, ">>": lambda a, b: a >> b,
}
# operator tag in the AST for doc_shape
UNOP_TAG = {"~": "~", "neg": "-", "pos": "+", "bool": "b", "any": "r|", "all": "r&", "xor": "r^",
            "as_unsigned": "u", "as_signed": "s"}


# ------------------------------------------------------------------------------------------------
# nested expressions drawn from the operator grammar with a fixed seed: the single-operator templates have signals as
# operands (the inductive step); these exercise the composition directly -- intermediate values are not normalised
# signals but whatever the generated code / netlist carries between operators

class _Lcg:
    def __init__(self, seed):
        self.x = seed & 0xFFFFFFFF

    def next(self, n):
        self.x = (1103515245 * self.x + 12345) & 0x7FFFFFFF
        return (self.x >> 8) % n

    def pick(self, xs):
        return xs[self.next(len(xs))]


def _gen_nested(g):
    n_sig = 2 + g.next(2)
    shapes = [(g.pick([1, 2, 2, 3, 3]), g.next(3) == 0) for _ in range(n_sig)]
    un = list(UNOPS)
    bn = list(BINOPS)

    def node(depth):
        k = g.next(20)
        if depth >= 3 or k < (2 if depth == 0 else 6):
            if g.next(5) == 0:
                return ("const", g.pick([0, 1, 2, 5, -1, -3]))
            return ("sig", g.next(n_sig))
        if k < 9:
            return ("un", g.pick(un), node(depth + 1))
        if k < 15:
            return ("bin", g.pick(bn), node(depth + 1), node(depth + 1))
        if k == 15:
            return ("slice", node(depth + 1), g.next(4), g.next(5))
        if k == 16:
            return ("cat", node(depth + 1), node(depth + 1))
        if k == 17:
            return ("mux", node(depth + 1), node(depth + 1), node(depth + 1))
        if k == 18:
            return ("bsel", node(depth + 1), node(depth + 1), g.next(4))
        return g.pick([("rot", node(depth + 1), g.next(5) - 2), ("abs", node(depth + 1)), ("shl", node(depth + 1), g.next(3)),
                       ("match", node(depth + 1), g.next(8))])
    tree = node(0)
    while tree[0] in ("sig", "const"):
        tree = node(0)
    return shapes, tree


def _make_nested(tree, sigs):
    from amaranth.hdl import Value, Const, Cat, Mux

    def cap(v, n=8):
        v = Value.cast(v)
        return v[0:n] if len(v) > n else v

    def mk(t):
        k = t[0]
        if k == "sig":
            return sigs[t[1]]
        if k == "const":
            return Const(t[1])
        if k == "un":
            a = mk(t[2])
            if t[1] == "as_signed" and len(a) == 0:
                return a
            return cap(UNOPS[t[1]](a))
        if k == "bin":
            a, b = mk(t[2]), mk(t[3])
            if t[1] in ("<<", ">>"):
                b = Value.cast(b).as_unsigned()[0:2]            # shift amounts are unsigned; keep the result width small
            if t[1] == "*":
                a, b = cap(a, 4), cap(b, 4)
            return cap(BINOPS[t[1]](a, b))
        if k == "slice":
            a = Value.cast(mk(t[1]))
            lo = min(t[2], len(a))
            hi = min(max(t[3], lo), len(a))
            return a[lo:hi]
        if k == "cat":
            return cap(Cat(mk(t[1]), mk(t[2])))
        if k == "mux":
            return cap(Mux(mk(t[1]), mk(t[2]), mk(t[3])))
        if k == "bsel":
            off = Value.cast(mk(t[2])).as_unsigned()[0:2]
            return Value.cast(mk(t[1])).bit_select(off, t[3])
        if k == "rot":
            return Value.cast(mk(t[1])).rotate_left(t[2])
        if k == "abs":
            return cap(abs(Value.cast(mk(t[1]))))
        if k == "shl":
            return cap(Value.cast(mk(t[1])).shift_left(t[2]))
        if k == "match":
            a = Value.cast(mk(t[1]))
            w = len(a)
            pat = "".join("01-"[(t[2] >> (2 * i)) % 3] for i in range(w))
            return a.matches(pat, t[2] % 3)
        raise KeyError(k)
    return mk(tree)


N_NESTED = {"quick": 60, "thorough": 500}
_g = _Lcg(1092026)
NESTED = [_gen_nested(_g) for _ in range(N_NESTED["thorough"])]


def shapes_upto(W, min_width=0):
    out = []
    for w in range(min_width, W + 1):
        out.append((w, False))
        if w >= 1:
            out.append((w, True))
    return out


def _rot(v, w, n):
    """rotate the w-bit pattern of v left by n (n may be negative / larger than w)."""
    if w == 0:
        return v * 0 if is_sym(v) else 0
    n %= w
    u = v & mask(w)
    return ((u << n) | (u >> (w - n))) & mask(w)


def const_shape(c):
    """Shape of an integer used as a constant: the narrowest that holds it, 0 being one unsigned bit."""
    if c < 0:
        return ((~c).bit_length() + 1, True)
    return (max(c.bit_length(), 1), False)


def pyop(op, x, y):
    """Python integer semantics of a binary operator, with the documented `// 0` and `% 0` -> 0."""
    if op == "//":
        return ite(y == 0, 0, x // ite(y == 0, 1, y))
    if op == "%":
        return ite(y == 0, 0, x % ite(y == 0, 1, y))
    if op in ("==", "!=", "<", "<=", ">", ">="):
        import operator as o
        f = {"==": o.eq, "!=": o.ne, "<": o.lt, "<=": o.le, ">": o.gt, ">=": o.ge}[op]
        return ite(f(x, y), 1, 0)
    import operator as o
    f = {"+": o.add, "-": o.sub, "*": o.mul, "&": o.and_, "|": o.or_, "^": o.xor,
         "<<": o.lshift, ">>": o.rshift}[op]
    return f(x, y)


def build(t):
    kind = t[0]
    if kind == "dup-top-binop":
        # a binary operator one of whose operands has its top bit DUPLICATED (Cat(x, x[-1]), an unsigned value whose two top bits
        # are the same net): back ends that shorten operands by redundant top bits must do so according to the operand's OWN signedness
        _, op, sa, sb, side = t
        from amaranth.hdl import Cat

        def mk(a, b):
            if side == "l":
                a = Cat(a, a[-1])
            else:
                b = Cat(b, b[-1])
            return BINOPS[op](a, b)
        return [sa, sb], mk, None
    if kind == "padded-unop":
        # a unary operator over a value with CONSTANT low / high bits (zeros or ones), as left by concatenation with constants or by
        # partially driven signals: back ends that shorten operands by their constant bits must not change the result
        _, op, sh, lo_w, hi_w, ones = t
        from amaranth.hdl import Cat, Const
        lo_v = ((1 << lo_w) - 1) if ones else 0
        hi_v = ((1 << hi_w) - 1) if ones else 0
        return [sh], (lambda a: UNOPS[op](Cat(Const(lo_v, lo_w), a, Const(hi_v, hi_w)))), None
    if kind == "nested":
        shapes, tree = NESTED[t[1]]
        return list(shapes), (lambda *sigs: _make_nested(tree, sigs)), None
    if kind == "unop":
        _, op, sh = t
        return [sh], UNOPS[op], None
    if kind == "binop":
        _, op, sa, sb = t
        return [sa, sb], BINOPS[op], None
    if kind == "cbinop":
        # an operator with a Python integer on one side (reflected operator methods when on the left)
        _, op, side, c, sh = t
        if side == "l":
            return [sh], (lambda a: BINOPS[op](c, a)), (lambda a: pyop(op, c, a))
        return [sh], (lambda a: BINOPS[op](a, c)), (lambda a: pyop(op, a, c))
    if kind == "slice":
        _, sh, start, stop = t
        return [sh], (lambda a: a[start:stop]), (lambda a: (a >> start) & mask(stop - start))
    if kind == "index":
        _, sh, i = t
        w = sh[0]
        return [sh], (lambda a: a[i]), (lambda a: (a >> (i % w)) & 1)
    if kind == "stepslice":
        _, sh, start, stop, step = t
        idx = list(range(*slice(start, stop, step).indices(sh[0])))

        def spec(a):
            r = 0
            for k, i in enumerate(idx):
                r = r | (((a >> i) & 1) << k)
            return r
        return [sh], (lambda a: a[start:stop:step]), spec
    if kind == "bit_select":
        _, sh, off_w, width = t
        return [sh, (off_w, False)], (lambda a, o: a.bit_select(o, width)), \
            (lambda a, o: (a >> o) & mask(width))
    if kind == "word_select":
        _, sh, off_w, width = t
        return [sh, (off_w, False)], (lambda a, o: a.word_select(o, width)), \
            (lambda a, o: (a >> (o * width)) & mask(width))
    if kind == "bit_select_const":
        _, sh, off, width = t
        return [sh], (lambda a: a.bit_select(off, width)), (lambda a: (a >> off) & mask(width))
    if kind == "word_select_const":
        _, sh, off, width = t
        return [sh], (lambda a: a.word_select(off, width)), (lambda a: (a >> (off * width)) & mask(width))
    if kind == "cat":
        _, shs = t
        from amaranth.hdl import Cat

        def spec(*vs):
            r, pos = 0, 0
            for v, (w, _s) in zip(vs, shs):
                r = r | ((v & mask(w)) << pos)
                pos += w
            return r
        return list(shs), (lambda *xs: Cat(*xs)), spec
    if kind == "mux":
        _, sel_sh, sa, sb = t
        from amaranth.hdl import Mux
        return [sel_sh, sa, sb], (lambda s, a, b: Mux(s, a, b)), (lambda s, a, b: ite(s != 0, a, b))
    if kind == "array":
        _, idx_w, shs = t
        from amaranth.hdl import Array
        n = len(shs)

        def spec(i, *vs):
            # in-range indexing only is specified; out-of-range is checked not to be claimed
            r = vs[-1]
            for k in reversed(range(n - 1)):
                r = ite(i == k, vs[k], r)
            return r
        return [(idx_w, False)] + list(shs), (lambda i, *xs: Array(xs)[i]), spec
    if kind == "switchvalue":
        # explicit patterns over the test, including don't-care strings and multi-pattern cases
        _, test_sh, cases, shs = t
        from amaranth.hdl._ast import SwitchValue

        def mk(test, *xs):
            return SwitchValue(test, [(pats, x) for (pats, _i), x in zip(cases, xs)])
        return [test_sh] + list(shs), mk, None
    if kind == "abs":
        _, sh = t
        return [sh], (lambda a: abs(a)), (lambda a: ite(a < 0, -a, a))
    if kind == "shift_left":
        _, sh, n = t
        return [sh], (lambda a: a.shift_left(n)), \
            (lambda a: (a << n) if n >= 0 else (a >> -n))
    if kind == "shift_right":
        _, sh, n = t
        return [sh], (lambda a: a.shift_right(n)), \
            (lambda a: (a >> n) if n >= 0 else (a << -n))
    if kind == "rotate_left":
        _, sh, n = t
        w, s = sh
        return [sh], (lambda a: a.rotate_left(n)), (lambda a: _rot(a, w, n))
    if kind == "rotate_right":
        _, sh, n = t
        w, s = sh
        return [sh], (lambda a: a.rotate_right(n)), (lambda a: _rot(a, w, -n))
    if kind == "replicate":
        _, sh, n = t
        w, s = sh

        def spec(a):
            r = 0
            for k in range(n):
                r = r | ((a & mask(w)) << (k * w))
            return r
        return [sh], (lambda a: a.replicate(n)), spec
    if kind == "matches":
        _, sh, patterns = t
        w, s = sh
        from spec.sem import pattern_matches, any_of

        def spec(a):
            conds = []
            for p in patterns:
                if isinstance(p, str):
                    conds.append(pattern_matches("".join(p.split()), a & mask(w), w))
                else:
                    # an integer pattern matches iff the value equals it (a pattern the shape
                    # cannot represent never matches)
                    conds.append(a == p)
            return ite(any_of(conds), 1, 0)
        return [sh], (lambda a: a.matches(*patterns)), spec
    raise KeyError(kind)


def expected_shape(t, expr):
    """Documented result shape of the template, as (width, signed), or None when the template
    does not pin one down beyond containment."""
    from spec.sem import doc_shape
    kind = t[0]
    if kind == "unop":
        return doc_shape(UNOP_TAG[t[1]], [t[2]])
    if kind == "binop":
        return doc_shape(t[1], [t[2], t[3]])
    if kind == "cbinop":
        _, op, side, c, sh = t
        return doc_shape(op, [const_shape(c), sh] if side == "l" else [sh, const_shape(c)])
    if kind == "slice":
        return (t[3] - t[2], False)
    if kind == "index":
        return (1, False)
    if kind == "stepslice":
        return (len(range(*slice(t[2], t[3], t[4]).indices(t[1][0]))), False)
    if kind in ("bit_select", "word_select"):
        return (t[3], False)
    if kind in ("bit_select_const", "word_select_const"):
        return (t[3], False)
    if kind == "cat":
        return (sum(w for w, _s in t[1]), False)
    if kind == "mux":
        return unify([t[2], t[3]])
    if kind == "array":
        # elements the index cannot reach are dropped when the proxy is lowered; the documented
        # shape (that of the equivalent mux tree) is pinned down only when all are reachable
        return unify(t[2]) if len(t[2]) <= (1 << t[1]) else None
    if kind == "switchvalue":
        return unify(t[3])
    if kind == "abs":
        return (t[1][0], False)
    if kind == "shift_left":
        w, s = t[1]
        n = t[2]
        return (w + n, s) if n >= 0 else (max(w + n, 0) if not s else max(w + n, 1), s)
    if kind == "shift_right":
        w, s = t[1]
        n = t[2]
        return (w - n, s) if n <= 0 else ((max(w - n, 0), s) if not s else (max(w - n, 1), s))
    if kind in ("rotate_left", "rotate_right"):
        return (t[1][0], False)
    if kind == "replicate":
        return (t[1][0] * t[2], False)
    if kind == "matches":
        return (1, False)
    return None


def precondition(t):
    """Restriction of the operand values under which the template's meaning is specified."""
    if t[0] == "array":
        n = len(t[2])
        return lambda i, *vs: i < n          # only in-range indexing is specified (C01)
    return None


def tid(t):
    return repr(t).replace(" ", "")
