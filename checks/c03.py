"""C03 -- clock domains, resets and control inserters behave as specified.

 ff        Flip-flop contract of the generated synchronous process (`_FragmentCompiler` sync branch,
           `edge_waker` registration), per domain flavour {pos,neg} x {reset-less domain, sync reset, async
           reset}: from EVERY register state and input, each event (active edge with reset low / high,
           inactive edge, reset rise / fall without a clock edge, events of another domain) leaves every
           register equal to the reference `ff_step`:  changes only at the active edge of its own clock;
           init instead of the assigned value when reset is asserted at the edge unless reset-less;
           asynchronous reset loads init as soon as it rises; other domains never affect it; a signal whose
           bits are split between two domains is updated per domain.
 inserter  Relational contracts of ResetInserter / EnableInserter / DomainRenamer: the wrapped design
           (real transformer, real compiler) is stepped next to the plain design from the same arbitrary
           state (registers of the top module and a submodule, reset-less registers, a memory with a write
           port and a synchronous read port): inserted reset high -> init at the edge (reset-less excepted),
           low -> exactly the plain behaviour; enable low -> every register, memory row and read capture
           unchanged, but the domain's own reset still effective; an enable around a reset freezes it, a
           reset around an enable does not; two resets OR, two enables AND; a renamed design behaves like
           the plain one on the new domain's clock and ignores the old one.
"""
from pyvc.explore import Exploration
from pyvc.sym import SInt, to_sint, And, Or, Not, Implies, ite
from pyvc import runner, source
from spec.sem import mask, norm, shape_range
from harness.kernel import Design
from harness import capture

PROPERTY = "C03"

META = {
    "level": "proof",
    "trusted_base": [
        "pyvc symbolic integer encoding; z3 / cvc5",
        "kernel composition model (harness/kernel.py: delta loop; edge wakers read off the real add_signal_waker calls)",
        "reference ff_step in this file, written from the property statement",
        "for inserter laws the plain design's compiled behaviour is the reference (its own correctness is C02/C11's)",
    ],
    "assumptions": [
        "design shapes enumerated (one or two domains, a submodule, a memory, stacked inserters as listed); all "
        "register values and inputs per shape",
        "late-bound ClockSignal/ResetSignal resolution beyond these templates and arbitrary hierarchies are not decided",
        "netlist-side reset lowering (emit_drivers, FlipFlop cells) is checked in C04",
    ],
    "bounds": {"quick": {}, "thorough": {}},
    "explanation": "flip-flop event contracts + relational inserter contracts",
}


def functions():
    out = [source.describe("amaranth/sim/_pyrtl.py", q, arith="generated code executed", bound="templates enumerated")
           for q in ("_FragmentCompiler.__call__", "edge_waker")]
    out += [source.describe("amaranth/hdl/_xfrm.py", q, arith="relational, through generated code", bound="templates enumerated")
            for q in ("ResetInserter._insert_control", "EnableInserter._insert_control", "EnableInserter.on_fragment",
                      "_ControlInserter.on_fragment", "DomainRenamer.map_statements", "DomainRenamer.map_domains",
                      "DomainRenamer.map_memory_ports", "DomainLowerer.on_fragment")]
    out += [source.describe("amaranth/hdl/_cd.py", "ClockDomain.__init__", arith="-", bound="-")]
    return out


FLAVOURS = [(edge, kind) for edge in ("pos", "neg") for kind in ("noreset", "sync", "async")]


def tasks(tier):
    ts = [("ff", e, k) for e, k in FLAVOURS]
    ts += [("ff-two-domains",)]
    ts += [("inserter", name) for name in INSERTER_CASES]
    # memory ports are clocked by their own domain only (the two-domain configurations of C11, same obligations)
    ts += [("memory-two-domains", 12), ("memory-two-domains", 13), ("late-bound",)]
    ts += [("rename-merge", c) for c in ("two-to-one", "onto-existing", "onto-existing-reversed")]
    ts += [("dict-inserter", c) for c in ("reset", "reset-b-first", "enable", "enable-b-first")]
    ts += [("rename-swap", c) for c in ("swap", "chain")]
    ts += [("dict-enable-memory", c) for c in ("a-first", "b-first")]
    return ts


def canaries(tier):
    return [("canary-ff",), ("canary-enable",)]


# ------------------------------------------------------------------------------------------------
# flip-flop contract

def check_ff(edge, kind, break_spec=False):
    from amaranth.hdl import Signal, Module, ClockDomain
    name = f"ff({edge},{kind})"
    m = Module()
    cd = ClockDomain("sync", clk_edge=edge, async_reset=(kind == "async"), reset_less=(kind == "noreset"))
    m.domains += cd
    od = ClockDomain("other")
    m.domains += od
    r = Signal(4, init=5, name="r")
    rl = Signal(4, init=9, reset_less=True, name="rl")
    sg = Signal(3, init=2, name="sg")
    o = Signal(4, init=3, name="o")
    dd = Signal(4, name="d")
    # signed registers: a negative and a positive initial value, and one of which only bits 1..2 are driven
    from amaranth.hdl import signed as _signed
    sn = Signal(_signed(3), init=-3, name="sn")
    sp = Signal(_signed(4), init=5, name="sp")
    spart = Signal(_signed(4), init=-6, name="spart")
    m.d.sync += [r.eq(r + dd), rl.eq(rl + dd), sn.eq(sn + dd[0:2]), sp.eq(-sp), spart[1:3].eq(dd[0:2])]
    with m.If(dd[0]):
        m.d.sync += sg.eq(sg - 1)
    m.d.other += o.eq(o + 1)
    d = Design(m)
    active = 1 if edge == "pos" else 0
    regs = [r, rl, sg, o, sn, sp, spart]
    events = ["active-edge", "inactive-edge", "other-clk-rise", "other-rst-rise"]
    if kind != "noreset":
        events += ["active-edge-in-reset", "rst-rise", "rst-fall", "rst-rise-with-active-edge"]
    parts = []
    for ev in events:
        def body(path, ev=ev):
            d.fresh(path)
            # a consistent quiescent starting point: clocks at their inactive level
            d.set(cd.clk, 1 - active)
            d.set(od.clk, 0)
            d.set(od.rst, 0)
            rst0 = 0
            if kind != "noreset":
                rst0 = 1 if ev in ("active-edge-in-reset", "rst-fall") else 0
                d.set(cd.rst, rst0)
            d.apply([], path, f"{name}::{ev}::pre")
            old = {s.name: d.val(s) for s in regs}
            dv = d.val(dd)
            trans = {
                "active-edge": [(cd.clk, active)],
                "inactive-edge": None,
                "other-clk-rise": [(od.clk, 1)],
                "other-rst-rise": [(od.rst, 1)],
                "active-edge-in-reset": [(cd.clk, active)],
                "rst-rise": [(cd.rst, 1)] if kind != "noreset" else None,
                "rst-fall": [(cd.rst, 0)] if kind != "noreset" else None,
                "rst-rise-with-active-edge": [(cd.rst, 1), (cd.clk, active)] if kind != "noreset" else None,
            }[ev]
            if ev == "inactive-edge":
                # go to the active level first (not checked here), then back: the second transition is the
                # inactive edge
                d.apply([(cd.clk, active)], path, f"{name}::{ev}::setup")
                old = {s.name: d.val(s) for s in regs}
                trans = [(cd.clk, 1 - active)]
            d.apply(trans, path, f"{name}::{ev}::post")
            # --- reference
            clocked = ev in ("active-edge", "active-edge-in-reset", "rst-rise-with-active-edge")
            in_reset = ev in ("active-edge-in-reset", "rst-rise-with-active-edge")
            async_load = kind == "async" and ev in ("rst-rise", "rst-rise-with-active-edge")
            exp = dict(old)
            if clocked:
                exp["r"] = (old["r"] + dv) & 15
                exp["rl"] = (old["rl"] + dv) & 15
                exp["sg"] = ite((dv & 1) != 0, (old["sg"] - 1) & 7, old["sg"])
                exp["sn"] = norm(old["sn"] + (dv & 3), 3, True)
                exp["sp"] = norm(-old["sp"], 4, True)
                exp["spart"] = norm((old["spart"] & ~0b0110) | ((dv & 3) << 1), 4, True)
                if in_reset and kind in ("sync", "async"):
                    exp["r"] = r.init
                    exp["sg"] = sg.init
                    exp["sn"] = sn.init
                    exp["sp"] = sp.init
                    exp["spart"] = norm((exp["spart"] & ~0b0110) | (spart.init & 0b0110), 4, True)
            if async_load:
                exp["r"] = r.init
                exp["sg"] = sg.init
                exp["sn"] = sn.init
                exp["sp"] = sp.init
                exp["spart"] = norm((exp["spart"] & ~0b0110) | (spart.init & 0b0110), 4, True)
            if ev == "other-clk-rise":
                exp["o"] = (old["o"] + 1) & 15
            if break_spec and ev == "active-edge":
                exp["r"] = old["r"]
            for s in regs:
                path.prove(f"{name}::{ev}::{s.name}", to_sint(d.val(s)) == to_sint(exp[s.name]))
        parts.append(runner.from_exploration(name, Exploration(f"{name}::{ev}", body).run()))
    return runner.merge_results(name, parts)


def check_two_domains():
    """One signal whose low bits are driven from domain a and high bits from domain b."""
    from amaranth.hdl import Signal, Module, ClockDomain
    name = "ff-two-domains"
    m = Module()
    a, b = ClockDomain("a"), ClockDomain("b", clk_edge="neg", async_reset=True)
    m.domains += [a, b]
    s = Signal(6, init=0b101101, name="s")
    x = Signal(3, name="x")
    m.d.a += s[0:3].eq(s[0:3] + x)
    m.d.b += s[3:6].eq(s[3:6] ^ x)
    d = Design(m)
    parts = []
    for ev in ("a-edge", "b-edge", "both", "a-rst-edge", "b-rst-rise"):
        def body(path, ev=ev):
            d.fresh(path)
            d.set(a.clk, 0); d.set(b.clk, 1); d.set(a.rst, 1 if ev == "a-rst-edge" else 0); d.set(b.rst, 0)
            d.apply([], path, f"{name}::{ev}::pre")
            old, xv = d.val(s), d.val(x)
            lo, hi = old & 7, (old >> 3) & 7
            tr = {"a-edge": [(a.clk, 1)], "b-edge": [(b.clk, 0)], "both": [(a.clk, 1), (b.clk, 0)],
                  "a-rst-edge": [(a.clk, 1)], "b-rst-rise": [(b.rst, 1)]}[ev]
            d.apply(tr, path, f"{name}::{ev}::post")
            if ev in ("a-edge", "both"):
                lo = (lo + xv) & 7
            if ev == "a-rst-edge":
                lo = s.init & 7
            if ev in ("b-edge", "both"):
                hi = (hi ^ xv) & 7
            if ev == "b-rst-rise":
                hi = (s.init >> 3) & 7
            path.prove(f"{name}::{ev}::s", to_sint(d.val(s)) == to_sint(lo | (hi << 3)))
        parts.append(runner.from_exploration(name, Exploration(f"{name}::{ev}", body).run()))
    return runner.merge_results(name, parts)


# ------------------------------------------------------------------------------------------------
# inserters: relational contracts against the plain design

class Inner:
    """The design under the wrappers: registers in the top module and a submodule, a reset-less register, a
    partially driven signal, and a memory with a write port and a synchronous read port."""
    def __init__(self):
        from amaranth.hdl import Signal
        from amaranth.lib.memory import Memory
        self.d = Signal(3, name="din")
        self.r = Signal(3, init=5, name="r")
        self.rl = Signal(3, init=6, reset_less=True, name="rl")
        self.p = Signal(4, init=0b1010, name="p")       # only p[1:3] is driven
        self.q = Signal(4, init=0b0110, name="q")       # q[0:2] driven from sync, q[2:4] from domain `other`
        self.s = Signal(3, init=3, name="s")            # in a submodule
        self.mem = Memory(shape=3, depth=2, init=[1, 2])
        self.wp = self.mem.write_port()
        self.rp = self.mem.read_port(transparent_for=(self.wp,))
        for k, sig in (("w_addr", self.wp.addr), ("w_data", self.wp.data), ("w_en", self.wp.en),
                       ("r_addr", self.rp.addr), ("r_data", self.rp.data), ("r_en", self.rp.en)):
            sig.name = k

    def regs(self):
        return [self.r, self.rl, self.p, self.q, self.s, self.rp.data]

    def inputs(self):
        return [self.d, self.wp.addr, self.wp.data, self.wp.en, self.rp.addr, self.rp.en]

    def build(self, fresh_memory):
        from amaranth.hdl import Module, Elaboratable
        inner = self
        if fresh_memory:
            from amaranth.lib.memory import Memory
            # a second, identical memory object for the second elaboration (a Memory can be elaborated once
            # per design, ports are bound to it)
            pass

        class Sub(Elaboratable):
            def elaborate(self_, platform):
                m = Module()
                m.d.sync += inner.s.eq(inner.s + inner.d)
                return m

        class Top(Elaboratable):
            def elaborate(self_, platform):
                m = Module()
                m.d.sync += [inner.r.eq(inner.r + inner.d), inner.rl.eq(inner.rl ^ inner.d),
                             inner.p[1:3].eq(inner.d[0:2]), inner.q[0:2].eq(inner.d[1:3])]
                m.d.other += inner.q[2:4].eq(inner.q[2:4] + 1)
                m.submodules.sub = Sub()
                m.submodules.mem = inner.mem
                return m
        return Top()


def _wrap(top, controls, case):
    from amaranth.hdl import ResetInserter, EnableInserter, DomainRenamer
    rst1, rst2, en1, en2 = controls
    return {
        "reset": lambda: ResetInserter(rst1)(top),
        "enable": lambda: EnableInserter(en1)(top),
        "reset-in-enable": lambda: EnableInserter(en1)(ResetInserter(rst1)(top)),
        "enable-in-reset": lambda: ResetInserter(rst1)(EnableInserter(en1)(top)),
        "two-resets": lambda: ResetInserter(rst2)(ResetInserter(rst1)(top)),
        "two-enables": lambda: EnableInserter(en2)(EnableInserter(en1)(top)),
        "rename": lambda: DomainRenamer("fast")(top),
        "rename-of-enable": lambda: DomainRenamer({"sync": "fast"})(EnableInserter(en1)(top)),
        "reset-dict": lambda: ResetInserter({"sync": rst1})(top),
    }[case]()


INSERTER_CASES = ["reset", "enable", "reset-in-enable", "enable-in-reset", "two-resets", "two-enables", "rename",
                  "rename-of-enable", "reset-dict"]


def check_inserter(case, break_law=False):
    from amaranth.hdl import Signal, Module, ClockDomain
    name = f"inserter({case})"
    rst1, rst2, en1, en2 = Signal(name="rst1"), Signal(name="rst2"), Signal(name="en1"), Signal(name="en2")
    renamed = case.startswith("rename")
    parts = []
    for dom_rst in (0, 1):
        # plain and wrapped designs are built from two identical Inner instances; states are tied together
        # by position (regs() / inputs() lists)
        A, B = Inner(), Inner()
        mp = Module()
        cdp = ClockDomain("sync")
        mp.domains += cdp
        mp.domains += ClockDomain("other")
        mp.submodules.top = A.build(False)
        mw = Module()
        cdw = ClockDomain("fast" if renamed else "sync")
        mw.domains += cdw
        if renamed:
            old_cd = ClockDomain("sync")
            mw.domains += old_cd
        mw.domains += ClockDomain("other")
        mw.submodules.top = _wrap(B.build(False), (rst1, rst2, en1, en2), case)
        dp, dw = Design(mp), Design(mw)
        dw.register(rst1, rst2, en1, en2)

        def body(path, dom_rst=dom_rst):
            dp.fresh(path, "p")
            dw.fresh(path, "w")
            # tie the wrapped design's state and inputs to the plain one's
            for sa, sb in zip(A.regs() + A.inputs(), B.regs() + B.inputs()):
                dw.set(sb, dp.val(sa))
            dw.mem(0).data = list(dp.mem(0).data)
            for dsg, cd_ in ((dp, cdp), (dw, cdw)):
                dsg.set(cd_.clk, 0)
                dsg.set(cd_.rst, dom_rst)
            for dsg in (dp, dw):
                ocd = dsg.design.fragment.domains["other"]
                dsg.set(ocd.clk, 0)
                dsg.set(ocd.rst, 0)
            if renamed:
                dw.set(old_cd.clk, 0)
                dw.set(old_cd.rst, 0)
            dp.apply([], path, f"{name}::rst={dom_rst}::pre-plain")
            dw.apply([], path, f"{name}::rst={dom_rst}::pre-wrapped")
            old = [dw.val(s) for s in B.regs()]
            old_rows = list(dw.mem(0).data)
            c_r1, c_r2, c_e1, c_e2 = (dw.val(x) for x in (rst1, rst2, en1, en2))
            dp.apply([(cdp.clk, 1)], path, f"{name}::rst={dom_rst}::edge-plain")
            dw.apply([(cdw.clk, 1)], path, f"{name}::rst={dom_rst}::edge-wrapped")
            plain = [dp.val(s) for s in A.regs()]
            plain_rows = list(dp.mem(0).data)
            got = [dw.val(s) for s in B.regs()]
            got_rows = list(dw.mem(0).data)
            inits = [s.init for s in B.regs()]
            resetless = [s.reset_less for s in B.regs()]
            # which bits an inserted reset loads: all driven bits of non-reset-less registers
            # (p: only bits 1..2 are driven; r_data is driven by the memory, not by statements)
            rmask = {"r": 7, "rl": 0, "p": 0b0110, "q": 0b0011, "s": 7, "r_data": 0}
            if case in ("reset", "reset-dict"):
                en, rs = True, c_r1 != 0
            elif case == "enable" or case == "rename-of-enable":
                en, rs = c_e1 != 0, False
            elif case == "reset-in-enable":
                en, rs = c_e1 != 0, c_r1 != 0           # enable freezes the reset inserted inside it
            elif case == "enable-in-reset":
                en, rs = c_e1 != 0, c_r1 != 0
            elif case == "two-resets":
                en, rs = True, Or(c_r1 != 0, c_r2 != 0)
            elif case == "two-enables":
                en, rs = And(c_e1 != 0, c_e2 != 0), False
            else:
                en, rs = True, False
            if break_law:
                en = True
            for k, sig in enumerate(B.regs()):
                nm = sig.name
                full = mask(len(sig))
                # enabled: plain behaviour; disabled: hold -- but the domain's own reset still applies
                if dom_rst and not sig.reset_less and nm != "r_data":
                    base_dis = (old[k] & ~rmask[nm]) | (inits[k] & rmask[nm])
                else:
                    base_dis = old[k]
                base = ite(en, plain[k], base_dis) if en is not True else plain[k]
                rsv = (base & ~rmask[nm]) | (inits[k] & rmask[nm])
                if case == "reset-in-enable":
                    exp = ite(And(en, rs), rsv, base) if rs is not False else base
                else:
                    exp = ite(rs, rsv, base) if rs is not False else base
                path.prove(f"{name}::rst={dom_rst}::{nm}", to_sint(got[k]) == to_sint(exp))
            for i in range(2):
                exp = ite(en, plain_rows[i], old_rows[i]) if en is not True else plain_rows[i]
                path.prove(f"{name}::rst={dom_rst}::row{i}", to_sint(got_rows[i]) == to_sint(exp))
            if renamed:
                # an edge of the old domain's clock does nothing to the renamed design
                snap = [dw.val(s) for s in B.regs()]
                dw.apply([(old_cd.clk, 1)], path, f"{name}::rst={dom_rst}::old-clock")
                path.prove(f"{name}::rst={dom_rst}::old-clock-ignored",
                           And(*[to_sint(dw.val(s)) == to_sint(v) for s, v in zip(B.regs(), snap)]))
        parts.append(runner.from_exploration(name, Exploration(f"{name}::rst={dom_rst}", body).run()))
    return runner.merge_results(name, parts)


def check_rename_merge(case):
    """DomainRenamer maps that make two domains of ONE fragment coincide (two sources renamed to one target, or a source
    renamed to a domain the fragment already drives): the logic of both ends up in the target domain -- an edge of the
    target clock updates every register as an edge of its old clock did, the target's reset loads all of them, and the old
    domains' clocks do nothing."""
    from amaranth.hdl import Signal, Module, ClockDomain, DomainRenamer
    name = f"rename-merge({case})"
    x, y, z, d = Signal(3, name="x", init=1), Signal(3, name="y", init=2), Signal(4, name="z", init=5), Signal(3, name="d")
    inner = Module()
    inner.d.a += [x.eq(x + d), z[0:2].eq(d[0:2])]
    inner.d.b += [y.eq(y ^ d), z[2:4].eq(z[2:4] + 1)]
    sub = Module()
    w = Signal(3, name="w", init=3)
    sub.d.b += w.eq(w - d)
    inner.submodules.sub = sub
    dmap, target = {"two-to-one": ({"a": "c", "b": "c"}, "c"), "onto-existing": ({"a": "b"}, "b"),
                    "onto-existing-reversed": ({"b": "a"}, "a")}[case]
    top = Module()
    cds = {n: ClockDomain(n) for n in ("a", "b", "c")}
    for cd in cds.values():
        top.domains += cd
    top.submodules.inner = DomainRenamer(dmap)(inner)
    dsg = Design(top)
    regs = [x, y, z, w]

    def body(path):
        dsg.fresh(path, "m")
        for cd in cds.values():
            dsg.set(cd.clk, 0)
            dsg.set(cd.rst, 0)
        trst = path.var("target_rst", 0, 1)
        dsg.set(cds[target].rst, trst)
        dsg.apply([], path, f"{name}::pre")
        old = {s.name: dsg.val(s) for s in regs}
        dv = dsg.val(d)
        # edges of the domains that no longer own anything change nothing
        for n, cd in cds.items():
            if n == target or (case != "two-to-one" and n == "c"):
                continue
            dsg.apply([(cd.clk, 1)], path, f"{name}::{n}-edge")
            path.prove(f"{name}::edge-of-{n}-changes-nothing", And(*[to_sint(dsg.val(s)) == to_sint(old[s.name]) for s in regs]))
            dsg.apply([(cd.clk, 0)], path, f"{name}::{n}-fall")
        dsg.apply([(cds[target].clk, 1)], path, f"{name}::target-edge")
        exp = {"x": (old["x"] + dv) & 7, "y": (old["y"] ^ dv) & 7,
               "z": ((dv & 3) | ((((old["z"] >> 2) + 1) & 3) << 2)) & 15, "w": (old["w"] - dv) & 7}
        for s in regs:
            want = ite(trst != 0, s.init, exp[s.name])
            path.prove(f"{name}::{s.name}-updated-by-the-target-clock", to_sint(dsg.val(s)) == to_sint(want))
    return runner.from_exploration(name, Exploration(name, body).run())


def check_dict_inserter(kind):
    """ResetInserter / EnableInserter given a dict naming TWO domains of one fragment: each control acts on the
    registers of its own domain only, at its own domain's edges only."""
    from amaranth.hdl import Signal, Module, ClockDomain, ResetInserter, EnableInserter
    name = f"dict-inserter({kind})"
    x, y, z, w = Signal(3, name="x", init=1), Signal(3, name="y", init=2), Signal(4, name="z", init=5), Signal(3, name="w", init=3)
    d = Signal(3, name="d")
    ca, cb = Signal(name="ctl_a"), Signal(name="ctl_b")
    order = kind.endswith("-b-first")
    inner = Module()
    if order:
        inner.d.b += [y.eq(y ^ d), z[2:4].eq(z[2:4] + 1)]
        inner.d.a += [x.eq(x + d), z[0:2].eq(d[0:2])]
    else:
        inner.d.a += [x.eq(x + d), z[0:2].eq(d[0:2])]
        inner.d.b += [y.eq(y ^ d), z[2:4].eq(z[2:4] + 1)]
    sub = Module()
    sub.d.b += w.eq(w - d)
    inner.submodules.sub = sub
    Ins = ResetInserter if kind.startswith("reset") else EnableInserter
    top = Module()
    cds = {n: ClockDomain(n) for n in ("a", "b")}
    for cd in cds.values():
        top.domains += cd
    top.submodules.inner = Ins({"a": ca, "b": cb})(inner)
    dsg = Design(top)
    dsg.register(ca, cb)
    regs = [x, y, z, w]
    is_reset = kind.startswith("reset")

    def body(path):
        dsg.fresh(path, "m")
        for cd in cds.values():
            dsg.set(cd.clk, 0)
            dsg.set(cd.rst, 0)
        dsg.apply([], path, f"{name}::pre")
        for dom in ("a", "b"):
            old = {s.name: dsg.val(s) for s in regs}
            dv, va, vb = dsg.val(d), dsg.val(ca), dsg.val(cb)
            dsg.apply([(cds[dom].clk, 1)], path, f"{name}::{dom}-edge")
            plain = {"x": (old["x"] + dv) & 7, "y": (old["y"] ^ dv) & 7, "w": (old["w"] - dv) & 7,
                     "z_a": dv & 3, "z_b": ((old["z"] >> 2) + 1) & 3}
            ctl = va if dom == "a" else vb

            def upd(nm, init):
                if is_reset:
                    return ite(ctl != 0, init, plain[nm])
                return ite(ctl != 0, plain[nm], {"x": old["x"], "y": old["y"], "w": old["w"], "z_a": old["z"] & 3, "z_b": (old["z"] >> 2) & 3}[nm])
            if dom == "a":
                exp = {"x": upd("x", x.init), "y": old["y"], "w": old["w"], "z": (old["z"] & 12) | upd("z_a", z.init & 3)}
            else:
                exp = {"x": old["x"], "y": upd("y", y.init), "w": upd("w", w.init), "z": (old["z"] & 3) | (upd("z_b", (z.init >> 2) & 3) << 2)}
            for s_ in regs:
                path.prove(f"{name}::edge-of-{dom}::{s_.name}", to_sint(dsg.val(s_)) == to_sint(exp[s_.name]))
            dsg.apply([(cds[dom].clk, 0)], path, f"{name}::{dom}-fall")
    return runner.from_exploration(name, Exploration(name, body).run())


def check_dict_enable_memory(order):
    """EnableInserter given a dict naming TWO domains over a memory whose write port is in `a` and whose synchronous read
    port is in `b`: the write happens iff port enable AND the control of `a`; the read register loads iff port enable AND the
    control of `b` -- whichever order the dict lists the domains in."""
    from amaranth.hdl import Signal, Module, ClockDomain, EnableInserter
    from amaranth.lib.memory import Memory
    name = f"dict-enable-memory({order})"
    mem = Memory(shape=3, depth=2, init=[4, 5])
    wp = mem.write_port(domain="a")
    rp = mem.read_port(domain="b")
    inner = Module()
    inner.submodules.mem = mem
    ca, cb = Signal(name="ctl_a"), Signal(name="ctl_b")
    controls = {"a": ca, "b": cb} if order == "a-first" else {"b": cb, "a": ca}
    top = Module()
    cds = {n: ClockDomain(n) for n in ("a", "b")}
    for cd in cds.values():
        top.domains += cd
    top.submodules.inner = EnableInserter(controls)(inner)
    dsg = Design(top)
    dsg.register(wp.addr, wp.data, wp.en, rp.addr, rp.en, ca, cb)

    def body(path):
        dsg.fresh(path, "m")
        for cd in cds.values():
            dsg.set(cd.clk, 0)
            dsg.set(cd.rst, 0)
        dsg.apply([], path, f"{name}::pre")
        for dom in ("a", "b"):
            old_rd = dsg.val(rp.data)
            rows = list(dsg.mem(0).data)
            wa, wd, we, ra, re_, va, vb = (dsg.val(s_) for s_ in (wp.addr, wp.data, wp.en, rp.addr, rp.en, ca, cb))
            dsg.apply([(cds[dom].clk, 1)], path, f"{name}::{dom}-edge")
            for i in range(2):
                want = ite(And(we != 0, va != 0, wa == i), wd, rows[i]) if dom == "a" else rows[i]
                path.prove(f"{name}::edge-of-{dom}::row{i}", to_sint(dsg.mem(0).data[i]) == to_sint(want))
            if dom == "b":
                want_rd = ite(And(re_ != 0, vb != 0), ite(ra == 0, rows[0], rows[1]), old_rd)
            else:
                want_rd = old_rd
            path.prove(f"{name}::edge-of-{dom}::read-register", to_sint(dsg.val(rp.data)) == to_sint(want_rd))
            dsg.apply([(cds[dom].clk, 0)], path, f"{name}::{dom}-fall")
    return runner.from_exploration(name, Exploration(name, body).run())


def check_rename_swap(case):
    """DomainRenamer maps whose targets are also sources (a swap {a: b, b: a}, a chain {a: b, b: c}): every statement, late-bound
    clock AND memory port moves exactly once -- what was in `a` is clocked by the new `b` only, what was in `b` by the new
    target of `b` only."""
    from amaranth.hdl import Signal, Module, ClockDomain, DomainRenamer
    from amaranth.lib.memory import Memory
    name = f"rename-swap({case})"
    x, y, d = Signal(3, name="x", init=1), Signal(3, name="y", init=2), Signal(3, name="d")
    mem = Memory(shape=3, depth=2, init=[4, 5])
    wp = mem.write_port(domain="a")
    rp = mem.read_port(domain="b")
    inner = Module()
    inner.submodules.mem = mem
    inner.d.a += x.eq(x + d)
    inner.d.b += y.eq(y ^ d)
    dmap = {"swap": {"a": "b", "b": "a"}, "chain": {"a": "b", "b": "c"}}[case]
    top = Module()
    cds = {n: ClockDomain(n) for n in ("a", "b", "c")}
    for cd in cds.values():
        top.domains += cd
    top.submodules.inner = DomainRenamer(dmap)(inner)
    dsg = Design(top)
    dsg.register(wp.addr, wp.data, wp.en, rp.addr, rp.en)
    new_of_a, new_of_b = dmap["a"], dmap["b"]

    def body(path):
        dsg.fresh(path, "m")
        for cd in cds.values():
            dsg.set(cd.clk, 0)
            dsg.set(cd.rst, 0)
        dsg.apply([], path, f"{name}::pre")
        for dom in ("a", "b", "c"):
            old = {"x": dsg.val(x), "y": dsg.val(y), "rd": dsg.val(rp.data)}
            rows = list(dsg.mem(0).data)
            dv = dsg.val(d)
            wa, wd, we, ra, re_ = (dsg.val(s_) for s_ in (wp.addr, wp.data, wp.en, rp.addr, rp.en))
            dsg.apply([(cds[dom].clk, 1)], path, f"{name}::{dom}-edge")
            exp_x = ite(dom == new_of_a, (old["x"] + dv) & 7, old["x"]) if dom == new_of_a else old["x"]
            exp_y = (old["y"] ^ dv) & 7 if dom == new_of_b else old["y"]
            path.prove(f"{name}::edge-of-{dom}::x", to_sint(dsg.val(x)) == to_sint(exp_x))
            path.prove(f"{name}::edge-of-{dom}::y", to_sint(dsg.val(y)) == to_sint(exp_y))
            for i in range(2):
                want = ite(And(we != 0, wa == i), wd, rows[i]) if dom == new_of_a else rows[i]
                path.prove(f"{name}::edge-of-{dom}::row{i}", to_sint(dsg.mem(0).data[i]) == to_sint(want))
            if dom == new_of_b:
                want_rd = ite(re_ != 0, ite(ra == 0, rows[0], rows[1]), old["rd"])
            else:
                want_rd = old["rd"]
            path.prove(f"{name}::edge-of-{dom}::read-register", to_sint(dsg.val(rp.data)) == to_sint(want_rd))
            dsg.apply([(cds[dom].clk, 0)], path, f"{name}::{dom}-fall")
    return runner.from_exploration(name, Exploration(name, body).run())


def check_late_bound():
    """ClockSignal(d) / ResetSignal(d) written in a fragment mean THAT fragment's domain d -- also when a subfragment defines a
    domain of the same name of its own (which shadows the outer one below it only), wherever the submodule is added
    relative to the statements, and for several levels.  Closed obligations on the prepared design."""
    from amaranth.hdl import Module, Signal, ClockDomain, ClockSignal, ResetSignal, Fragment
    obs = []
    for order in ("sub-first", "sub-last", "two-subs"):
        for depth in (1, 2):
            top = Module()
            top.domains += ClockDomain("sync")
            o, r, q = Signal(name="o"), Signal(name="r"), Signal(2, name="q")

            def mk_child(level):
                c = Module()
                c.domains += ClockDomain("sync")          # its own domain, same name
                cr, co = Signal(2, name=f"cr{level}"), Signal(name=f"co{level}")
                c.d.sync += cr.eq(cr + 1)
                c.d.comb += co.eq(ClockSignal("sync"))
                if level < depth:
                    c.submodules.inner = mk_child(level + 1)
                return c
            plain = Module()
            pr = Signal(2, name="pr")
            plain.d.sync += pr.eq(pr + 1)
            if order in ("sub-first", "two-subs"):
                top.submodules.child = mk_child(1)
            if order == "two-subs":
                top.submodules.plain = plain
            top.d.comb += [o.eq(ClockSignal("sync")), r.eq(ResetSignal("sync"))]
            top.d.sync += q.eq(q + ResetSignal("sync"))
            if order == "sub-last":
                top.submodules.plain = plain
                top.submodules.child = mk_child(1)
            design = Fragment.get(top, None).prepare()
            fr = design.fragment
            cd = fr.domains["sync"]
            st = fr.statements["comb"]
            ok_top = st[0].rhs is cd.clk and st[1].rhs is cd.rst
            rs = [s_ for s_ in fr.statements["sync"][0]._rhs_signals()]
            ok_top = ok_top and any(s_ is cd.rst for s_ in rs)
            # every shadowing child resolves to its own domain, which is not the outer one
            ok_child = True
            sub = dict((n, f) for f, n, _s in fr.subfragments)["child"]
            outer = cd
            while True:
                ccd = sub.domains["sync"]
                cst = sub.statements["comb"][0]
                ok_child = ok_child and ccd is not outer and cst.rhs is ccd.clk
                inner = dict((n, f) for f, n, _s in sub.subfragments).get("inner")
                if inner is None:
                    break
                outer, sub = ccd, inner
            if "plain" in dict((n, f) for f, n, _s in fr.subfragments):
                pf = dict((n, f) for f, n, _s in fr.subfragments)["plain"]
                ok_child = ok_child and pf.domains["sync"] is cd
            nm = f"late-bound[{order},depth={depth}]"
            fi = {"design": f"top defines 'sync'; a submodule defines its own 'sync' ({order}, {depth} level(s)); top uses ClockSignal('sync') / ResetSignal('sync')",
                  "top statements": [repr(x) for x in st], "top domain clk": repr(cd.clk)}
            obs.append({"name": f"{nm}::outer-fragment-resolves-in-its-own-domain", "kind": "post", "status": "proved" if ok_top else "refuted",
                        "backend": "closed", "time_s": 0.0, **({} if ok_top else {"failing_input": fi})})
            obs.append({"name": f"{nm}::shadowing-and-plain-subfragments", "kind": "post", "status": "proved" if ok_child else "refuted",
                        "backend": "closed", "time_s": 0.0, **({} if ok_child else {"failing_input": fi})})
    return {"task": "late-bound", "paths": 0, "solver_s": 0.0, "obligations": obs}


def run_task(task):
    k = task[0]
    if k == "ff":
        return check_ff(task[1], task[2])
    if k == "ff-two-domains":
        return check_two_domains()
    if k == "inserter":
        return check_inserter(task[1])
    if k == "late-bound":
        return check_late_bound()
    if k == "rename-merge":
        return check_rename_merge(task[1])
    if k == "dict-inserter":
        return check_dict_inserter(task[1])
    if k == "rename-swap":
        return check_rename_swap(task[1])
    if k == "dict-enable-memory":
        return check_dict_enable_memory(task[1])
    if k == "memory-two-domains":
        from . import c11
        cfg = c11.configs("thorough")[task[1]]
        assert len({d for d, _ in cfg[3]} | {d for d, _ in cfg[4] if d != "comb"}) >= 2
        return c11.check_config(cfg, f"memory-two-domains[{task[1]}]")
    if k == "canary-ff":
        return check_ff("pos", "sync", break_spec=True)
    if k == "canary-enable":
        return check_inserter("enable", break_law=True)
    raise KeyError(k)


# ------------------------------------------------------------------------------------------------
# replay on the real simulator

def replay_ff_async_resetless():
    """Concrete witness for the reset-less-signal-in-async-domain clause on the real Simulator."""
    from amaranth.hdl import Signal, Module, ClockDomain
    from amaranth.sim import Simulator
    m = Module()
    cd = ClockDomain("sync", async_reset=True)
    m.domains += cd
    rl = Signal(4, init=9, reset_less=True)
    m.d.sync += rl.eq(rl + 1)
    sim = Simulator(m)
    seen = {}

    async def tb(ctx):
        seen["before"] = ctx.get(rl)
        ctx.set(cd.rst, 1)              # reset rises, the clock does not move
        seen["after"] = ctx.get(rl)
    sim.add_testbench(tb)
    sim.run()
    if seen["before"] != seen["after"]:
        return {"design": "reset-less 4-bit counter in an async-reset domain", "event": "rst rises, no clock edge",
                "before": seen["before"], "after": seen["after"], "expected": seen["before"],
                "how": "real Simulator testbench: ctx.get(rl); ctx.set(rst, 1); ctx.get(rl)"}
    return None


def find_failing_input(res, ob):
    if "rst-rise" in ob["name"] and "::rl" in ob["name"]:
        w = replay_ff_async_resetless()
        if w:
            return w
    if ob.get("model") is None:
        return None
    return {"model": ob["model"], "how": "exact counter-model of the generated process code (register values and inputs "
            "before the event; variables s<slot>_<name>); obligation " + ob["name"]}


def replay(data):
    if data.get("failing_input", {}).get("design", "").startswith("reset-less"):
        return replay_ff_async_resetless() is not None
    for t in tasks("quick"):
        r = run_task(t)
        if any(o["name"] == data["obligation"] and o["status"] == "refuted" for o in r["obligations"]):
            return True
    return False
