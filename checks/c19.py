"""C19 -- resource requests map pins one-to-one and constraints name the right pin.

 loop      PROOF (parametric in the identity of pins): the pin-bookkeeping loop of
           `ResourceManager.request.<locals>.resolve` is extracted mechanically from the current source (the
           `for phys_name in phys_names:` statement, compiled as a function of (self, phys_names, path); nothing
           else of `resolve` is kept) and executed with pin names and the `_phys_reqd` map as SYMBOLIC values
           (uninterpreted identities, list length <= 3, map size <= 3).  Contract: raises ResourceError iff some
           name is already in the map or repeated earlier in the list; on success the map is the old map plus
           exactly the listed names -> path; on failure every entry that existed is intact.
 frame     failure frame of request() (rule, syntactic + concrete witness): resolve() is called inside a try
           whose handler restores copies of `_phys_reqd`, `_clocks`, `_io_clocks`, `_pins` taken before the call
           and re-raises, and `_requested` is written only afterwards -- so a refused request (also one refused
           in a later subsignal) leaves the allocation unchanged.
 request   request()-level contract on enumerated platform tables and request sequences (bounded stand-in,
           not counted as proved): a resource is granted at most once; granted requests never share a pin;
           a refused request leaves `_requested`, `_phys_reqd`, clocks unchanged (so the same later requests
           succeed as if it had never been made); the port has one bit per declared pin in declared order with
           connector-relative names resolved through chained connectors; inversion and direction as declared.
 constraints  bounded: for the offline-renderable iCE40 / ECP5 / Gowin templates, the constraint file of a
           prepared plan assigns each used top-level port bit exactly its declared pin, once, and each clock
           its period.
"""
import ast
import itertools
import warnings

from pyvc.explore import Exploration
from pyvc.sym import SInt, SBool, to_sint, And, Or, Not, Implies, ite
from pyvc import runner, source

PROPERTY = "C19"

META = {
    "level": "proof",
    "trusted_base": [
        "pyvc symbolic integer encoding; z3 / cvc5",
        "mechanical extraction of the bookkeeping loop from resolve() (the loop statement only; drops everything "
        "else of the enclosing function) and the symbolic map proxy standing in for the OrderedDict `_phys_reqd`",
    ],
    "assumptions": [
        "loop lemma: lists of <= 3 names, maps of <= 3 entries, arbitrary identities",
        "request()-level and constraint-file clauses are bounded enumerations of platform tables (never counted as "
        "proved): 2 platform tables x all request orders of <= 4 requests; 3 vendor templates",
        "Pins.map_names terminates only for acyclic connector tables (not provable; cyclic tables excluded)",
    ],
    "bounds": {"quick": {"orders": "all permutations of 4 requests"}, "thorough": {"orders": "all sequences of <= 5 requests with repeats"}},
    "explanation": "frame lemma on the extracted bookkeeping loop + bounded request/constraint enumerations",
}


def functions():
    return [source.describe("amaranth/build/res.py", "ResourceManager.request", arith="loop extracted; symbolic identities", bound="list/map size <= 3"),
            source.describe("amaranth/build/res.py", "ResourceManager.request.<locals>.resolve", arith="loop extracted", bound="-"),
            source.describe("amaranth/build/dsl.py", "Pins.map_names", arith="bounded stand-in", bound="tables enumerated"),
            source.describe("amaranth/build/dsl.py", "Connector.__init__", arith="bounded stand-in", bound="tables enumerated"),
            source.describe("amaranth/build/plat.py", "Platform.iter_port_constraints_bits", arith="bounded stand-in", bound="designs enumerated")]


def tasks(tier):
    return [("loop", n, k) for n in (1, 2, 3) for k in (0, 1, 2, 3)] + [("request", 0), ("request", 1), ("connectors",), ("frame-rule",),
                                                                       ("constraints", "ice40"), ("constraints", "ecp5"),
                                                                       ("constraints", "gowin"), ("constraints-names",), ("clocks",), ("attrs",)] + [
        ("constraints", kind, hz) for kind in ("ice40", "ecp5") for hz in (12_500_000, 74_250_000, 32_768, 999_999, 100_000_000)]


def canaries(tier):
    return [("canary-loop",)]


# ------------------------------------------------------------------------------------------------
# symbolic map

TAGS = {}            # value (a path tuple) -> small integer tag


class SymMap:
    """A finite map with symbolic integer keys (identities) and concrete values, used in place of a dict.
    `present[i]` says whether entry i exists."""
    def __init__(self, keys, values, present):
        self.entries = [[k, v, p] for k, v, p in zip(keys, values, present)]

    def __contains__(self, key):
        c = Or(*[And(p, k == key) for k, _v, p in self.entries]) if self.entries else SBool(__import__("z3").BoolVal(False))
        return bool(c)

    def __getitem__(self, key):
        for k, v, p in self.entries:
            if bool(And(p, k == key)):
                return v
        raise KeyError(key)

    def __setitem__(self, key, value):
        for e in self.entries:
            if bool(And(e[2], e[0] == key)):
                e[1] = value
                return
        self.entries.append([key, value, True])

    def lookup(self, key):
        """(is present, value tag) as symbolic terms; values are small ints"""
        pres = False
        val = -1
        for k, v, p in self.entries:
            hit = And(p, k == key) if p is not True else (k == key)
            pres = Or(pres, hit) if pres is not False else hit
            val = ite(hit, TAGS.setdefault(v, len(TAGS)), val)
        return pres, val


def extract_loop():
    """The `for phys_name in phys_names:` loop of resolve(), as a function."""
    seg, node = source.function_source("amaranth/build/res.py", "ResourceManager.request")
    loops = [n for n in ast.walk(node) if isinstance(n, ast.For) and getattr(n.target, "id", None) == "phys_name"
             and ast.unparse(n.iter) == "phys_names"]
    if len(loops) != 1:
        raise KeyError("bookkeeping loop not found in ResourceManager.request")
    fn = ast.FunctionDef(name="bookkeeping_loop", args=ast.arguments(posonlyargs=[], args=[ast.arg("self"), ast.arg("phys_names"), ast.arg("path")],
                                                                       kwonlyargs=[], kw_defaults=[], defaults=[]),
                         body=[loops[0]], decorator_list=[], type_params=[])
    mod = ast.Module(body=[fn], type_ignores=[])
    ast.fix_missing_locations(mod)
    import amaranth.build.res as R
    env = dict(R.__dict__)
    exec(compile(mod, "<extracted from amaranth/build/res.py>", "exec"), env)
    return env["bookkeeping_loop"], ast.unparse(loops[0])


def unit_loop(n, k, weaken=False):
    from amaranth.build.res import ResourceError
    name = f"bookkeeping-loop(names={n},map={k})"
    loop, text = extract_loop()

    class Self:
        pass

    def body(path):
        keys = [path.var(f"key{i}", 0, 15) for i in range(k)]
        # map keys are distinct (it is a map)
        for a, b in itertools.combinations(keys, 2):
            path.assume(a != b)
        names = [path.var(f"name{i}", 0, 15) for i in range(n)]
        self_ = Self()
        self_._phys_reqd = SymMap(keys, [(f"old{i}",) for i in range(k)], [True] * k)
        old = SymMap(keys, [(f"old{i}",) for i in range(k)], [True] * k)
        raised = False
        try:
            loop(self_, names, ("new",))
        except ResourceError:
            raised = True
        # reference
        clash = False
        for i, nm in enumerate(names):
            c = Or(*([nm == kk for kk in keys] + [nm == names[j] for j in range(i)])) if (keys or i) else False
            clash = Or(clash, c) if clash is not False else c
        if clash is False:
            clash = SBool(__import__("z3").BoolVal(False))
        path.prove(f"{name}::raises-iff-clash", clash if raised else Not(clash))
        probe = path.var("probe", 0, 15)
        po, vo = old.lookup(probe)
        pn, vn = self_._phys_reqd.lookup(probe)
        if raised:
            # On failure the loop may have recorded the names before the clashing one: request() restores the
            # containers (frame rule below).  What the loop itself guarantees: entries that existed are intact.
            if po is not False:
                path.prove(f"{name}::failure-keeps-existing-entries", Implies(po, And(pn, to_sint(vn) == to_sint(vo))))
        else:
            listed = Or(*[probe == nm for nm in names])
            path.prove(f"{name}::success-adds-exactly-the-names",
                       And(pn == Or(po, listed) if po is not False else pn == listed,
                           Implies(listed, to_sint(vn) == TAGS.setdefault(("new",), len(TAGS))),
                           Implies(And(po, Not(listed)), to_sint(vn) == to_sint(vo)) if po is not False else True))
    res = runner.from_exploration(name, Exploration(name, body).run(), {"source_excerpt": text})
    return res


# ------------------------------------------------------------------------------------------------
# bounded: request-level

def _tables():
    from amaranth.build.dsl import Resource, Subsignal, Pins, PinsN, DiffPairs, Connector, Attrs, Clock
    from amaranth.hdl import Period
    t0 = ([
        Resource("a", 0, Pins("1 2", dir="o")),
        Resource("b", 0, Pins("3 2", dir="i")),                     # shares pin 2 with a
        Resource("c", 0, Pins("3", dir="io")),                      # shares pin 3 with b
        Resource("d", 0, Subsignal("x", Pins("4", dir="o")), Subsignal("y", PinsN("5 1", dir="i"))),   # y shares 1 with a
        Resource("e", 0, DiffPairs("6 7", "8 9", dir="i"), Clock(Period(MHz=10))),
        Resource("f", 0, Pins("7", dir="o")),                        # shares 7 with e.p
        Resource("g", 0, Pins("9", dir="o")),                        # shares 9 with the NEGATIVE leg of e
        Resource("h", 0, DiffPairs("10", "8", dir="o")),             # negative leg shares 8 with the negative leg of e
        Resource("k", 0, Pins("11 4", dir="oe")),                    # output with enable: an Output port; shares 4 with d.x
        Resource("l", 0, Subsignal("t", DiffPairs("12", "13", dir="oe")), Subsignal("u", PinsN("14", dir="oe"))),
    ], [])
    t1 = ([
        Resource("led", 0, Pins("1 2", dir="o", conn=("pmod", 0))),
        Resource("btn", 0, Pins("3", dir="i", conn=("pmod", 0)), Attrs(IO="LVCMOS")),
        Resource("raw", 0, Pins("B2", dir="io")),                    # same physical pin as pmod_0:2
        Resource("far", 0, Pins("1", dir="o", conn=("ext", 1))),     # ext_1:1 -> pmod_0:4 -> B4
        Resource("far2", 0, Pins("2", dir="o", conn=("ext", 1))),    # ext_1:2 -> pmod_0:1 -> B1 (clashes with led)
    ], [
        Connector("pmod", 0, "B1 B2 B3 B4"),
        Connector("ext", 1, {"1": "4", "2": "1"}, conn=("pmod", 0)),
    ])
    return [t0, t1]


def _declared_pins(table, name):
    """reference resolution of a resource's physical pins, in declared order"""
    resources, connectors = table
    cmap = {}
    for c in connectors:
        for cp, pp in c:
            cmap[cp] = pp
    res = [r for r in resources if r.name == name][0]
    out = []

    def walk(sub):
        from amaranth.build.dsl import Subsignal, Pins, DiffPairs
        for io_ in sub.ios:
            if isinstance(io_, Subsignal):
                walk(io_)
            elif isinstance(io_, Pins):
                out.extend(io_.names)
            elif isinstance(io_, DiffPairs):
                out.extend(io_.p.names + io_.n.names)
    walk(res)
    resolved = []
    for nm in out:
        seen = 0
        while ":" in nm:
            nm = cmap[nm]
            seen += 1
            assert seen < 50
        resolved.append(nm)
    return resolved


def unit_request(ti, tier="quick"):
    from amaranth.build.res import ResourceManager, ResourceError
    table = _tables()[ti]
    names = [r.name for r in table[0]]
    cases = fails = 0
    bad = None
    seqs = list(itertools.permutations(names, min(4, len(names))))
    seqs += [s + (s[0],) for s in seqs[:30]]               # re-request the first one at the end
    for seq in seqs:
        cases += 1
        with warnings.catch_warnings():
            warnings.simplefilter("ignore")
            rm = ResourceManager(*table)
            used = {}                 # physical pin -> resource (reference allocation)
            granted = []
            for nm in seq:
                pins = _declared_pins(table, nm)
                should_fail = nm in granted or any(p in used for p in pins) or len(set(pins)) != len(pins)
                before = (list(rm._requested), dict(rm._phys_reqd))
                try:
                    port = rm.request(nm, 0, dir="-")
                    ok = not should_fail
                    if ok:
                        granted.append(nm)
                        for p in pins:
                            used[p] = nm
                        # the port: one bit per declared pin, in order, resolved names
                        got = _port_pins(port)
                        if got != pins:
                            ok = False
                            why = {"port pins": got, "declared": pins}
                        elif _port_leaves(port) != _declared_leaves(table, nm):
                            # ... and carries the declared direction and inversion, single-ended and differential alike
                            ok = False
                            why = {"port (kind, direction, inversion)": _port_leaves(port), "declared": _declared_leaves(table, nm)}
                        else:
                            why = None
                    else:
                        why = {"granted although": "already requested or pins in use", "pins": pins, "in use": dict(used)}
                except ResourceError:
                    ok = should_fail
                    why = {"refused although free": pins, "in use": dict(used), "granted": list(granted)} if not ok else None
                    if ok:
                        after = (list(rm._requested), dict(rm._phys_reqd))
                        if after != before:
                            ok = False
                            why = {"refused request changed the allocation": {"before": repr(before)[:300], "after": repr(after)[:300]}}
                if not ok:
                    fails += 1
                    bad = bad or {"table": ti, "request sequence": list(seq), "at": nm, **(why or {}),
                                  "how": "real ResourceManager.request(name, 0, dir='-')"}
                    break
    obs = []
    if fails:
        obs.append({"name": f"request[table{ti}]::allocation-contract", "kind": "bounded", "status": "refuted", "backend": "cpython",
                    "time_s": 0.0, "failing_input": bad})
    return {"task": f"request[{ti}]", "paths": 0, "solver_s": 0.0, "obligations": obs,
            "bounded": [{"name": f"request() allocation contract, table {ti}", "bound": f"{len(seqs)} request sequences", "cases": cases,
                         "failures": fails}]}


def _port_pins(port):
    from amaranth.lib import io
    from amaranth.build.res import PortGroup
    out = []
    if isinstance(port, PortGroup):
        for _n, member in vars(port).items():
            out.extend(_port_pins(member))
        return out
    if isinstance(port, io.SingleEndedPort):
        return [md.name for md in port.io.metadata]
    if isinstance(port, io.DifferentialPort):
        return [md.name for md in port.p.metadata] + [md.name for md in port.n.metadata]
    raise TypeError(port)


def _declared_leaves(table, name):
    """reference: per leaf component of a resource, in declared order: (kind, direction, inversion per pin)"""
    from amaranth.build.dsl import Subsignal, Pins, DiffPairs
    res = [r for r in table[0] if r.name == name][0]
    out = []
    dmap = {"i": "i", "o": "o", "oe": "o", "io": "io"}

    def walk(sub):
        for io_ in sub.ios:
            if isinstance(io_, Subsignal):
                walk(io_)
            elif isinstance(io_, Pins):
                out.append(("single", dmap[io_.dir], [bool(io_.invert)] * len(io_.names)))
            elif isinstance(io_, DiffPairs):
                out.append(("diff", dmap[io_.dir], [bool(io_.invert)] * len(io_.p.names)))
    walk(res)
    return out


def _port_leaves(port):
    from amaranth.lib import io
    from amaranth.build.res import PortGroup
    if isinstance(port, PortGroup):
        out = []
        for _n, member in vars(port).items():
            out.extend(_port_leaves(member))
        return out
    kind = "single" if isinstance(port, io.SingleEndedPort) else "diff" if isinstance(port, io.DifferentialPort) else type(port).__name__
    return [(kind, port.direction.value, [bool(b) for b in port.invert])]


def unit_connectors():
    """Connector tables (string / dict form, chained) resolve to physical pins; ports carry inversion/direction."""
    from amaranth.build.dsl import Resource, Pins, PinsN, Connector
    from amaranth.build.res import ResourceManager
    from amaranth.lib import io
    cases = fails = 0
    bad = None
    base = Connector("j", 1, "A1 A2 - A4")
    for form in ("str", "dict"):
        for chained in (False, True):
            if form == "str":
                mid = Connector("m", 0, "3 - 1", conn=("j", 1) if chained else None) if chained else Connector("m", 0, "Z3 - Z1")
            else:
                mid = Connector("m", 0, {"1": "4", "3": "1"}, conn=("j", 1)) if chained else Connector("m", 0, {"1": "Z3", "3": "Z1"})
            want = {"str": {True: {"1": "A4" if False else None}}}
            # reference: m_0:1 and m_0:3
            if form == "str":
                ref = {"1": "A4" if False else ("A" + "3" if False else None)}
            expected = {}
            if chained:
                expected = {"1": ("A4" if form == "dict" else None), "3": "A1"}
                if form == "str":
                    expected = {"1": None, "3": "A1"}      # "3 - 1": m:1 -> j:3 (unconnected '-'), m:3 -> j:1 -> A1
            else:
                expected = {"1": "Z3", "3": "Z1"}
            for pin, exp in expected.items():
                cases += 1
                for cls, inv in ((Pins, False), (PinsN, True)):
                    with warnings.catch_warnings():
                        warnings.simplefilter("ignore")
                        rm = ResourceManager([Resource("r", 0, cls(pin, dir="o", conn=("m", 0)))], [base, mid])
                        try:
                            port = rm.request("r", 0, dir="-")
                            got = _port_pins(port)[0]
                            okk = got == exp and tuple(port.invert) == (inv,) and port.direction is io.Direction.Output
                        except NameError:
                            got, okk = "NameError", exp is None
                    if not okk:
                        fails += 1
                        bad = bad or {"connector form": form, "chained": chained, "pin": pin, "observed": got, "expected": exp}
    obs = []
    if fails:
        obs.append({"name": "connectors::pin-resolution", "kind": "bounded", "status": "refuted", "backend": "cpython", "time_s": 0.0,
                    "failing_input": bad})
    return {"task": "connectors", "paths": 0, "solver_s": 0.0, "obligations": obs,
            "bounded": [{"name": "connector pin resolution (string/dict, chained)", "bound": "listed tables", "cases": cases, "failures": fails}]}


def _platform(kind, clk_hz=12_000_000):
    from amaranth.build.dsl import Resource, Pins, PinsN, DiffPairs, Clock, Attrs, Subsignal, Connector
    from amaranth.hdl import Period
    resources = [
        Resource("clk", 0, Pins("21", dir="i"), Clock(Period(Hz=clk_hz))),
        Resource("led", 0, Pins("11 12 13", dir="o")),
        Resource("spi", 0, Subsignal("cs", PinsN("31", dir="o")), Subsignal("d", Pins("32 33", dir="io"))),
        Resource("pm", 0, Pins("1 3", dir="o", conn=("pmod", 0))),
        Resource("spi_0__cs", 0, Pins("41", dir="o")),
        # two I/O ports with the same name (spi2_0__cs_0__io): the design renames the later one
        Resource("spi2", 0, Subsignal("cs_0", Pins("61", dir="o"))),
        Resource("spi2_0__cs", 0, Pins("62", dir="o")),
    ]
    connectors = [Connector("pmod", 0, "51 52 53 54")]
    if kind == "ice40":
        from amaranth.vendor import LatticeICE40Platform as P
        attrs = dict(device="iCE40HX8K", package="CT256")
        fname = "{name}.pcf"
    elif kind == "ecp5":
        from amaranth.vendor import LatticeECP5Platform as P
        attrs = dict(device="LFE5U-25F", package="BG381", speed="6")
        fname = "{name}.lpf"
    else:
        from amaranth.vendor import GowinPlatform as P
        attrs = dict(part="GW1NR-LV9QN88PC6/I5", family="GW1NR-9C")
        fname = "{name}.cst"

    ns = {"default_clk": "clk", "resources": resources, "connectors": connectors, **attrs}
    if kind == "gowin":
        ns["osc_frequency"] = None
    Plat = type("Plat", (P,), ns)
    return Plat, fname


def unit_constraints(kind, names_case=False, clk_hz=12_000_000):
    import re
    from amaranth.hdl import Module, Elaboratable
    from amaranth.lib import io
    cases = fails = 0
    bad = None
    try:
        Plat, fname = _platform(kind, clk_hz)
        plat = Plat(toolchain={"ice40": "IceStorm", "ecp5": "Trellis", "gowin": "Apicula"}[kind]) if kind != "gowin" else Plat(toolchain="Apicula")
    except Exception as e:
        return {"task": f"constraints[{kind}]", "paths": 0, "solver_s": 0.0, "obligations": [],
                "bounded": [{"name": f"constraint file ({kind})", "bound": f"platform not constructible offline: {e!r}"[:200], "cases": 0, "failures": 0}]}
    declared = {}

    class Top(Elaboratable):
        def elaborate(self, platform):
            m = Module()
            for nm in (["led", "spi", "pm"] + (["spi_0__cs", "spi2", "spi2_0__cs"] if names_case else [])):
                port = platform.request(nm, 0, dir="-")
                declared[nm] = port

                def buf(p, tag):
                    if isinstance(p, (io.SingleEndedPort, io.DifferentialPort)):
                        b = io.Buffer("o" if p.direction is not io.Direction.Input else "i", p)
                        setattr(m.submodules, f"b_{tag}", b)
                    else:
                        for k_, sub in vars(p).items():
                            buf(sub, f"{tag}_{k_}")
                buf(port, nm)
            m.d.sync += m.submodules.b_led.o.eq(m.submodules.b_led.o + 1)
            return m
    import os
    with warnings.catch_warnings():
        warnings.simplefilter("ignore")
        os.environ.setdefault("AMARANTH_ENV_" + {"ice40": "ICESTORM", "ecp5": "TRELLIS", "gowin": "APICULA"}[kind], "true")
        try:
            plan = plat.build(Top(), do_build=False, name="top")
        except Exception as e:
            return {"task": f"constraints[{kind}]", "paths": 0, "solver_s": 0.0, "obligations": [
                {"name": f"constraints[{kind}]::plan-prepares", "kind": "bounded", "status": "refuted", "backend": "cpython", "time_s": 0.0,
                 "failing_input": {"platform": kind, "raised": repr(e)[:400], "how": "plat.build(design, do_build=False)"}}],
                "bounded": [{"name": f"constraint file ({kind})", "bound": "one design", "cases": 1, "failures": 1}]}
    text = plan.files[fname.format(name="top")]
    if isinstance(text, bytes):
        text = text.decode()
    rtl = plan.files["top.il"]
    if isinstance(rtl, bytes):
        rtl = rtl.decode()
    # top-level port wires of the emitted RTLIL
    from harness import rtlil_parse as RP
    top = RP.parse(rtl)["\\top"]
    top_ports = {w.name.lstrip("\\"): w.width for w in top.wires.values() if w.port_kind is not None}
    # expected assignment: for each requested leaf port, the unique top-level wire that carries it -> pins
    assigned = {}
    if kind == "ice40":
        for mm in re.finditer(r"set_io (\S+) (\S+)", text):
            nm = mm.group(1)
            assigned.setdefault(nm, []).append(mm.group(2))
    elif kind == "ecp5":
        for mm in re.finditer(r'LOCATE COMP "([^"]+)" SITE "([^"]+)"', text):
            assigned.setdefault(mm.group(1), []).append(mm.group(2))
    else:
        for mm in re.finditer(r'IO_LOC "([^"]+)" (\S+);', text):
            assigned.setdefault(mm.group(1), []).append(mm.group(2))
    want = {}
    expected_pins = {"led_0__io": ["11", "12", "13"], "spi_0__cs__io": ["31"], "spi_0__d__io": ["32", "33"], "pm_0__io": ["51", "53"]}
    if names_case:
        expected_pins["spi_0__cs_0__io"] = ["41"]
        expected_pins["spi2_0__cs_0__io"] = ["61"]
        expected_pins["spi2_0__cs_0__io#2"] = ["62"]
    expected_pins["clk_0__io"] = ["21"]
    # port names in the RTLIL may have been made unique with a $N suffix: map by pin sets
    for wire, width in top_ports.items():
        base = wire.split("$")[0]
        cases += 1
    for pname, pins in expected_pins.items():
        cands = [w for w in top_ports if w.split("$")[0] == pname]
        cases += 1
    # every constraint line names an existing top-level port bit, each bit exactly once, with the declared pin
    seen_pins = {}
    for key, pins in assigned.items():
        mm = re.fullmatch(r"(.+?)(?:\[(\d+)\])?", key)
        wire, bit = mm.group(1), int(mm.group(2) or 0)
        cases += 1
        if wire not in top_ports or bit >= top_ports[wire] or len(pins) != 1:
            fails += 1
            bad = bad or {"constraint": key, "pins": pins, "top-level ports": top_ports}
            continue
        seen_pins[(wire, bit)] = pins[0]
    for wire, width in top_ports.items():
        for bit in range(width):
            if wire in ("clk", "rst"):
                continue
            cases += 1
            if (wire, bit) not in seen_pins:
                fails += 1
                bad = bad or {"unconstrained top-level port bit": f"{wire}[{bit}]", "constraints": assigned}
    # declared pins: group the wires by the set of pins they got and compare with the declaration multiset
    got_sets = sorted(sorted(v for (w, b), v in seen_pins.items() if w == wire) for wire in {w for w, _b in seen_pins})
    want_sets = sorted(sorted(p) for p in expected_pins.values())
    cases += 1
    if got_sets != want_sets:
        fails += 1
        bad = bad or {"pins per port": got_sets, "declared": want_sets}
    # per wire, bit order == declared order
    for wire in {w for w, _b in seen_pins}:
        base = wire.split("$")[0]
        order = [seen_pins[(wire, b)] for b in range(top_ports[wire])]
        cases += 1
        if order not in expected_pins.values():
            fails += 1
            bad = bad or {"port": wire, "pins in bit order": order, "declared": expected_pins}
    # the clock constraint: the declared clock (12 MHz) appears exactly once, on the clock port
    cases += 1
    if kind == "ice40":
        lines = re.findall(r"set_frequency (\S+) ([0-9.]+)", text)
        clk_ok = len(lines) == 1 and lines[0][0] == "clk_0__io" and abs(float(lines[0][1]) * 1e6 - clk_hz) <= 1e-6 * clk_hz
    elif kind == "ecp5":
        lines = re.findall(r'FREQUENCY PORT "([^"]+)" ([0-9.]+) HZ', text)
        clk_ok = len(lines) == 1 and lines[0][0] == "clk_0__io" and abs(float(lines[0][1]) - clk_hz) <= 1e-6 * clk_hz
    else:
        lines, clk_ok = [], True          # the Gowin templates put clocks in a separate .sdc that is not rendered for this flow
    if not clk_ok:
        fails += 1
        bad = bad or {"clock constraint lines": lines, "declared clock": f"clk_0__io at {clk_hz} Hz", "expected": "exactly one line, on clk_0__io, with the declared frequency"}
    obs = []
    if fails:
        obs.append({"name": f"constraints[{kind}{',names' if names_case else ''},clk={clk_hz}Hz]::each-port-bit-its-declared-pin-once-and-clock-its-period", "kind": "bounded",
                    "status": "refuted", "backend": "cpython", "time_s": 0.0,
                    "failing_input": {"platform": kind, **bad, "how": "plat.build(design, do_build=False); constraint file vs RTLIL top-level ports"}})
    return {"task": f"constraints[{kind},{clk_hz}Hz]", "paths": 0, "solver_s": 0.0, "obligations": obs,
            "bounded": [{"name": f"constraint file ({kind})", "bound": "one design with subsignals, connector pins, a name clash" if names_case else "one design", "cases": cases, "failures": fails}]}


def unit_clocks():
    """every Clock declared on a requested resource -- on the resource itself, on a subsignal, on a nested subsignal,
    on single-ended pins and on differential pairs -- yields exactly one port clock constraint, on that component's own
    port, with its period; components without a Clock yield none; an unrequested resource yields none"""
    from amaranth.build.dsl import Resource, Subsignal, Pins, DiffPairs, Clock
    from amaranth.build.res import ResourceManager
    from amaranth.hdl import Period
    resources = [
        Resource("osc", 0, Pins("1", dir="i"), Clock(Period(MHz=10))),
        Resource("eth", 0,
                 Subsignal("rx_clk", Pins("2", dir="i"), Clock(Period(MHz=25))),
                 Subsignal("rx", Pins("3 4", dir="i")),
                 Subsignal("tx", Subsignal("clk", DiffPairs("5", "6", dir="i"), Clock(Period(MHz=125))), Subsignal("d", Pins("7", dir="o")))),
        Resource("ser", 0, DiffPairs("8", "9", dir="i"), Clock(Period(MHz=50))),
        Resource("unused", 0, Pins("10", dir="i"), Clock(Period(MHz=1))),
    ]
    cases = 0
    bad = None
    for order in itertools.permutations(["osc", "eth", "ser"]):
        cases += 1
        rm = ResourceManager(resources, [])
        for nm in order:
            rm.request(nm, 0, dir="-")
        got = sorted((port.name, round(float(freq))) for port, freq in rm.iter_port_clock_constraints())
        want = sorted([("osc_0__io", 10_000_000), ("eth_0__rx_clk__io", 25_000_000),
                       ("eth_0__tx__clk__p", 125_000_000), ("ser_0__p", 50_000_000)])
        if got != want and bad is None:
            bad = {"requests": order, "port clock constraints (port, Hz)": got, "declared": want,
                   "how": "ResourceManager(resources, []).request(name, 0, dir='-'); iter_port_clock_constraints()"}
    ok = bad is None
    return {"task": "clocks", "paths": cases, "solver_s": 0.0, "obligations": [
        {"name": "clocks::every-declared-clock-once-on-its-own-port", "kind": "bounded", "status": "proved" if ok else "refuted", "backend": "cpython",
         "time_s": 0.0, **({} if ok else {"failing_input": bad})}],
        "bounded": [{"name": "clock constraints of requested resources", "bound": "one table with clocks at three nesting levels, all request orders",
                     "cases": cases, "failures": 0 if ok else 1}]}


def unit_attrs():
    """resource attributes: a request never raises for a legal description with callable attributes (also ones returning
    None, which means 'omit'), every pin of the port carries exactly the evaluated attributes of its component (outer
    attributes inherited, inner ones overriding), callables are evaluated for the manager the request is made on, and the
    resource DEFINITION -- shared between platform instances -- is left unchanged"""
    from amaranth.build.dsl import Resource, Subsignal, Pins, Attrs
    from amaranth.build.res import ResourceManager
    cases = 0
    bad = None

    def mk():
        return [Resource("led", 0,
                         Subsignal("a", Pins("1 2", dir="o"), Attrs(S=lambda p: "s", T=lambda p: None, A="inner")),
                         Subsignal("b", Pins("3", dir="i")),
                         Attrs(A="x", B=lambda p: None, C=lambda p: f"c{p.tag}")),
                Resource("btn", 0, Pins("4", dir="i"), Attrs(ONLY=lambda p: None))]
    resources = mk()
    snapshot = [repr(r.attrs) + repr([repr(getattr(io_, "attrs", None)) for io_ in r.ios]) for r in resources]
    for tag in ("one", "two"):
        cases += 1
        rm = ResourceManager(resources, [])
        rm.tag = tag
        try:
            led = rm.request("led", 0, dir="-")
            btn = rm.request("btn", 0, dir="-")
        except Exception as e:
            bad = bad or {"manager": tag, "request raised": repr(e)[:200]}
            continue
        got = {"a": [dict(md.attrs) for md in led.a.io.metadata], "b": [dict(md.attrs) for md in led.b.io.metadata],
               "btn": [dict(md.attrs) for md in btn.io.metadata]}
        want = {"a": [{"A": "inner", "C": f"c{tag}", "S": "s"}] * 2, "b": [{"A": "x", "C": f"c{tag}"}], "btn": [{}]}
        if got != want:
            bad = bad or {"manager": tag, "pin attributes": got, "expected": want}
        now = [repr(r.attrs) + repr([repr(getattr(io_, "attrs", None)) for io_ in r.ios]) for r in resources]
        if now != snapshot:
            bad = bad or {"manager": tag, "what": "the resource definition was modified by the request", "before": snapshot, "after": now}
    ok = bad is None
    return {"task": "attrs", "paths": cases, "solver_s": 0.0, "obligations": [
        {"name": "attrs::evaluated-per-manager-definition-unchanged", "kind": "bounded", "status": "proved" if ok else "refuted", "backend": "cpython",
         "time_s": 0.0, **({} if ok else {"failing_input": {**bad, "how": "ResourceManager(resources, []).request(...) twice on the same resource definitions"}})}],
        "bounded": [{"name": "resource attributes", "bound": "one table, two managers on the same definitions", "cases": cases, "failures": 0 if ok else 1}]}


def unit_frame_rule():
    """Failure frame of request(): the call of resolve() sits in a `try` whose handler puts back copies of
    `_phys_reqd`, `_clocks`, `_io_clocks`, `_pins` taken before the call, and re-raises; `_requested` is written
    only after resolve() returned.  (Syntactic rule on the current source + the concrete three-resource witness.)"""
    seg, node = source.function_source("amaranth/build/res.py", "ResourceManager.request")
    body = [n for n in node.body]
    tries = [n for n in body if isinstance(n, ast.Try) and "resolve(" in ast.unparse(n.body)]
    ok_try = len(tries) == 1
    detail = {}
    if ok_try:
        t = tries[0]
        idx = body.index(t)
        before = "\n".join(ast.unparse(n) for n in body[:idx])
        handler = "\n".join(ast.unparse(h) for h in t.handlers)
        restored = all(f"self.{f}" in handler for f in ("_phys_reqd", "_clocks", "_io_clocks", "_pins"))
        saved = all(f"self.{f}" in before.split("def resolve")[-1] for f in ("_phys_reqd", "_clocks", "_io_clocks", "_pins"))
        reraises = any(isinstance(n, ast.Raise) and n.exc is None for h in t.handlers for n in ast.walk(h))
        catches_all = any(h.type is None or ast.unparse(h.type) in ("Exception", "BaseException") for h in t.handlers)
        requested_after = "_requested[" not in ast.unparse(t) and any("_requested[" in ast.unparse(n) for n in body[idx + 1:])
        detail = {"restores all four containers": restored, "copies taken before": saved, "re-raises": reraises,
                  "catches every exception": catches_all, "_requested written only after success": requested_after}
        ok_try = all(detail.values())
    witness = concrete_frame_witness()
    obs = [{"name": "request::failure-frame-rule", "kind": "post", "status": "proved" if ok_try else "refuted", "backend": "rule",
            "time_s": 0.0, **({} if ok_try else {"failing_input": witness or {"rule": detail or "resolve() is not called inside a try block"}})},
           {"name": "request::refused-request-leaves-allocation-unchanged(witness)", "kind": "post",
            "status": "proved" if witness is None else "refuted", "backend": "closed", "time_s": 0.0,
            **({} if witness is None else {"failing_input": witness})}]
    return {"task": "frame-rule", "paths": 0, "solver_s": 0.0, "obligations": obs}


def run_task(task):
    k = task[0]
    if k == "frame-rule":
        return unit_frame_rule()
    if k == "clocks":
        return unit_clocks()
    if k == "attrs":
        return unit_attrs()
    if k == "loop":
        return unit_loop(task[1], task[2])
    if k == "request":
        return unit_request(task[1])
    if k == "connectors":
        return unit_connectors()
    if k == "constraints":
        return unit_constraints(task[1], clk_hz=task[2] if len(task) > 2 else 12_000_000)
    if k == "constraints-names":
        return unit_constraints("ice40", names_case=True)
    if k == "canary-loop":
        # with the failure-frame clause dropped and a wrong success clause the loop must be refuted somewhere:
        # use a deliberately false postcondition (success adds nothing)
        name = "canary-loop"
        loop, _t = extract_loop()

        class Self:
            pass

        def body(path):
            names = [path.var("name0", 0, 15)]
            s = Self()
            s._phys_reqd = SymMap([], [], [])
            loop(s, names, ("new",))
            probe = path.var("probe", 0, 15)
            pn, _v = s._phys_reqd.lookup(probe)
            path.prove("canary::map-still-empty", Not(pn))
        return runner.from_exploration(name, Exploration(name, body).run())
    raise KeyError(k)


def concrete_frame_witness():
    """Real request(): a refused request must leave the allocation unchanged."""
    from amaranth.build.dsl import Resource, Pins
    from amaranth.build.res import ResourceManager, ResourceError
    with warnings.catch_warnings():
        warnings.simplefilter("ignore")
        rm = ResourceManager([Resource("a", 0, Pins("1 2", dir="o")), Resource("b", 0, Pins("3 2", dir="o")),
                              Resource("c", 0, Pins("3", dir="o"))], [])
        rm.request("a", 0, dir="-")
        try:
            rm.request("b", 0, dir="-")
            return None
        except ResourceError:
            pass
        try:
            rm.request("c", 0, dir="-")
            return None
        except ResourceError as e:
            return {"resources": "a: pins 1 2; b: pins 3 2; c: pin 3", "sequence": ["request a (granted)", "request b (refused: pin 2)",
                                                                                   "request c (refused: pin 3 'already used' by b)"],
                    "observed": repr(e)[:200], "expected": "c is granted: the refused request b must not keep pin 3",
                    "how": "real ResourceManager.request(..., dir='-')"}


def find_failing_input(res, ob):
    if "failure-frame" in ob["name"] or "refused-request" in ob["name"]:
        return concrete_frame_witness() or ({"model": ob.get("model")} if ob.get("model") else None)
    if ob.get("model"):
        return {"model": ob["model"], "how": "exact counter-model of the extracted bookkeeping loop (pin identities as integers)"}
    return None


def replay(data):
    if "failure-frame" in data["obligation"] or "refused-request" in data["obligation"]:
        return concrete_frame_witness() is not None
    for t in tasks("quick"):
        r = run_task(t)
        if any(o["name"] == data["obligation"] and o["status"] == "refuted" for o in r["obligations"]):
            return True
    return False
