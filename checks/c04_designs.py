"""Whole-design one-step equivalence (used by C04): for a given component, from EVERY common state and for EVERY input,

   S  the simulator's generated process code (composed by harness/kernel.py),
   N  the netlist of the real `build_netlist` under the cell semantics of spec/nir_eval.py,
   R  the RTLIL text of the real `rtlil.convert_fragment`, parsed and evaluated under spec/rtlil_eval.py,

show the same value on every signal of the design now (combinational agreement) and after each clock event (agreement
of the transition functions, registers, memory rows and synchronous read registers included).  All three start from ONE
prepared `Design` object, so they talk about the same Signal objects; every signal of the design is exposed as a
top-level port with a unique explicit name, which is how N and R values are observed.  Agreement of the one-step
functions from every state gives, by induction on the length of the input sequence, equal traces for every input sequence.
"""
from pyvc.explore import Exploration
from pyvc.sym import to_sint, And, ite, is_sym
from pyvc import runner
from spec.sem import mask
from spec.nir_eval import NirEval
from spec.rtlil_eval import RtlilEval
from harness import rtlil_parse as RP
from harness.kernel import Design


def prepare_all_ports(elaboratable):
    """One prepared design in which every used signal is a top-level port named p<k>_<name>."""
    from amaranth.hdl import _ir, _ast
    frag = _ir.Fragment.get(elaboratable, None)
    d0 = frag.prepare()
    sigs = []
    for info in d0.fragments.values():
        for s in info.used_signals:
            if len(s) and not any(s is t for t in sigs):
                sigs.append(s)
    names = {}
    ports = []
    for k, s in enumerate(sigs):
        nm = f"p{k}_{s.name or 'anon'}".replace("$", "_").replace(".", "_")
        names[id(s)] = nm
        ports.append((nm, s, None))
    design = _ir.Design(d0.fragment, ports, hierarchy=("top",))
    return design, sigs, names


def check_design(name, elaboratable, events=None, low_resets=True, break_n=False, break_r=False):
    """`events`: list of tuples of domain names whose clocks tick together; default: each domain alone."""
    from amaranth.hdl import _nir
    from amaranth.hdl._ir import build_netlist
    from amaranth.back import rtlil
    design, sigs, pname = prepare_all_ports(elaboratable)
    d = Design(design)
    nl = build_netlist(design)
    text, _name_map = rtlil.convert_fragment(design, emit_src=False)
    mods = RP.parse(text)
    top = nl.cells[0]
    doms = dict(design.fragment.domains)
    clks = {dn: cd.clk for dn, cd in doms.items()}
    if events is None:
        events = [(dn,) for dn in doms] or [()]
    ff_idx = [i for i, c in enumerate(nl.cells) if isinstance(c, _nir.FlipFlop)]
    mem_idx = [i for i, c in enumerate(nl.cells) if isinstance(c, _nir.Memory)]
    srp_idx = [i for i, c in enumerate(nl.cells) if isinstance(c, _nir.SyncReadPort)]
    assert len(mem_idx) == len(d.mem_slots), "memory cells do not match memory slots"
    for i, ms in zip(mem_idx, d.mem_slots):
        assert (nl.cells[i].width, nl.cells[i].depth) == (ms.shape.width, ms.depth)
    trig = d._triggers()

    def sval(s):
        return to_sint(d.val(s)) & mask(len(s))

    def n_state_from_s(path, tag):
        """netlist register contents read off the simulator's signal values through netlist.signals"""
        bits = {}
        for s in sigs:
            if s not in nl.signals:
                continue
            for b, net in enumerate(nl.signals[s]):
                if net >= 2 and (net >> 16) in ff_idx + srp_idx:
                    bits[(net >> 16, net & 0xffff)] = (sval(s) >> b) & 1
        state = {}
        for i in ff_idx + srp_idx:
            c = nl.cells[i]
            w = len(c.data) if isinstance(c, _nir.FlipFlop) else c.width
            v = 0
            for b in range(w):
                bit = bits.get((i, b))
                if bit is None:
                    bit = path.var(f"{tag}_free_{i}_{b}", 0, 1)
                v = v | (bit << b)
            state[i] = v
        for i, ms in zip(mem_idx, d.mem_slots):
            state[i] = [to_sint(r) & mask(ms.shape.width) for r in ms.data]
        return state

    def inputs_now():
        return {nm: sval(next(s for s in sigs if pname[id(s)] == nm)) for nm in top.ports_i}

    def r_state(path, tag):
        rstate = {}
        mem_keys = []

        def walk(m, ipath):
            for c in m.cells.values():
                nm = f"{'_'.join(ipath)}_{c.name}".replace("$", "d").replace("\\", "")
                if c.kind in ("$dff", "$adff"):
                    rstate[(ipath, c.name)] = path.var(f"{tag}_{nm}", 0, mask(c.params["\\WIDTH"]))
                elif c.kind == "$memrd_v2" and c.params["\\CLK_ENABLE"]:
                    rstate[(ipath, c.name)] = path.var(f"{tag}m_{nm}", 0, mask(c.params["\\WIDTH"]))
            for memid in m.memories:
                mem_keys.append((ipath, memid))
            for c in m.cells.values():
                if c.kind in mods:
                    walk(mods[c.kind], ipath + (c.name,))
        walk(mods["\\top"], ())
        # memories: same order of appearance as the simulator's memory slots
        assert len(mem_keys) == len(d.mem_slots)
        for key, ms in zip(mem_keys, d.mem_slots):
            rstate[key] = [to_sint(r) & mask(ms.shape.width) for r in ms.data]
        return rstate
    # signals whose value is held by a register / read register (need pinning on the RTLIL side)
    reg_sigs = [s for s in sigs if s in nl.signals and any(net >= 2 and (net >> 16) in ff_idx + srp_idx for net in nl.signals[s])]
    parts = []
    for ev_doms in events:
        tag = "+".join(ev_doms)

        def body(path, ev_doms=ev_doms, tag=tag):
            d.fresh(path)
            for c in clks.values():
                d.set(c, 0)
            for dn, cd in doms.items():
                if cd.rst is not None and (low_resets or any(cd.rst is t for t in trig)):
                    d.set(cd.rst, 0)
            d.settle(path, f"{name}::{tag}::pre")
            now = {id(s): sval(s) for s in sigs}
            inputs = inputs_now()
            # --- N now
            nstate = n_state_from_s(path, "n")
            evn = NirEval(nl, inputs, nstate)
            # --- R now
            rstate = r_state(path, "r")
            evr = RtlilEval(mods, inputs=dict(inputs), state=rstate)
            for s in reg_sigs:
                path.assume(to_sint(evr.out(pname[id(s)])) == now[id(s)])
            bad_n = 1 if break_n else 0
            bad_r = 1 if break_r else 0
            conds_n, conds_r = [], []
            for s in sigs:
                if s in nl.signals:
                    conds_n.append(to_sint(evn.value(nl.signals[s])) == (now[id(s)] ^ bad_n))
                conds_r.append(to_sint(evr.out(pname[id(s)])) == (now[id(s)] ^ bad_r))
            path.prove(f"{name}::{tag}::netlist-agrees-now", And(*conds_n))
            path.prove(f"{name}::{tag}::rtlil-agrees-now", And(*conds_r))
            # --- the event
            d.edge([(clks[dn], 1) for dn in ev_doms], path, f"{name}::{tag}::post")
            after = {id(s): sval(s) for s in sigs}
            inputs2 = dict(inputs)
            edges = {}
            for dn in ev_doms:
                inputs2[pname[id(clks[dn])]] = 1
                st, _w = top.ports_i[pname[id(clks[dn])]]
                edges[st] = 1
            ns = evn.next_state(edges)
            evn2 = NirEval(nl, inputs2, {**nstate, **ns})
            for s in sigs:
                if s in nl.signals:
                    path.prove(f"{name}::{tag}::netlist-next::{pname[id(s)]}", to_sint(evn2.value(nl.signals[s])) == after[id(s)])
            for i, ms in zip(mem_idx, d.mem_slots):
                for r in range(ms.depth):
                    path.prove(f"{name}::{tag}::netlist-next::mem{i}[{r}]", to_sint(ns[i][r]) & mask(ms.shape.width) == to_sint(ms.data[r]) & mask(ms.shape.width))
            # RTLIL
            before_ev = RtlilEval(mods, inputs=dict(inputs), state=rstate)
            after_ev = RtlilEval(mods, inputs=dict(inputs2), state=rstate)

            def find(rev, ipath, cname):
                inst = rev.top
                for step in ipath:
                    c = inst.m.cells[step]
                    rev.eval_cell(inst, c)
                    inst = inst.children[(inst.path, step)]
                return inst, inst.m.cells[cname]

            def active(inst, c):
                ib, cb = find(before_ev, inst.path, c.name)
                ia, ca = find(after_ev, inst.path, c.name)
                vb, va = ib.sig(cb.ports["\\CLK"]), ia.sig(ca.ports["\\CLK"])
                if is_sym(vb) or is_sym(va):
                    vb, va = path.concretize(to_sint(vb)), path.concretize(to_sint(va))
                pol = 1 if c.params["\\CLK_POLARITY"] else 0
                return int(vb) != int(va) and int(va) == pol
            rnext = dict(rstate)
            for inst, c in before_ev.registers():
                rnext[(inst.path, c.name)] = before_ev.next_register(inst, c, active)
            rnext.update(before_ev.next_memories(active))
            evr2 = RtlilEval(mods, inputs=dict(inputs2), state=rnext)
            for s in sigs:
                path.prove(f"{name}::{tag}::rtlil-next::{pname[id(s)]}", to_sint(evr2.out(pname[id(s)])) == after[id(s)])
            keys = [k for k in rstate if isinstance(rstate[k], list)]
            for key, ms in zip(keys, d.mem_slots):
                for r in range(ms.depth):
                    path.prove(f"{name}::{tag}::rtlil-next::mem{key[1]}[{r}]".replace("\\", ""),
                               to_sint(rnext[key][r]) & mask(ms.shape.width) == to_sint(ms.data[r]) & mask(ms.shape.width))
        parts.append(runner.from_exploration(name, Exploration(f"{name}::{tag}", body).run()))
    return runner.merge_results(name, parts, {"source_excerpt": text[:400]})


# ------------------------------------------------------------------------------------------------
# the designs

def _counter():
    from amaranth.hdl import Module, Signal
    m = Module()
    c, en, o = Signal(3, name="c", init=5), Signal(name="en"), Signal(name="o")
    s = Signal(signed(2) if False else 2, name="s", reset_less=True)
    with m.If(en):
        m.d.sync += c.eq(c + 1)
    with m.Elif(c[0]):
        m.d.sync += s.eq(s - 1)
    m.d.comb += o.eq(c == 7)
    return m


def _ffsync():
    from amaranth.hdl import Module, Signal, signed
    from amaranth.lib import cdc
    m = Module()
    i, o = Signal(signed(2), name="i"), Signal(4, name="o")
    m.submodules.f = cdc.FFSynchronizer(i, o, o_domain="sync", init=-1, stages=3)
    return m


def _pulse():
    from amaranth.lib import cdc
    return cdc.PulseSynchronizer("a", "b")


def _crc():
    from amaranth.lib import crc
    return crc.Algorithm(crc_width=5, polynomial=0x15, initial_crc=0x1f, reflect_input=True, reflect_output=False,
                         xor_output=0x3)(data_width=3).create()


def _inserters():
    from amaranth.hdl import Module, Signal, EnableInserter, ResetInserter
    m = Module()
    c, r = Signal(3, name="c", init=5), Signal(2, name="r", reset_less=True)
    m.d.sync += [c.eq(c + 1), r.eq(r - 1)]
    en, rs = Signal(name="en"), Signal(name="rs")
    top = Module()
    top.submodules.x = EnableInserter(en)(ResetInserter(rs)(m))
    return top


def _fsm():
    from amaranth.hdl import Module, Signal
    m = Module()
    go, stop, out, cnt = Signal(name="go"), Signal(name="stop"), Signal(2, name="out"), Signal(2, name="cnt")
    with m.FSM():
        with m.State("IDLE"):
            m.d.comb += out.eq(1)
            with m.If(go):
                m.next = "RUN"
        with m.State("RUN"):
            m.d.sync += cnt.eq(cnt + 1)
            m.d.comb += out.eq(2)
            with m.If(stop | (cnt == 3)):
                m.next = "DONE"
        with m.State("DONE"):
            m.d.comb += out.eq(3)
            m.next = "IDLE"
    return m


def _memory():
    from amaranth.hdl import Module
    from amaranth.lib.memory import Memory
    m = Module()
    mem = m.submodules.mem = Memory(shape=4, depth=3, init=[1, 2, 3])
    wp = mem.write_port(granularity=2)
    mem.read_port(transparent_for=(wp,))
    mem.read_port(domain="comb")
    return m


def _memory2():
    """two write ports, a synchronous read port transparent for the SECOND one only, one not transparent at all"""
    from amaranth.hdl import Module
    from amaranth.lib.memory import Memory
    m = Module()
    mem = m.submodules.mem = Memory(shape=4, depth=2, init=[1, 2])
    w0 = mem.write_port()
    w1 = mem.write_port(granularity=2)
    mem.read_port(transparent_for=(w1,))
    mem.read_port()
    return m


def _memory_neg():
    """a memory (write port, transparent and plain synchronous read ports) and a register in a domain clocked on the FALLING edge"""
    from amaranth.hdl import Module, ClockDomain, Signal
    from amaranth.lib.memory import Memory
    m = Module()
    m.domains.sync = ClockDomain(clk_edge="neg")
    mem = m.submodules.mem = Memory(shape=3, depth=2, init=[1, 2])
    w0 = mem.write_port()
    mem.read_port(transparent_for=(w0,))
    mem.read_port()
    r = Signal(2, name="r", init=1)
    m.d.sync += r.eq(r + 1)
    return m


def _hier(k):
    from checks import c04
    return c04._hier_designs()[k]()[0]


def designs(tier):
    from amaranth.lib import fifo
    ds = [
        ("counter", _counter, None, False),
        ("fsm", _fsm, None, False),
        ("inserters", _inserters, None, False),
        ("FFSynchronizer", _ffsync, None, False),
        ("PulseSynchronizer", _pulse, [("a",), ("b",), ("a", "b")], False),
        ("crc.Processor", _crc, None, False),
        ("Memory", _memory, None, False),
        ("Memory2", _memory2, None, False),
        ("MemoryNeg", _memory_neg, None, False),
        ("SyncFIFO", lambda: fifo.SyncFIFO(width=2, depth=3), None, False),
        ("SyncFIFOBuffered", lambda: fifo.SyncFIFOBuffered(width=2, depth=3), None, False),
        ("hier0", lambda: _hier(0), None, False), ("hier1", lambda: _hier(1), None, False), ("hier3", lambda: _hier(3), None, False),
    ]
    if tier == "thorough":
        ds += [("AsyncFIFO", lambda: fifo.AsyncFIFO(width=1, depth=2), [("write",), ("read",), ("write", "read")], True),
               ("SyncFIFO4", lambda: fifo.SyncFIFO(width=3, depth=4), None, False)]
    return ds


def design_tasks(tier):
    """one task per (design, clock event) so that multi-clock designs run in parallel"""
    out = []
    for k, (_n, _b, events, _l) in enumerate(designs(tier)):
        if events is None:
            out.append(("design", tier, k, None))
        else:
            out += [("design", tier, k, e) for e in range(len(events))]
    return out


def run_design(tier, k, e=None, **kw):
    name, build, events, low = designs(tier)[k]
    if e is not None:
        events = [events[e]]
    return check_design(f"design[{name}]", build(), events=events, low_resets=low, **kw)
