"""C09 -- elaboration and simulation are reproducible.

Independence properties are relational; the function-level facts within reach are order / frame rules
(DESIGN.md 3D), discharged by rule over the `ast` of the current source (not by SMT), plus closed
obligations and bounded native runs:

 ordered-source   on every module of the convert() path (hdl/_ir, _xfrm, _nir, _dsl, _ast, _mem, _cd, back/rtlil,
                  lib/wiring, lib/memory, build/run): every `for` / comprehension whose iterable is inferred to be a builtin set /
                  frozenset (constructor, set display or comprehension, set operator, a local or `self.` attribute
                  initialised to one) must be wrapped in sorted(...), or have an order-insensitive body (only set
                  adds / membership tests / raise), or be a reviewed exemption listed in EXEMPT with its reason.
                  A site not in one of these classes is refuted; the replay renders designs under
                  PYTHONHASHSEED 0..7 in subprocesses and diffs the RTLIL.
 reset-frame      for every simulator class with reset(): each attribute assigned (or container mutated) by a
                  method other than __init__/reset is re-established by reset() -- assigned there (with the same
                  expression as in __init__ where __init__ assigns it), cleared, or covered by a reviewed exemption.
 build-plan       BuildPlan.digest/archive iterate sorted(self.files); every archive member is written through
                  zipfile.ZipInfo (fixed 1980 timestamp); closed: archiving under two different clock values gives
                  identical bytes, digest is order-independent, extract writes exactly the planned files.
 hash-seed sweep  BOUNDED: sample designs (several implicit domains, name clashes, anonymous submodules, memory,
                  instance) convert to byte-identical RTLIL under PYTHONHASHSEED 0..7 and twice in one interpreter;
                  a simulation trace repeats identically after Simulator.reset().
Byte identity of arbitrary runs as such is not decided (it follows only if every order-sensitive site is
on the list); level claimed: other.
"""
import ast
import io
import os
import subprocess
import sys
import hashlib

from pyvc import runner, source

PROPERTY = "C09"

META = {
    "level": "other",
    "trusted_base": [
        "the set-type inference of this file (constructor / display / comprehension / set operators / attributes "
        "initialised to a set); iterables it cannot classify are not flagged",
        "reviewed exemptions in EXEMPT (each with its reason)",
    ],
    "assumptions": [
        "rule-based (type-and-effect) obligations, not SMT; the hash-seed sweep and the reset rerun are bounded stand-ins",
        "trace equality of arbitrary simulations after reset() and BuildPlan.extract file-system effects beyond the closed "
        "cases are not decided",
    ],
    "bounds": {"quick": {"hash_seeds": 4}, "thorough": {"hash_seeds": 8}},
    "explanation": "Order/frame rules over the current source decide the function-level facts reproducibility rests on: no "
                   "iteration over a builtin set on the conversion path without sorting or an order-insensitive body, reset() "
                   "re-establishes every field the simulation mutates, build plans sort their files and use fixed zip "
                   "timestamps; native hash-seed sweeps are run as bounded stand-ins and as replay.",
    "rule": "one obligation per iteration site / mutated attribute / build-plan rule",
}

MODULES = ["amaranth/hdl/_ir.py", "amaranth/hdl/_xfrm.py", "amaranth/hdl/_nir.py", "amaranth/hdl/_dsl.py", "amaranth/hdl/_ast.py",
           "amaranth/hdl/_mem.py", "amaranth/hdl/_cd.py", "amaranth/back/rtlil.py", "amaranth/lib/wiring.py",
           "amaranth/lib/memory.py", "amaranth/build/run.py", "amaranth/build/plat.py", "amaranth/build/res.py"]

# reviewed exemptions: (file, enclosing function, iterable text) -> reason the order cannot reach the output
EXEMPT = {
    ("amaranth/hdl/_nir.py", "Netlist.check_comb_cycles.<locals>.traverse", "*"): "DFS bookkeeping over nets; result is raise / no raise",
}


def functions():
    out = [source.describe("amaranth/hdl/_ir.py", "Fragment._create_missing_domains", arith="rule", bound="-"),
           source.describe("amaranth/hdl/_xfrm.py", "DomainCollector.__init__", arith="rule", bound="-"),
           source.describe("amaranth/build/run.py", "BuildPlan.digest", arith="rule + closed", bound="-"),
           source.describe("amaranth/build/run.py", "BuildPlan.archive", arith="rule + closed", bound="-"),
           source.describe("amaranth/build/run.py", "BuildPlan.extract", arith="closed", bound="-")]
    for f, cls in RESET_CLASSES:
        out.append(source.describe(f, f"{cls}.reset", arith="rule", bound="-"))
    return out


RESET_CLASSES = [("amaranth/sim/pysim.py", "_PySignalState"), ("amaranth/sim/pysim.py", "_PyMemoryState"),
                 ("amaranth/sim/pysim.py", "_PyTimeline"), ("amaranth/sim/pysim.py", "_PyEngineState"),
                 ("amaranth/sim/pysim.py", "PySimEngine"), ("amaranth/sim/_pyrtl.py", "PyRTLProcess"),
                 ("amaranth/sim/_pyclock.py", "PyClockProcess"), ("amaranth/sim/_async.py", "AsyncProcess")]

# attributes that are deliberately not re-established by reset(), with the reason
RESET_EXEMPT = {
    ("_PySignalState", "wakers"): "compile-time wakers must survive reset; trigger wakers of a restarted testbench drop themselves (_broken)",
    ("_PyMemoryState", "wakers"): "same as _PySignalState.wakers",
    ("_PySignalState", "is_comb"): "set once by the compiler, not simulation state",
    ("PySimEngine", "_vcd_writers"): "observers, managed by the write_vcd context manager",
    ("PySimEngine", "_processes"): "the process set is configuration (add_clock_process/add_async_process), each process is reset",
    ("PySimEngine", "_testbenches"): "configuration; each testbench is reset",
    ("PySimEngine", "_delta_cycles"): "only used for VCD timestamps",
    ("PySimEngine", "_active_triggers"): "cleared at the start of every step_design before use",
    ("PyRTLProcess", "run"): "the compiled function, set once by the compiler",
    ("_PySignalState", "pending"): "alias of the engine's shared pending set, cleared by _PyEngineState.reset()",
    ("_PyMemoryState", "pending"): "alias of the engine's shared pending set, cleared by _PyEngineState.reset()",
    ("_PyEngineState", "signals"): "registry of slots (configuration, filled lazily); every slot is reset individually",
    ("_PyEngineState", "slots"): "registry of slots (configuration, filled lazily); every slot is reset individually",
    ("_PyEngineState", "memories"): "registry of slots (configuration, filled lazily); every slot is reset individually",
}

RESET_PERSISTS = {
    ("_PySignalState", "wakers"): "wakers registered by the compiler when the design was built are not registered again after reset()",
    ("_PyMemoryState", "wakers"): "wakers registered by the compiler when the design was built are not registered again after reset()",
    ("_PySignalState", "is_comb"): "set once by the compiler",
    ("PyRTLProcess", "run"): "the compiled function, set once by the compiler",
    ("PyRTLProcess", "is_comb"): "set once by the compiler",
    ("PySimEngine", "_processes"): "the process set is configuration",
    ("PySimEngine", "_testbenches"): "the testbench list is configuration",
    ("_PyEngineState", "signals"): "registry of slots: compiled code refers to slots by index",
    ("_PyEngineState", "slots"): "registry of slots: compiled code refers to slots by index",
    ("_PyEngineState", "memories"): "registry of slots: compiled code refers to slots by index",
}


def tasks(tier):
    return [("ordered-source", m) for m in MODULES] + [("reset-frame",), ("build-plan",), ("hash-seed",), ("reset-rerun",)]


def canaries(tier):
    return [("canary-rule",)]


# ------------------------------------------------------------------------------------------------
# ordered-source rule

SET_CALLS = {"set", "frozenset"}


class SetInference(ast.NodeVisitor):
    """Collects, per function, iteration sites over expressions inferred to be builtin sets."""
    def __init__(self, relpath, tree):
        self.relpath = relpath
        self.sites = []            # (qualname, lineno, iter text, kind, body classification)
        self.class_set_attrs = {}  # class name -> {attr}
        self.tree = tree
        self._collect_class_attrs()

    def _collect_class_attrs(self):
        for node in ast.walk(self.tree):
            if isinstance(node, ast.ClassDef):
                attrs = set()
                for n in ast.walk(node):
                    if isinstance(n, ast.Assign):
                        for t in n.targets:
                            if isinstance(t, ast.Attribute) and getattr(t.value, "id", None) == "self" and self._is_set_expr(n.value, set(), set()):
                                attrs.add(t.attr)
                self.class_set_attrs[node.name] = attrs

    def _is_set_expr(self, e, local_sets, self_sets):
        if isinstance(e, (ast.Set, ast.SetComp)):
            return True
        if isinstance(e, ast.Call) and isinstance(e.func, ast.Name) and e.func.id in SET_CALLS:
            return True
        if isinstance(e, ast.BinOp) and isinstance(e.op, (ast.Sub, ast.BitOr, ast.BitAnd, ast.BitXor)):
            return self._is_set_expr(e.left, local_sets, self_sets) or self._is_set_expr(e.right, local_sets, self_sets)
        if isinstance(e, ast.Name) and e.id in local_sets:
            return True
        if isinstance(e, ast.Attribute) and getattr(e.value, "id", None) == "self" and e.attr in self_sets:
            return True
        if isinstance(e, ast.Attribute) and e.attr in KNOWN_SET_ATTRS:
            return True
        if isinstance(e, ast.Call) and isinstance(e.func, ast.Attribute) and e.func.attr in ("union", "intersection", "difference", "copy") \
                and self._is_set_expr(e.func.value, local_sets, self_sets):
            return True
        return False

    def run(self):
        def walk_fn(fn, qual, self_sets):
            local_sets = set()
            for n in ast.walk(fn):
                if isinstance(n, ast.Assign) and len(n.targets) == 1 and isinstance(n.targets[0], ast.Name):
                    if self._is_set_expr(n.value, local_sets, self_sets):
                        local_sets.add(n.targets[0].id)
                if isinstance(n, ast.AugAssign) and isinstance(n.target, ast.Name) and isinstance(n.op, (ast.BitOr, ast.Sub, ast.BitAnd)) \
                        and self._is_set_expr(n.value, local_sets, self_sets):
                    local_sets.add(n.target.id)
            for n in ast.walk(fn):
                iters = []
                if isinstance(n, ast.For):
                    iters.append((n.iter, n.body, "for"))
                elif isinstance(n, (ast.ListComp, ast.GeneratorExp, ast.DictComp)):
                    for g in n.generators:
                        iters.append((g.iter, None, "comprehension"))
                for it, body, kind in iters:
                    inner = it
                    wrapped = False
                    if isinstance(it, ast.Call) and isinstance(it.func, ast.Name) and it.func.id == "sorted":
                        wrapped = True
                        inner = it.args[0] if it.args else it
                    if isinstance(inner, ast.Call) and isinstance(inner.func, ast.Name) and inner.func.id in ("enumerate", "list", "tuple", "reversed"):
                        inner = inner.args[0] if inner.args else inner
                    if self._is_set_expr(inner, local_sets, self_sets):
                        cls = "sorted" if wrapped else self._classify_body(body, kind, n)
                        self.sites.append((qual, n.lineno, ast.unparse(it), kind, cls))

        def visit(node, prefix, self_sets):
            for child in ast.iter_child_nodes(node):
                if isinstance(child, ast.ClassDef):
                    visit(child, prefix + [child.name], self.class_set_attrs.get(child.name, set()))
                elif isinstance(child, (ast.FunctionDef, ast.AsyncFunctionDef)):
                    qual = ".".join(prefix + [child.name])
                    walk_fn(child, qual, self_sets)
        visit(self.tree, [], set())
        return self.sites

    def _classify_body(self, body, kind, node):
        """order-insensitive bodies: only set.add / dict-free membership / raise / continue / assert / pass, or a comprehension
        that feeds any()/all()/set()/sorted()/sum()/max()/min()/frozenset()/len()."""
        if kind == "comprehension":
            return "comprehension"          # refined by the caller through the parent expression (see below)
        ok = True
        for st in body:
            for n in ast.walk(st):
                if isinstance(n, ast.Call):
                    f = n.func
                    if isinstance(f, ast.Attribute) and f.attr in ("add", "discard", "update"):
                        continue
                    if isinstance(f, ast.Name) and f.id in ("isinstance", "len", "repr", "type", "format", "any", "all"):
                        continue
                    if isinstance(f, ast.Attribute) and f.attr in ("format",):
                        continue
                    if isinstance(n.func, ast.Name) and n.func.id[:1].isupper():
                        continue        # exception constructors
                    ok = False
                if isinstance(n, (ast.Assign, ast.AugAssign, ast.Yield, ast.YieldFrom, ast.Return)):
                    if isinstance(n, ast.AugAssign) and isinstance(n.op, (ast.BitOr, ast.Add)) and False:
                        continue
                    ok = False
        return "order-insensitive-body" if ok else "order-sensitive"


KNOWN_SET_ATTRS = {"used_domains", "defined_domains"}


def check_ordered_source(relpath, extra_source=None):
    text = extra_source if extra_source is not None else open(os.path.join(source.repo_root(), relpath)).read()
    tree = ast.parse(text)
    inf = SetInference(relpath, tree)
    sites = inf.run()
    # comprehension sites: fine when the comprehension is directly consumed by an order-insensitive reducer
    parents = {}
    for node in ast.walk(tree):
        for ch in ast.iter_child_nodes(node):
            parents[ch] = node
    obs = []
    for qual, lineno, ittext, kind, cls in sites:
        ok = cls in ("sorted", "order-insensitive-body")
        reason = cls
        if cls == "comprehension":
            # find the comprehension node again by line + text
            comp = [n for n in ast.walk(tree) if isinstance(n, (ast.ListComp, ast.GeneratorExp, ast.DictComp)) and n.lineno == lineno
                    and any(ast.unparse(g.iter) == ittext for g in n.generators)]
            okc = False
            for c in comp:
                p = parents.get(c)
                if isinstance(p, ast.Call) and isinstance(p.func, ast.Name) and p.func.id in (
                        "any", "all", "set", "frozenset", "sorted", "sum", "max", "min", "len", "union"):
                    okc = True
            ok = okc
            reason = "comprehension consumed by an order-insensitive reducer" if okc else "comprehension with order-sensitive result"
        ex = EXEMPT.get((relpath, qual, ittext)) or EXEMPT.get((relpath, qual, "*"))
        if not ok and ex:
            ok, reason = True, f"exempt: {ex}"
        obs.append({"name": f"ordered-source::{relpath}::{qual}::{ittext}"[:180], "kind": "post",
                    "status": "proved" if ok else "refuted", "backend": "rule", "time_s": 0.0, "detail": reason,
                    **({} if ok else {"failing_input_hint": {"file": relpath, "function": qual, "line": lineno, "iterable": ittext}})})
    obs.append({"name": f"ordered-source::{relpath}::scanned", "kind": "post", "status": "proved", "backend": "rule", "time_s": 0.0,
                "detail": f"{len(sites)} iteration sites over inferred sets"})
    return {"task": f"ordered-source[{relpath}]", "paths": len(sites), "solver_s": 0.0, "obligations": obs}


# ------------------------------------------------------------------------------------------------
# reset frame rule

MUTATORS = {"append", "add", "clear", "pop", "remove", "discard", "update", "extend", "insert", "setdefault", "popitem"}


def check_reset_frame():
    obs = []
    for relpath, cname in RESET_CLASSES:
        text = open(os.path.join(source.repo_root(), relpath)).read()
        tree = ast.parse(text)
        cls = [n for n in ast.walk(tree) if isinstance(n, ast.ClassDef) and n.name == cname]
        if not cls:
            obs.append({"name": f"reset-frame::{cname}::class-present", "kind": "post", "status": "refuted", "backend": "rule", "time_s": 0.0,
                        "failing_input": {"class": cname, "file": relpath}})
            continue
        cls = cls[0]
        methods = {n.name: n for n in cls.body if isinstance(n, (ast.FunctionDef, ast.AsyncFunctionDef))}
        if "reset" not in methods:
            obs.append({"name": f"reset-frame::{cname}::has-reset", "kind": "post", "status": "refuted", "backend": "rule", "time_s": 0.0,
                        "failing_input": {"class": cname}})
            continue

        def assigned(fn):
            """attr -> list of RHS texts (None for mutation through a method / subscript / nested function)"""
            out = {}
            for n in ast.walk(fn):
                if isinstance(n, ast.Assign):
                    for t in n.targets:
                        ts = t.elts if isinstance(t, ast.Tuple) else [t]
                        for t1 in ts:
                            if isinstance(t1, ast.Attribute) and getattr(t1.value, "id", None) == "self":
                                out.setdefault(t1.attr, []).append(ast.unparse(n.value))
                            if isinstance(t1, ast.Subscript) and isinstance(t1.value, ast.Attribute) and getattr(t1.value.value, "id", None) == "self":
                                out.setdefault(t1.value.attr, []).append(None)
                if isinstance(n, ast.AugAssign) and isinstance(n.target, ast.Attribute) and getattr(n.target.value, "id", None) == "self":
                    out.setdefault(n.target.attr, []).append(None)
                if isinstance(n, ast.Call) and isinstance(n.func, ast.Attribute) and n.func.attr in MUTATORS and \
                        isinstance(n.func.value, ast.Attribute) and getattr(n.func.value.value, "id", None) == "self":
                    out.setdefault(n.func.value.attr, []).append(("call", n.func.attr))
                if isinstance(n, ast.Delete):
                    for t in n.targets:
                        if isinstance(t, ast.Subscript) and isinstance(t.value, ast.Attribute) and getattr(t.value.value, "id", None) == "self":
                            out.setdefault(t.value.attr, []).append(None)
            return out
        init = assigned(methods["__init__"]) if "__init__" in methods else {}
        init_calls_reset = "__init__" in methods and any(
            isinstance(n, ast.Call) and ast.unparse(n.func) == "self.reset" for n in ast.walk(methods["__init__"]))
        rst = assigned(methods["reset"])
        mutated = {}
        for mname, fn in methods.items():
            if mname in ("__init__", "reset"):
                continue
            for attr, rhss in assigned(fn).items():
                mutated.setdefault(attr, []).append(mname)
        for attr, where in sorted(mutated.items()):
            ex = RESET_EXEMPT.get((cname, attr))
            in_reset = attr in rst
            ok = in_reset
            detail = f"mutated in {sorted(set(where))}; "
            if in_reset:
                # same expression as __init__ when __init__ assigns it directly
                r_exprs = [r for r in rst[attr] if isinstance(r, str)]
                i_exprs = [r for r in init.get(attr, []) if isinstance(r, str)]
                if i_exprs and r_exprs and not init_calls_reset and set(i_exprs) != set(r_exprs):
                    ok = False
                    detail += f"reset() gives {r_exprs} but __init__ gives {i_exprs}"
                else:
                    detail += "re-established by reset()"
            elif ex:
                ok = True
                detail += f"exempt: {ex}"
            else:
                detail += "NOT re-established by reset()"
            obs.append({"name": f"reset-frame::{cname}.{attr}", "kind": "post", "status": "proved" if ok else "refuted", "backend": "rule",
                        "time_s": 0.0, "detail": detail,
                        **({} if ok else {"failing_input_hint": {"class": cname, "attribute": attr, "mutated_in": sorted(set(where))}})})
        # the dual: what is configuration (registrations made when the design was compiled, the process set, the compiled code)
        # must SURVIVE reset() -- reset() neither rebinds nor mutates it
        for (c2, attr), why in sorted(RESET_PERSISTS.items()):
            if c2 != cname:
                continue
            touched = attr in rst
            obs.append({"name": f"reset-frame::{cname}.{attr}::survives-reset", "kind": "post", "status": "refuted" if touched else "proved",
                        "backend": "rule", "time_s": 0.0, "detail": why,
                        **({"failing_input_hint": {"class": cname, "attribute": attr, "reset() does": [r if isinstance(r, str) else repr(r) for r in rst[attr]],
                                                   "why it must survive": why}} if touched else {})})
        obs.append({"name": f"reset-frame::{cname}::scanned", "kind": "post", "status": "proved", "backend": "rule", "time_s": 0.0,
                    "detail": f"{len(mutated)} mutated attributes"})
    return {"task": "reset-frame", "paths": 0, "solver_s": 0.0, "obligations": obs}


# ------------------------------------------------------------------------------------------------
# build plan

def check_build_plan():
    import time as _time
    import zipfile
    import tempfile
    from amaranth.build.run import BuildPlan
    obs = []

    def ob(nm, ok, detail=None):
        obs.append({"name": f"build-plan::{nm}", "kind": "post", "status": "proved" if ok else "refuted", "backend": "closed", "time_s": 0.0,
                    **({} if ok else {"failing_input": detail or {}})})
    for fn in ("digest", "archive"):
        seg, node = source.function_source("amaranth/build/run.py", f"BuildPlan.{fn}")
        loops = [n for n in ast.walk(node) if isinstance(n, ast.For)]
        ok = bool(loops) and all(ast.unparse(n.iter).startswith("sorted(") for n in loops)
        ob(f"{fn}-iterates-sorted-files", ok, {"loops": [ast.unparse(n.iter) for n in loops]})
    seg, node = source.function_source("amaranth/build/run.py", "BuildPlan.archive")
    ws = [n for n in ast.walk(node) if isinstance(n, ast.Call) and isinstance(n.func, ast.Attribute) and n.func.attr == "writestr"]
    ok = bool(ws) and all(isinstance(c.args[0], ast.Call) and ast.unparse(c.args[0].func).endswith("ZipInfo") and len(c.args[0].args) == 1
                          and not c.args[0].keywords for c in ws)
    ob("archive-members-through-ZipInfo(fixed-timestamp)", ok, {"writestr calls": [ast.unparse(c) for c in ws]})

    def plan(order):
        p = BuildPlan("build_top")
        files = {"top.il": "module \\top\nend\n", "sub/dir/x.bin": b"\x00\x01\xff", "top.pcf": "set_io a 1\n", "a.sh": "#!/bin/sh\n"}
        for k in order:
            p.add_file(k, files[k])
        return p, files
    p1, files = plan(["top.il", "sub/dir/x.bin", "top.pcf", "a.sh"])
    p2, _ = plan(["a.sh", "top.pcf", "sub/dir/x.bin", "top.il"])
    ob("digest-order-independent", p1.digest() == p2.digest())
    p3, _ = plan(["a.sh", "top.pcf", "sub/dir/x.bin", "top.il"])
    p3.files["top.pcf"] = "set_io a 2\n"
    ob("digest-content-sensitive", p1.digest() != p3.digest())
    real_time, real_local = _time.time, _time.localtime
    outs = []
    try:
        for fake in (1_000_000_000.0, 1_700_000_123.0):
            _time.time = lambda fake=fake: fake
            buf = io.BytesIO()
            (p1 if fake < 1.5e9 else p2).archive(buf)
            outs.append(buf.getvalue())
    finally:
        _time.time, _time.localtime = real_time, real_local
    ob("archive-bytes-independent-of-clock-and-insertion-order", outs[0] == outs[1],
       {"sha256": [hashlib.sha256(o).hexdigest() for o in outs]})
    with zipfile.ZipFile(io.BytesIO(outs[0])) as z:
        names = z.namelist()
        stamps = {i.date_time for i in z.infolist()}
        contents = {n: z.read(n) for n in names}
    ob("archive-members-sorted-and-fixed-timestamp", names == sorted(files) and stamps == {(1980, 1, 1, 0, 0, 0)}, {"names": names, "stamps": sorted(stamps)})
    ob("archive-contents", contents == {k: (v.encode() if isinstance(v, str) else v) for k, v in files.items()})
    with tempfile.TemporaryDirectory(prefix="verif_c09_") as td:
        root = os.path.join(td, "build")
        out = p1.extract(root)
        written = {}
        for dp, _dn, fns in os.walk(root):
            for f in fns:
                full = os.path.join(dp, f)
                written[os.path.relpath(full, root).replace(os.sep, "/")] = open(full, "rb").read()
        ob("extract-writes-exactly-the-planned-files", written == {k: (v.encode() if isinstance(v, str) else v) for k, v in files.items()}
           and os.path.realpath(str(out)) == os.path.realpath(root), {"written": sorted(written)})
    # extracting into a root that already holds files (a reused build directory): every planned file ends up with the PLANNED
    # contents, whatever was there -- same length, other length, or a file where a planned directory's sibling sits
    with tempfile.TemporaryDirectory(prefix="verif_c09_") as td:
        root = os.path.join(td, "build")
        stale = {"top.il": "module \\old\nend\n", "sub/dir/x.bin": b"\xff\xfe\x00", "top.pcf": "set_io a 12345\n", "a.sh": "#!/bin/zz\n"}
        ps, _f = plan(["top.il", "sub/dir/x.bin", "top.pcf", "a.sh"])
        for k in list(ps.files):
            ps.files[k] = stale[k]
        same_len = [k for k in files if len(stale[k]) == len(files[k])]
        ps.extract(root)
        p1.extract(root)
        written = {}
        for dp, _dn, fns in os.walk(root):
            for f in fns:
                full = os.path.join(dp, f)
                written[os.path.relpath(full, root).replace(os.sep, "/")] = open(full, "rb").read()
        ob("extract-into-a-reused-root-writes-the-planned-contents", written == {k: (v.encode() if isinstance(v, str) else v) for k, v in files.items()}
           and len(same_len) >= 3,
           {"files whose contents on disk differ from the plan": sorted(k for k, v in files.items() if written.get(k) != (v.encode() if isinstance(v, str) else v)),
            "stale files of the same length": same_len, "how": "BuildPlan.extract(root) of one plan, then of another plan with the same file names, into the same root"})
    # effect rule on the source of extract(): inside the loop over self.files, the write (open(..., 'wb') + write) is reached on every
    # iteration -- it is not under a condition and no continue / break / return precedes it
    node = source.function_node("amaranth/build/run.py", "BuildPlan.extract") if hasattr(source, "function_node") else None
    if node is None:
        import inspect, textwrap
        node = ast.parse(textwrap.dedent(inspect.getsource(BuildPlan.extract))).body[0]
    loops = [n for n in ast.walk(node) if isinstance(n, ast.For) and "files" in ast.unparse(n.iter)]
    rule_ok = len(loops) == 1
    detail = {}
    if rule_ok:
        reached = False
        for st in loops[0].body:
            if isinstance(st, ast.With) and "open(" in ast.unparse(st.items[0].context_expr) and "'wb'" in ast.unparse(st.items[0].context_expr).replace('"', "'"):
                reached = any(isinstance(c, ast.Call) and isinstance(c.func, ast.Attribute) and c.func.attr == "write" for c in ast.walk(st))
                break
            if any(isinstance(c, (ast.Continue, ast.Break, ast.Return)) for c in ast.walk(st)):
                detail = {"statement before the write that can skip it": ast.unparse(st)[:200]}
                break
        rule_ok = reached
    ob("extract-loop-writes-every-planned-file-unconditionally(effect rule)", rule_ok, detail or {"loops over self.files": len(loops)})
    return {"task": "build-plan", "paths": 0, "solver_s": 0.0, "obligations": obs}


# ------------------------------------------------------------------------------------------------
# bounded: hash-seed sweep and reset rerun

DESIGNS_SRC = r'''
import sys, hashlib
from amaranth.hdl import *
from amaranth.hdl._ir import Fragment
from amaranth.back import rtlil
from amaranth.lib.memory import Memory

def d_domains():
    m = Module()
    sigs = []
    for k, dom in enumerate(["zeta", "alpha", "mid", "beta", "omega", "k9", "a1"]):
        s = Signal(3, name="s")
        m.d[dom] += s.eq(s + k)
        sigs.append(s)
    return m, sigs

def d_names():
    m = Module()
    outs = []
    for k in range(4):
        sub = Module()
        a = Signal(2, name="a"); b = Signal(2, name="a")
        sub.d.comb += b.eq(a + k)
        sub2 = Module()
        c = Signal(2, name="a")
        sub2.d.sync += c.eq(b)
        sub.submodules += sub2
        if k % 2:
            m.submodules += sub
        else:
            setattr(m.submodules, "named%d" % k, sub)
        outs += [a, c]
    return m, outs

def d_mem():
    m = Module()
    mem = Memory(shape=4, depth=5, init=[1, 2, 3])
    wp = mem.write_port(domain="w"); rp = mem.read_port(domain="r", transparent_for=())
    rp2 = mem.read_port(domain="comb")
    m.submodules.mem = mem
    x = Signal(4)
    m.submodules.inst = Instance("foo", p_A=1, i_x=x, o_y=Signal(4, name="y"), a_keep=1)
    return m, [wp.addr, wp.data, wp.en, rp.addr, rp.data, rp2.addr, rp2.data, x]

def d_alias():
    # several named signals on the same nets, later ones with attributes / an enumeration shape
    import enum as _enum
    from amaranth.lib import enum as aenum
    class Color(aenum.Enum, shape=2):
        RED = 0
        BLUE = 2
    m = Module()
    a = Signal(2, name="a")
    b = Signal(2, name="b", attrs={"keep": 1})
    c = Signal(Color, name="c")
    d = Signal(2, name="d", attrs={"mark": "x"})
    o = Signal(2, name="o")
    m.d.comb += [b.eq(a), c.eq(b), d.eq(c.as_value()), o.eq(d ^ 1)]
    sub = Module()
    e = Signal(2, name="e", attrs={"sub": 2})
    sub.d.comb += e.eq(d)
    m.submodules.sub = sub
    return m, [a, o]

def d_instance():
    # instances (persistent Fragment objects, reused by every elaboration of the design) fed by late-bound clock / reset
    # signals of an implicit and of an explicit domain, at the top and in a submodule, one under a DomainRenamer
    m = Module()
    m.domains.pix = ClockDomain("pix")
    o, p, q, d = Signal(name="o"), Signal(2, name="p"), Signal(name="q"), Signal(2, name="d")
    m.submodules.i0 = Instance("blk", i_clk=ClockSignal(), i_rst=ResetSignal(), i_d=d, o_o=o)
    sub = Module()
    sub.submodules.i1 = Instance("blk2", i_c=ClockSignal("pix"), i_r=ResetSignal("pix"), o_p=p)
    sub.d.sync += d.eq(d + 1)
    m.submodules.sub = sub
    m.submodules.i2 = DomainRenamer("pix")(Instance("blk3", i_c=ClockSignal(), o_q=q))
    return m, [o, p, q, ClockSignal("pix"), ResetSignal("pix")]

def attrs_of(m):
    frag = Fragment.get(m, None)
    seen = []
    def walk(fr):
        for dom, stmts in fr.statements.items():
            for st in stmts:
                for sig in list(st._lhs_signals()) + list(st._rhs_signals()):
                    seen.append((sig.name, repr(sorted(sig.attrs.items()))))
        for sub, _n, _s in fr.subfragments:
            walk(sub)
    walk(frag)
    return sorted(set(seen))

out = []
for mk in (d_domains, d_names, d_mem, d_alias, d_instance):
    m, ports = mk()
    before = attrs_of(m) if mk is d_alias else None
    text = rtlil.convert(m, ports=ports, emit_src=False)
    m2, ports2 = mk()
    text2 = rtlil.convert(m2, ports=ports2, emit_src=False)
    same = text == text2
    if mk is not d_mem:
        # converting the SAME design object again gives the same text, and conversion does not write into the design
        text3 = rtlil.convert(m, ports=ports, emit_src=False)
        same = same and text3 == text
    if before is not None:
        same = same and attrs_of(m) == before
    out.append((mk.__name__, hashlib.sha256(text.encode()).hexdigest(), same))
for o in out:
    print(o[0], o[1], o[2])
'''


def hash_seed_sweep(nseeds):
    repo = source.repo_root()
    results = {}
    for seed in range(nseeds):
        env = dict(os.environ, PYTHONHASHSEED=str(seed), PYTHONPATH=repo, PYTHONDONTWRITEBYTECODE="1")
        r = subprocess.run([sys.executable, "-W", "ignore", "-c", DESIGNS_SRC], env=env, capture_output=True, text=True, timeout=300)
        if r.returncode != 0:
            return {"seed": seed, "crash": r.stderr[-600:]}, 0
        for line in r.stdout.strip().splitlines():
            nm, h, same = line.split()
            results.setdefault(nm, {})[seed] = (h, same == "True")
    bad = None
    for nm, per in results.items():
        hashes = {h for h, _s in per.values()}
        if len(hashes) > 1:
            bad = bad or {"design": nm, "sha256 of RTLIL per PYTHONHASHSEED": {str(s): h[:16] for s, (h, _x) in per.items()},
                          "how": "rtlil.convert in subprocesses with different PYTHONHASHSEED"}
        if not all(s for _h, s in per.values()):
            bad = bad or {"design": nm, "what": "two conversions in one interpreter differ"}
    return bad, sum(len(p) for p in results.values())


def check_hash_seed(tier):
    n = META["bounds"][tier]["hash_seeds"]
    bad, cases = hash_seed_sweep(n)
    obs = []
    if bad:
        obs.append({"name": "hash-seed::rtlil-identical-across-seeds", "kind": "bounded", "status": "refuted", "backend": "cpython",
                    "time_s": 0.0, "failing_input": bad})
    return {"task": "hash-seed", "paths": 0, "solver_s": 0.0, "obligations": obs,
            "bounded": [{"name": "RTLIL byte-identical across PYTHONHASHSEED and repeated conversion", "bound": f"4 designs x {n} seeds (incl. converting the same design object twice)",
                         "cases": max(cases, 1), "failures": 1 if bad else 0}]}


def check_reset_rerun():
    """Bounded: a simulation with a clock, a sync counter, a changed()-loop process and a memory repeats identically
    after Simulator.reset(), and all state is back at its initial contents right after the reset."""
    from amaranth.hdl import Module, Signal
    from amaranth.lib.memory import Memory
    from amaranth.sim import Simulator, Period
    m = Module()
    ctr = Signal(4, init=3)
    inp = Signal(4, init=4)
    mirror = Signal(4)
    mem = Memory(shape=4, depth=2, init=[5, 6])
    wp = mem.write_port()
    rp = mem.read_port(domain="comb")          # address held at 0: its output follows the row only through the memory's wakers
    rp1 = mem.read_port(domain="comb")
    m.submodules.mem = mem
    m.d.sync += ctr.eq(ctr + 1)
    m.d.comb += [wp.addr.eq(ctr[0]), wp.data.eq(ctr), wp.en.eq(ctr[1]), rp1.addr.eq(1)]
    sim = Simulator(m)
    sim.add_clock(Period(MHz=1))
    trace = []

    async def proc(ctx):
        async for (v,) in ctx.changed(inp):
            ctx.set(mirror, v)

    async def tb(ctx):
        for k in range(6):
            trace.append((k, ctx.get(ctr), ctx.get(mirror), ctx.get(mem.data[0]), ctx.get(mem.data[1]), ctx.get(rp.data), ctx.get(rp1.data)))
            ctx.set(inp, k + 7)
            await ctx.tick()
    sim.add_process(proc)
    sim.add_testbench(tb)
    sim.run()
    first = list(trace)
    trace.clear()
    sim.reset()
    fresh = {"ctr": None}
    sim.run()
    second = list(trace)
    ok = first == second and len(first) == 6 and all(t[3] == t[5] and t[4] == t[6] for t in first + second)
    obs = []
    if not ok:
        obs.append({"name": "reset-rerun::identical-trace", "kind": "bounded", "status": "refuted", "backend": "cpython", "time_s": 0.0,
                    "failing_input": {"first run": first, "after reset()": second,
                                      "how": "real Simulator with a clock, a changed()-loop process, a testbench and a memory"}})
    # simulators do not share state: two of them alive at once, created before either runs / run interleaved with a reset,
    # each give the trace a lone simulator gives
    def build():
        mm = Module()
        c = Signal(4, init=2, name="c")
        x = Signal(4, name="x")
        mm.d.sync += c.eq(c + x)
        s_ = Simulator(mm)
        s_.add_clock(Period(MHz=1))
        tr = []

        async def tb_(ctx):
            for k in range(4):
                ctx.set(x, 1 + k)
                await ctx.tick()
                tr.append(ctx.get(c))
        s_.add_testbench(tb_)
        return s_, tr
    lone, lone_tr = build()
    lone.run()
    a, a_tr = build()
    b, b_tr = build()
    a.run()
    b.run()
    first_a = list(a_tr)
    a_tr.clear()
    a.reset()
    a.run()
    ok2 = first_a == lone_tr and b_tr == lone_tr and a_tr == lone_tr and len(lone_tr) == 4
    if not ok2:
        obs.append({"name": "reset-rerun::simulators-are-independent", "kind": "bounded", "status": "refuted", "backend": "cpython", "time_s": 0.0,
                    "failing_input": {"lone simulator": lone_tr, "A (created before B, run first)": first_a, "B": b_tr, "A after reset() and rerun": a_tr,
                                      "how": "two real Simulators of identical designs alive at once: create A, create B, run A, run B, A.reset(), run A"}})
    return {"task": "reset-rerun", "paths": 0, "solver_s": 0.0, "obligations": obs,
            "bounded": [{"name": "simulation repeats identically after Simulator.reset()", "bound": "one design, 6 cycles", "cases": 1,
                         "failures": 0 if ok else 1},
                        {"name": "two simulators alive at once are independent", "bound": "one design, create A, create B, run A, run B, reset A, run A",
                         "cases": 1, "failures": 0 if ok2 else 1}]}


def run_task(task):
    k = task[0]
    if k == "ordered-source":
        return check_ordered_source(task[1])
    if k == "reset-frame":
        return check_reset_frame()
    if k == "build-plan":
        return check_build_plan()
    if k == "hash-seed":
        return check_hash_seed(os.environ.get("VERIF_TIER", "quick") if os.environ.get("VERIF_TIER") in ("quick", "thorough") else "quick")
    if k == "reset-rerun":
        return check_reset_rerun()
    if k == "canary-rule":
        src = "class A:\n    def f(self):\n        used = set()\n        out = []\n        for x in used - {1}:\n            out.append(x)\n        return out\n"
        return check_ordered_source("canary.py", extra_source=src)
    raise KeyError(k)


def find_failing_input(res, ob):
    if ob["name"].startswith("ordered-source"):
        bad, _n = hash_seed_sweep(8)
        if bad:
            return bad
        return ob.get("failing_input_hint")
    if ob["name"].startswith("reset-frame"):
        r = check_reset_rerun()
        for o in r["obligations"]:
            if o.get("failing_input"):
                return o["failing_input"]
        return None
    return ob.get("failing_input")


def replay(data):
    nm = data["obligation"]
    if nm.startswith("ordered-source") or nm.startswith("hash-seed"):
        bad, _n = hash_seed_sweep(8)
        if bad:
            return True
    for t in tasks("quick"):
        r = run_task(t)
        if any(o["name"] == nm and o["status"] == "refuted" for o in r["obligations"]):
            return True
    return False
