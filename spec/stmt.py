"""Reference semantics of statement lists (property C02): last active assignment wins, per bit; in a
Switch at most one case is selected -- the first whose pattern matches (the default if none).

`exec_stmts(stmts, env_curr, new, cond)` folds a list of *Amaranth statement objects* (Assign /
Switch / Print / Property) over the environment `new` (Signal -> next value); right-hand sides
and tests read `env_curr`.  Conditions are accumulated symbolically (no forking).
Returns a list of events: ("print", cond, format object) / ("assert", cond-of-failure, stmt).
"""
from pyvc import sym
from pyvc.sym import ite, is_sym
from .sem import sem, _assign, pattern_matches, any_of, mask, Env


def _and(a, b):
    if a is True:
        return b
    if b is True:
        return a
    if a is False or b is False:
        return False
    return sym.And(a, b)


def _or(a, b):
    if a is False:
        return b
    if b is False:
        return a
    if a is True or b is True:
        return True
    return sym.Or(a, b)


def _not(a):
    if a is True:
        return False
    if a is False:
        return True
    return sym.Not(a)


def exec_stmts(stmts, env_curr, new, cond=True, events=None):
    from amaranth.hdl import _ast as A
    if events is None:
        events = []
    for stmt in stmts:
        if isinstance(stmt, A.Assign):
            value = sem(stmt.rhs, env_curr)
            _assign(stmt.lhs, value, env_curr, new, cond)
        elif isinstance(stmt, A.Switch):
            tw = len(stmt.test)
            t = sem(stmt.test, env_curr) & mask(tw)
            earlier = False
            for patterns, body, _src_loc in stmt.cases:
                if patterns is None:
                    m = True
                else:
                    m = any_of(pattern_matches(p, t, tw) for p in patterns)
                    if m is not True and m is not False and not is_sym(m):
                        m = bool(m)
                here = _and(m, _not(earlier))
                exec_stmts(body, env_curr, new, _and(cond, here), events)
                earlier = _or(earlier, m)
        elif isinstance(stmt, A.Print):
            events.append(("print", cond, stmt))
        elif isinstance(stmt, A.Property):
            test = sem(stmt.test, env_curr)
            events.append((stmt.kind.value, _and(cond, test == 0), stmt))
        else:
            raise NotImplementedError(type(stmt).__name__)
    return events


def may_write(lhs):
    """Per bit of `lhs`, the set of (signal, bit) it may alias for some value of the offsets and
    selectors: a list of sets of (id(signal), bit); plus `always`, the bits that are driven because
    a part-select with a run-time offset occurs over them (which bit it addresses is not known
    statically, so the statement drives every bit of the value selected from, whatever is done
    with the selected part afterwards).  Signals are returned in a side table."""
    from amaranth.hdl import _ast as A
    table = {}
    always = set()

    def go(v):
        if isinstance(v, A.Signal):
            table[id(v)] = v
            return [{(id(v), i)} for i in range(len(v))]
        if isinstance(v, A.Operator) and v.operator in ("u", "s"):
            return go(v.operands[0])
        if isinstance(v, A.Slice):
            return go(v.value)[v.start:v.stop]
        if isinstance(v, A.Concat):
            out = []
            for p in v.parts:
                out.extend(go(p))
            return out
        if isinstance(v, A.Part):
            inner = go(v.value)
            allbits = set()
            for b in inner:
                allbits |= b
            always.update(allbits)
            return [set(allbits) for _ in range(v.width)]
        if isinstance(v, A.SwitchValue):
            out = [set() for _ in range(len(v))]
            for _p, elem in v.cases:
                e = go(elem)
                for i in range(min(len(e), len(out))):
                    out[i] |= e[i]
            return out
        raise NotImplementedError(type(v).__name__)
    bits = go(lhs)
    return bits, table, always


def driven_masks(stmts):
    """Signal -> mask of bits that some assignment in `stmts` may write (the bits this statement
    list *drives*).  Returns (dict id->mask, table id->signal)."""
    from amaranth.hdl import _ast as A
    masks, table = {}, {}

    def visit(ss):
        for s in ss:
            if isinstance(s, A.Assign):
                bits, t, always = may_write(s.lhs)
                table.update(t)
                for bset in list(bits) + [always]:
                    for (sid, b) in bset:
                        masks[sid] = masks.get(sid, 0) | (1 << b)
            elif isinstance(s, A.Switch):
                for _p, body, _l in s.cases:
                    visit(body)
    visit(stmts)
    return masks, table
