"""Bit-serial Williams / Rocksoft model CRC, written from the parameter definitions in
docs/stdlib/crc.rst ("A Painless Guide to CRC Error Detection Algorithms"):

  width, poly (without the top bit), init, refin (input words are fed least significant bit first when true,
  most significant bit first otherwise), refout (the final register is bit-reversed when true), xorout.

Works on integers and on pyvc symbolic integers (branch-free: `ite`).
"""
from pyvc.sym import ite, is_sym


def mask(n):
    return (1 << n) - 1


def bitrev(v, n):
    r = 0
    for k in range(n):
        r = r | (((v >> k) & 1) << (n - 1 - k))
    return r


def step_bit(reg, bit, width, poly):
    top = (reg >> (width - 1)) & 1
    reg = (reg << 1) & mask(width)
    return ite((top ^ bit) != 0, reg ^ poly, reg)


def step_word(reg, word, width, data_width, poly, refin):
    order = range(data_width) if refin else reversed(range(data_width))
    for k in order:
        reg = step_bit(reg, (word >> k) & 1, width, poly)
    return reg


def finalize(reg, width, refout, xorout):
    out = bitrev(reg, width) if refout else reg
    return out ^ xorout


def crc_words(words, width, data_width, poly, init, refin, refout, xorout):
    reg = init
    for w in words:
        reg = step_word(reg, w, width, data_width, poly, refin)
    return finalize(reg, width, refout, xorout)


def crc_bytes(data, width, poly, init, refin, refout, xorout):
    return crc_words(list(data), width, 8, poly, init, refin, refout, xorout)
