"""Structural well-formedness of an RTLIL document (the `well_formed()` predicate of C07).

`violations(text, top=None)` parses `text` with the strict reader of harness/rtlil_parse.py and returns a list
of human-readable violations (empty = well-formed):

  parse      the text parses under the RTLIL grammar (reader raises otherwise)
  refs       every referenced wire / memory / module exists; slices stay inside the wire
  names      wire, cell, memory and process names are unique within a module; module names are unique
  widths     both sides of every `connect`, every process `assign`, every cell port (against the cell's
             width parameters for internal cells, against the port wire of the instantiated module for
             submodule cells) have equal widths; switch patterns have the width of the selector
  ports      port indices of a module are unique and dense (0 .. n-1 in Amaranth's numbering, which
             the reader takes from the text)
  drivers    every wire bit other than bits of inout ports has exactly one driver: being a module
             input, a cell output, a process target, or the left side of a connect; input port bits are
             never driven from inside.  (A process may assign the same bit several times: one driver.)
  submods    a cell whose type is a module of the document connects exactly the ports that module declares
  params     width parameters are non-negative integers, MEMID names an existing memory

The direction table of internal cells is the Yosys cell library's; foreign instances (a `\\type` that is not a
module of the document) have unknown directions: `foreign_outputs` (cell name -> set of output port names)
tells the checker, otherwise a port of a foreign cell is taken as an output iff nothing else drives the bits.
`pad_wires` names wires that stand for I/O ports (pads): a pad bit no buffer is attached to has no driver by
design, so the "no driver" rule is not applied to them (the "several drivers" rule is).
"""
from harness import rtlil_parse as RP

UNARY = {"$not", "$neg", "$pos", "$reduce_bool", "$reduce_or", "$reduce_and", "$reduce_xor", "$logic_not"}
BINARY = {"$and", "$or", "$xor", "$add", "$sub", "$mul", "$divfloor", "$modfloor", "$shl", "$shr", "$sshr", "$shift",
          "$eq", "$ne", "$lt", "$le", "$gt", "$ge"}
ANY = {"$anyconst", "$anyseq", "$allconst", "$allseq"}


def _int(v):
    if isinstance(v, RP.Const):
        return v.value
    return v


def cell_port_table(c, mem_names):
    """internal cell -> ({port: width}, set of output ports) or raises KeyError on a missing parameter;
    None for an unknown cell type"""
    k, P = c.kind, c.params
    if k in UNARY:
        return {"\\A": _int(P["\\A_WIDTH"]), "\\Y": _int(P["\\Y_WIDTH"])}, {"\\Y"}
    if k in BINARY:
        return {"\\A": _int(P["\\A_WIDTH"]), "\\B": _int(P["\\B_WIDTH"]), "\\Y": _int(P["\\Y_WIDTH"])}, {"\\Y"}
    if k == "$mux":
        w = _int(P["\\WIDTH"])
        return {"\\A": w, "\\B": w, "\\S": 1, "\\Y": w}, {"\\Y"}
    if k == "$tribuf":
        w = _int(P["\\WIDTH"])
        return {"\\A": w, "\\EN": 1, "\\Y": w}, {"\\Y"}
    if k == "$dff":
        w = _int(P["\\WIDTH"])
        return {"\\D": w, "\\CLK": 1, "\\Q": w}, {"\\Q"}
    if k == "$adff":
        w = _int(P["\\WIDTH"])
        if len(P["\\ARST_VALUE"]) != w:
            raise KeyError("ARST_VALUE width")
        return {"\\D": w, "\\CLK": 1, "\\ARST": 1, "\\Q": w}, {"\\Q"}
    if k == "$memrd_v2":
        return {"\\ADDR": _int(P["\\ABITS"]), "\\DATA": _int(P["\\WIDTH"]), "\\EN": 1, "\\CLK": 1, "\\ARST": 1, "\\SRST": 1}, {"\\DATA"}
    if k == "$memwr_v2":
        w = _int(P["\\WIDTH"])
        return {"\\ADDR": _int(P["\\ABITS"]), "\\DATA": w, "\\EN": w, "\\CLK": 1}, set()
    if k == "$meminit_v2":
        w = _int(P["\\WIDTH"])
        return {"\\ADDR": _int(P["\\ABITS"]), "\\DATA": w * _int(P["\\WORDS"]), "\\EN": w}, set()
    if k == "$print":
        return {"\\EN": 1, "\\ARGS": _int(P["\\ARGS_WIDTH"]), "\\TRG": _int(P["\\TRG_WIDTH"])}, set()
    if k == "$check":
        return {"\\EN": 1, "\\ARGS": _int(P["\\ARGS_WIDTH"]), "\\TRG": _int(P["\\TRG_WIDTH"]), "\\A": 1}, set()
    if k in ANY:
        return {"\\Y": _int(P["\\WIDTH"])}, {"\\Y"}
    if k == "$initstate":
        return {"\\Y": 1}, {"\\Y"}
    return None


def _spec_width(spec, m, where, out):
    """width of a sigspec, recording reference problems"""
    if isinstance(spec, RP.Const):
        return len(spec)
    if isinstance(spec, RP.Ref):
        w = m.wires.get(spec.name)
        if w is None:
            out.append(f"{where}: reference to undeclared wire {spec.name}")
            return None
        if spec.lo is None:
            return w.width
        if spec.hi >= w.width:
            out.append(f"{where}: slice {spec!r} outside wire {spec.name} of width {w.width}")
            return None
        return spec.hi - spec.lo + 1
    total = 0
    for p in spec.parts:
        pw = _spec_width(p, m, where, out)
        if pw is None:
            return None
        total += pw
    return total


def _bits(spec, m):
    try:
        return RP.bits_of(spec, m)
    except KeyError:
        return []


def _walk_process(items, m, where, out, targets):
    for it in items:
        if isinstance(it, RP.Assign):
            lw = _spec_width(it.lhs, m, where, out)
            rw = _spec_width(it.rhs, m, where, out)
            if lw is not None and rw is not None and lw != rw:
                out.append(f"{where}: assign {it.lhs!r} ({lw} bits) <- {it.rhs!r} ({rw} bits)")
            for b in _bits(it.lhs, m):
                if b[0] == "const":
                    out.append(f"{where}: assignment to a constant in {it.lhs!r}")
                else:
                    targets.add(b)
        else:
            sw = _spec_width(it.sel, m, where, out)
            seen_default = False
            for pats, body in it.cases:
                if seen_default:
                    pass        # cases after a default are unreachable, not malformed
                if not pats:
                    seen_default = True
                for p in pats:
                    if sw is not None and len(p) != sw:
                        out.append(f"{where}: case pattern {len(p)}'{p} for a {sw}-bit selector")
                _walk_process(body, m, where, out, targets)


def violations(text, foreign_outputs=None, pad_wires=()):
    try:
        mods = RP.parse(text)
    except RP.RTLILSyntaxError as e:
        return [f"parse: {e}"]
    except Exception as e:                      # reader confused by malformed text
        return [f"parse: {type(e).__name__}: {e}"]
    return violations_of(mods, foreign_outputs, pad_wires)


def violations_of(mods, foreign_outputs=None, pad_wires=()):
    out = []
    foreign_outputs = foreign_outputs or {}
    tops = [m for m in mods.values() if "\\top" in m.attrs]
    if len(tops) != 1 and mods:
        out.append(f"document has {len(tops)} modules with the top attribute")
    for m in mods.values():
        M = m.name
        # names (the reader refuses duplicate wires / cells; processes and cross-kind clashes are checked here)
        seen = {}
        for kind, table in (("wire", m.wires), ("cell", m.cells), ("memory", m.memories), ("process", m.processes)):
            for nm in table:
                if nm in seen:
                    out.append(f"{M}: name {nm} used for a {seen[nm]} and a {kind}")
                seen[nm] = kind
                if not nm or nm[0] not in "\\$" or len(nm) < 2:
                    out.append(f"{M}: malformed identifier {nm!r}")
        # ports
        ids = sorted(w.port_id for w in m.wires.values() if w.port_kind is not None)
        if ids != list(range(len(ids))) and ids != list(range(1, len(ids) + 1)):
            out.append(f"{M}: port indices {ids} are not unique and dense")
        for w in m.wires.values():
            if w.width < 0:
                out.append(f"{M}: wire {w.name} has negative width")
        # drivers
        drivers = {}

        def drive(bit, what):
            drivers.setdefault(bit, []).append(what)
        for w in m.wires.values():
            if w.port_kind == "input":
                for k in range(w.width):
                    drive((w.name, k), "module input")
        for c in m.cells.values():
            where = f"{M}: cell {c.name} ({c.kind})"
            if c.kind in mods:
                sub = mods[c.kind]
                decl = {nm: w for nm, w in sub.wires.items() if w.port_kind is not None}
                if set(c.ports) != set(decl):
                    out.append(f"{where}: connects ports {sorted(c.ports)} but the module declares {sorted(decl)}")
                for pn, spec in c.ports.items():
                    sw = _spec_width(spec, m, where, out)
                    if pn in decl and sw is not None and sw != decl[pn].width:
                        out.append(f"{where}: port {pn} is {decl[pn].width} bits in the module but connected to {sw} bits")
                    if pn in decl and decl[pn].port_kind == "output":
                        for b in _bits(spec, m):
                            if b[0] == "const":
                                out.append(f"{where}: output port {pn} connected to a constant")
                            else:
                                drive(b, f"output {pn} of cell {c.name}")
                continue
            if c.kind.startswith("$"):
                try:
                    tab = cell_port_table(c, m.memories)
                except KeyError as e:
                    out.append(f"{where}: missing or inconsistent parameter {e}")
                    continue
                if tab is None:
                    out.append(f"{where}: unknown internal cell type")
                    continue
                widths, outs = tab
                if set(c.ports) != set(widths):
                    out.append(f"{where}: connects ports {sorted(c.ports)} but the cell has {sorted(widths)}")
                for pn, spec in c.ports.items():
                    sw = _spec_width(spec, m, where, out)
                    if pn in widths and sw is not None and sw != widths[pn]:
                        out.append(f"{where}: port {pn} should be {widths[pn]} bits, connected to {sw} bits")
                    if pn in outs:
                        for b in _bits(spec, m):
                            if b[0] == "const":
                                out.append(f"{where}: output port {pn} connected to a constant")
                            else:
                                drive(b, f"output {pn} of cell {c.name}")
                if "\\MEMID" in c.params:
                    memid = c.params["\\MEMID"]
                    if memid not in m.memories:
                        out.append(f"{where}: MEMID {memid!r} names no memory of the module")
                    else:
                        mem = m.memories[memid]
                        if _int(c.params.get("\\WIDTH", mem.width)) != mem.width:
                            out.append(f"{where}: WIDTH {c.params.get(chr(92) + 'WIDTH')} differs from memory width {mem.width}")
                for pn, pv in c.params.items():
                    if pn.endswith("_WIDTH") or pn in ("\\WIDTH", "\\ABITS", "\\WORDS"):
                        if not isinstance(_int(pv), int) or _int(pv) < 0:
                            out.append(f"{where}: parameter {pn} = {pv!r}")
                continue
            # foreign instance
            fo = foreign_outputs.get(c.name.lstrip("\\"))
            for pn, spec in c.ports.items():
                _spec_width(spec, m, where, out)
                if fo is not None and pn.lstrip("\\") in fo:
                    for b in _bits(spec, m):
                        if b[0] != "const":
                            drive(b, f"output {pn} of instance {c.name}")
        for p in m.processes.values():
            targets = set()
            _walk_process(p.contents, m, f"{M}: process {p.name}", out, targets)
            for b in targets:
                drive(b, f"process {p.name}")
        for lhs, rhs in m.connects:
            where = f"{M}: connect {lhs!r} {rhs!r}"
            lw = _spec_width(lhs, m, where, out)
            rw = _spec_width(rhs, m, where, out)
            if lw is not None and rw is not None and lw != rw:
                out.append(f"{where}: {lw} bits <- {rw} bits")
            for b in _bits(lhs, m):
                if b[0] == "const":
                    out.append(f"{where}: constant on the driven side")
                else:
                    drive(b, f"connect {lhs!r}")
        unknown_foreign = any(not c.kind.startswith("$") and c.kind not in mods and foreign_outputs.get(c.name.lstrip("\\")) is None
                              for c in m.cells.values())
        for w in m.wires.values():
            for k in range(w.width):
                ds = drivers.get((w.name, k), [])
                if w.port_kind == "inout":
                    continue
                if w.port_kind == "input" and len(ds) > 1:
                    out.append(f"{M}: input port bit {w.name}[{k}] is driven from inside by {ds[1:]}")
                elif len(ds) > 1:
                    out.append(f"{M}: wire bit {w.name}[{k}] has {len(ds)} drivers: {ds}")
                elif len(ds) == 0 and not unknown_foreign and w.name.lstrip("\\") not in pad_wires:
                    out.append(f"{M}: wire bit {w.name}[{k}] has no driver")
    return out
