"""Symbolic evaluator for the RTLIL subset `amaranth.back.rtlil` emits, under the published semantics of the
cells (Yosys manual, "Internal cell library": $not $neg $reduce_* $and $or $xor $add $sub $mul $divfloor
$modfloor $shl $shr $sshr $shift $eq $ne $lt $le $gt $ge $mux $tribuf $dff $adff $mem*_v2) and of processes
(assignments in order; a switch selects the first case one of whose patterns matches, an empty pattern list is
the default).  This transcription is part of the trusted base of C04.

`RtlilEval(modules, top, inputs, state)`:
   inputs  top-level input port name (without backslash) -> integer
   state   ("path/to/cell",) keyed registers: {(path, cell name): value}; memories {(path, memid): [rows]}
`out(name)` evaluates a top-level wire.  `next_state(edges)` gives registers after clock edges
(edges: {clock top-level wire name: new level}).
"""
from pyvc.sym import ite, is_sym, popcount
from pyvc import sym
from harness import rtlil_parse as RP
from .sem import mask, norm


class Inst:
    """One instance of a module in the hierarchy."""
    def __init__(self, ev, module, path, bindings):
        self.ev, self.m, self.path, self.bind = ev, module, path, bindings      # bindings: input port name -> thunk
        self.memo = {}
        self.drivers = None
        self.children = {}

    # driver map: (wire, bit) -> (kind, object, bit offset within the driver's lhs)
    def _build(self):
        d = {}

        def claim(lhs, kind, obj):
            for k, b in enumerate(RP.bits_of(lhs, self.m)):
                if b[0] == "const":
                    continue
                d[b] = (kind, obj, k)
        for c in self.m.cells.values():
            outs = self.ev.cell_outputs(c)
            for pname in outs:
                if pname in c.ports:
                    claim(c.ports[pname], "cell", (c, pname))
        for p in self.m.processes.values():
            for lhs in _process_targets(p.contents):
                claim(lhs, "proc", p)
        for lhs, rhs in self.m.connects:
            # a connect drives whichever side is not otherwise driven; Amaranth writes `connect driven source`
            claim(lhs, "conn", (lhs, rhs))
        self.drivers = d

    def wire(self, name):
        if name in self.memo:
            return self.memo[name]
        if self.drivers is None:
            self._build()
        w = self.m.wires[name]
        if w.port_kind == "input" or (w.port_kind == "inout" and (name, 0) not in self.drivers):
            v = self.bind[name]() if name in self.bind else 0
            self.memo[name] = v
            return v
        res = 0
        pos = 0
        while pos < w.width:
            drv = self.drivers.get((name, pos))
            if drv is None:
                pos += 1            # undriven bit: x, read as 0
                continue
            kind, obj, off = drv
            run = 1
            while pos + run < w.width:
                nx = self.drivers.get((name, pos + run))
                if nx is None or nx[0] != kind or nx[1] is not obj and nx[1] != obj:
                    break
                if kind != "proc" and nx[2] != off + run:
                    break
                run += 1
            if kind == "proc":
                vals = self._eval_process(obj)
                chunk = (vals.get(name, 0) >> pos) & mask(run)
            else:
                chunk = (self._driver_value(kind, obj) >> off) & mask(run)
                if kind == "cell" and obj[0].kind == "$tribuf" and w.port_kind == "inout":
                    # a tristate driver on a pad: the pad shows the driven value while enabled, else the external value
                    en = self.sig(obj[0].ports["\\EN"]) & 1
                    ext = self.bind[name]() if name in self.bind else 0
                    chunk = ite(en != 0, chunk, (ext >> pos) & mask(run))
            res = res | (chunk << pos)
            pos += run
        self.memo[name] = res
        return res

    def _driver_value(self, kind, obj):
        key = (kind, id(obj) if kind != "cell" else (id(obj[0]), obj[1]))
        if key in self.memo:
            return self.memo[key]
        if kind == "cell":
            c, pname = obj
            v = self.ev.eval_cell(self, c)[pname]
        elif kind == "proc":
            v_all = self._eval_process(obj)
            # value for a specific lhs occurrence is assembled by wire() through per-wire results
            v = v_all
        else:
            lhs, rhs = obj
            v = self.sig(rhs)
        self.memo[key] = v
        return v

    def sig(self, spec):
        if isinstance(spec, RP.Const):
            return int(spec.bits.replace("x", "0").replace("z", "0") or "0", 2)
        if isinstance(spec, RP.Ref):
            v = self.wire(spec.name)
            if spec.lo is None:
                return v
            return (v >> spec.lo) & mask(spec.hi - spec.lo + 1)
        if isinstance(spec, RP.Concat):
            res, pos = 0, 0
            for p in reversed(spec.parts):
                w = RP.width_of(p, self.m)
                res = res | (self.sig(p) << pos)
                pos += w
            return res
        raise TypeError(spec)

    # processes: the driver "value" of a process is looked up per wire bit, so keep a per-process result table
    def _eval_process(self, p):
        key = ("procres", id(p))
        if key in self.memo:
            return self.memo[key]
        vals = {}        # wire name -> value being built (bits not assigned stay 0)

        def write(lhs, value, cond):
            pos = 0
            for part in (reversed(lhs.parts) if isinstance(lhs, RP.Concat) else [lhs]):
                w = RP.width_of(part, self.m)
                chunk = (value >> pos) & mask(w)
                pos += w
                if isinstance(part, RP.Const):
                    continue
                lo = 0 if part.lo is None else part.lo
                cur = vals.get(part.name, 0)
                new = (cur & ~(mask(w) << lo)) | (chunk << lo)
                vals[part.name] = ite(cond, new, cur) if cond is not True else new

        def run(items, cond):
            for it in items:
                if isinstance(it, RP.Assign):
                    write(it.lhs, self.sig(it.rhs), cond)
                else:
                    sel = self.sig(it.sel)
                    sw = RP.width_of(it.sel, self.m)
                    earlier = False
                    for pats, body in it.cases:
                        if not pats:
                            m = True
                        else:
                            m = False
                            for pat in pats:
                                care = int("0" + "".join("0" if ch == "-" else "1" for ch in pat), 2)
                                want = int("0" + "".join("1" if ch == "1" else "0" for ch in pat), 2)
                                hit = ((sel & care) == want) if sw else True
                                m = hit if m is False else (True if (m is True or hit is True) else sym.Or(m, hit))
                        here = _and(m, _not(earlier))
                        c2 = _and(cond, here)
                        if c2 is not False:
                            run(body, c2)
                        earlier = _or(earlier, m)
        run(p.contents, True)
        self.memo[key] = vals
        return vals


def _and(a, b):
    if a is True:
        return b
    if b is True:
        return a
    if a is False or b is False:
        return False
    return sym.And(a, b)


def _or(a, b):
    if a is False:
        return b
    if b is False:
        return a
    if a is True or b is True:
        return True
    return sym.Or(a, b)


def _not(a):
    if a is True:
        return False
    if a is False:
        return True
    return sym.Not(a)


def _process_targets(items):
    out = []
    for it in items:
        if isinstance(it, RP.Assign):
            out.append(it.lhs)
        else:
            for _p, body in it.cases:
                out.extend(_process_targets(body))
    return out


UNARY = {"$not", "$neg", "$pos", "$reduce_bool", "$reduce_or", "$reduce_and", "$reduce_xor", "$logic_not"}
BINARY = {"$and", "$or", "$xor", "$add", "$sub", "$mul", "$divfloor", "$modfloor", "$shl", "$shr", "$sshr", "$shift",
          "$eq", "$ne", "$lt", "$le", "$gt", "$ge"}


class RtlilEval:
    def __init__(self, modules, top="\\top", inputs=None, state=None):
        self.mods = modules
        self.inputs = inputs if inputs is not None else {}
        self.state = state if state is not None else {}
        top_m = modules[top]
        self.top = Inst(self, top_m, (), {nm: (lambda nm=nm: self.inputs[nm.lstrip("\\")]) for nm, w in top_m.wires.items()
                                              if w.port_kind in ("input", "inout") and nm.lstrip("\\") in self.inputs})

    def out(self, name):
        return self.top.wire("\\" + name if not name.startswith(("\\", "$")) else name)

    def cell_outputs(self, c):
        if c.kind in UNARY or c.kind in BINARY or c.kind in ("$mux", "$tribuf"):
            return ["\\Y"]
        if c.kind in ("$dff", "$adff"):
            return ["\\Q"]
        if c.kind == "$memrd_v2":
            return ["\\DATA"]
        if c.kind in ("$memwr_v2", "$meminit_v2", "$print", "$check"):
            return []
        if c.kind in self.mods:
            sub = self.mods[c.kind]
            return [nm for nm, w in sub.wires.items() if w.port_kind in ("output", "inout")]
        return [p for p in c.ports if p in ("\\Y", "\\Q")]

    def _ext(self, v, w_from, w_to, signed):
        v = v & mask(w_from)
        if signed and w_from > 0:
            return norm(v, w_from, True)
        return v

    def eval_cell(self, inst, c):
        k = c.kind
        P = c.params
        if k in self.mods:
            key = (inst.path, c.name)
            if key not in inst.children:
                sub = self.mods[k]
                bind = {}
                for pname, spec in c.ports.items():
                    if sub.wires[pname].port_kind in ("input", "inout"):
                        bind[pname] = (lambda spec=spec: inst.sig(spec))
                inst.children[key] = Inst(self, sub, inst.path + (c.name,), bind)
            child = inst.children[key]

            class _LazyOutputs(dict):
                # one output of a submodule may depend on a parent signal that depends on ANOTHER output of the same submodule:
                # evaluate per requested port, not the whole instance at once
                def __missing__(d, pname):
                    d[pname] = child.wire(pname)
                    return d[pname]
            return _LazyOutputs()
        if k in UNARY:
            aw, yw, asg = P["\\A_WIDTH"], P["\\Y_WIDTH"], bool(P["\\A_SIGNED"])
            a = self._ext(inst.sig(c.ports["\\A"]), aw, yw, asg)
            if k == "$not":
                y = ~a
            elif k == "$neg":
                y = -a
            elif k == "$pos":
                y = a
            elif k in ("$reduce_bool", "$reduce_or"):
                y = ite((a & mask(aw)) != 0, 1, 0)
            elif k == "$logic_not":
                y = ite((a & mask(aw)) == 0, 1, 0)
            elif k == "$reduce_and":
                y = ite((a & mask(aw)) == mask(aw), 1, 0)
            else:
                au = a & mask(aw)
                y = (popcount(au) % 2) if is_sym(au) else bin(au).count("1") % 2
            return {"\\Y": y & mask(yw)}
        if k in BINARY:
            aw, bw, yw = P["\\A_WIDTH"], P["\\B_WIDTH"], P["\\Y_WIDTH"]
            asg, bsg = bool(P["\\A_SIGNED"]), bool(P["\\B_SIGNED"])
            a = self._ext(inst.sig(c.ports["\\A"]), aw, yw, asg)
            b = self._ext(inst.sig(c.ports["\\B"]), bw, yw, bsg)
            if k == "$and":
                y = a & b
            elif k == "$or":
                y = a | b
            elif k == "$xor":
                y = a ^ b
            elif k == "$add":
                y = a + b
            elif k == "$sub":
                y = a - b
            elif k == "$mul":
                y = a * b
            elif k == "$divfloor":
                y = ite(b == 0, 0, a // ite(b == 0, 1, b))          # division by zero is undefined (x): read as 0
            elif k == "$modfloor":
                y = ite(b == 0, 0, a % ite(b == 0, 1, b))
            elif k == "$shl":
                y = a << (b & mask(bw))
            elif k == "$shr":
                y = (a & mask(max(aw, yw))) >> (b & mask(bw))
            elif k == "$sshr":
                y = a >> (b & mask(bw)) if asg else (a & mask(max(aw, yw))) >> (b & mask(bw))
            elif k == "$shift":
                # B unsigned: logical/arithmetic right shift of the (sign-)extended A
                y = a >> (b & mask(bw)) if asg else (a & mask(aw)) >> (b & mask(bw))
            else:
                cmpf = {"$eq": lambda: a == b, "$ne": lambda: a != b, "$lt": lambda: a < b, "$le": lambda: a <= b,
                        "$gt": lambda: a > b, "$ge": lambda: a >= b}[k]
                y = ite(cmpf(), 1, 0)
            return {"\\Y": y & mask(yw)}
        if k == "$mux":
            w = P["\\WIDTH"]
            s = inst.sig(c.ports["\\S"])
            return {"\\Y": ite((s & 1) != 0, inst.sig(c.ports["\\B"]), inst.sig(c.ports["\\A"])) & mask(w)}
        if k in ("$dff", "$adff"):
            return {"\\Q": self.state[(inst.path, c.name)]}
        if k == "$memrd_v2":
            w = P["\\WIDTH"]
            if P["\\CLK_ENABLE"]:
                return {"\\DATA": self.state[(inst.path, c.name)]}
            rows = self.state[(inst.path, P["\\MEMID"])]
            a = inst.sig(c.ports["\\ADDR"])
            res = 0
            for i in reversed(range(len(rows))):
                res = ite(a == i, rows[i] & mask(w), res)
            return {"\\DATA": res}
        if k == "$tribuf":
            return {"\\Y": inst.sig(c.ports["\\A"])}
        raise NotImplementedError(f"RTLIL cell {k}")

    # --- all instances (for state enumeration)
    def instances(self):
        out = []

        def walk(inst):
            out.append(inst)
            for c in inst.m.cells.values():
                if c.kind in self.mods:
                    self.eval_cell(inst, c)
                    walk(inst.children[(inst.path, c.name)])
        walk(self.top)
        return out

    # --- memories: rows and synchronous read registers after clock events
    def next_memories(self, active):
        """`active(inst, cell)`: does this $memwr_v2 / $memrd_v2 cell's clock have its active edge now.  Returns
        {(path, memid): rows', (path, read cell name): data'} under the published semantics: an active write port stores
        the EN-selected bits of DATA in the addressed row (ports applied in PORTID order; same-bit conflicts are the
        caller's precondition); an enabled synchronous read port captures the addressed row as it was before the edge,
        with the EN-selected bits of every active write port in its TRANSPARENCY_MASK that addresses the same row
        replaced by that port's DATA; a disabled one holds."""
        new = {}
        for inst in self.instances():
            for memid in inst.m.memories:
                rows = list(self.state[(inst.path, memid)])
                wrs = sorted([c for c in inst.m.cells.values() if c.kind == "$memwr_v2" and c.params["\\MEMID"] == memid],
                             key=lambda c: c.params["\\PORTID"])
                for c in wrs:
                    if not c.params["\\CLK_ENABLE"]:
                        raise NotImplementedError("asynchronous write port")
                    if not active(inst, c):
                        continue
                    a, dta, en = inst.sig(c.ports["\\ADDR"]), inst.sig(c.ports["\\DATA"]), inst.sig(c.ports["\\EN"])
                    for i in range(len(rows)):
                        rows[i] = ite(a == i, (rows[i] & ~en) | (dta & en), rows[i])
                new[(inst.path, memid)] = rows
                for c in inst.m.cells.values():
                    if c.kind != "$memrd_v2" or c.params["\\MEMID"] != memid or not c.params["\\CLK_ENABLE"]:
                        continue
                    cur = self.state[(inst.path, c.name)]
                    if not active(inst, c):
                        new[(inst.path, c.name)] = cur
                        continue
                    w = c.params["\\WIDTH"]
                    old = self.state[(inst.path, memid)]
                    a = inst.sig(c.ports["\\ADDR"])
                    cap = 0
                    for i in reversed(range(len(old))):
                        cap = ite(a == i, old[i] & mask(w), cap)
                    tm = c.params["\\TRANSPARENCY_MASK"]
                    tm = tm.value if isinstance(tm, RP.Const) else tm
                    for wc in wrs:
                        if (tm >> wc.params["\\PORTID"]) & 1 and active(inst, wc):
                            wa, wd, we = inst.sig(wc.ports["\\ADDR"]), inst.sig(wc.ports["\\DATA"]), inst.sig(wc.ports["\\EN"])
                            cap = ite(wa == a, (cap & ~we) | (wd & we), cap)
                    en = inst.sig(c.ports["\\EN"]) & 1
                    new[(inst.path, c.name)] = ite(en != 0, cap, cur)
        return new

    def registers(self):
        """[(inst, cell)] for every $dff / $adff in the hierarchy"""
        return [(inst, c) for inst in self.instances() for c in inst.m.cells.values() if c.kind in ("$dff", "$adff")]

    def next_register(self, inst, c, edges):
        """`edges`: {net description -> level}: the clock is matched by evaluating the CLK input before/after is not
        modelled; instead the caller says whether this register's clock has its active edge now (edges is a predicate)."""
        P = c.params
        cur = self.state[(inst.path, c.name)]
        d = inst.sig(c.ports["\\D"])
        active = edges(inst, c)
        nxt = d if active else cur
        if c.kind == "$adff":
            ar = inst.sig(c.ports["\\ARST"]) & 1
            pol = 1 if P["\\ARST_POLARITY"] else 0
            rv = P["\\ARST_VALUE"]
            rv = rv.value if isinstance(rv, RP.Const) else rv
            nxt = ite(ar == pol, rv, nxt)
        return nxt
