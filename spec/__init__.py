"""Specification functions, written from the property statements and the reference documentation
(docs/guide.rst, operator docstrings), not from the implementation.  They are plain executable
Python over integers and work unchanged on `pyvc.sym.SInt` proxies (branching only via `ite`)."""
