"""Reference semantics of Amaranth value expressions and assignments.

`sem(expr, env)` is the mathematical (Python integer / bit sequence) meaning of an expression:
the value a combinational signal of shape `expr.shape()` assigned `expr` would hold, provided the
shape can represent it (that it can is a separate obligation, "containment").  `env` maps Signal
-> current value (an int inside the signal's shape range, or an SInt).

Documented deviations from Python semantics (property C01): `~` complements within the operand's
shape; `//` and `%` by zero give 0; bits selected above the MSB read as zero for unsigned and as
the sign bit for signed operands (which is what `>>` on a Python integer gives).
"""
from pyvc.sym import ite, SInt, SBool, popcount, to_sint, is_sym
from pyvc import sym


class Env:
    """Signal -> value map (Amaranth signals are not hashable by value; keyed by identity)."""
    def __init__(self, pairs=()):
        self._d = {}
        self._k = {}
        if isinstance(pairs, Env):
            self._d = dict(pairs._d)
            self._k = dict(pairs._k)
        else:
            for k, v in (pairs.items() if isinstance(pairs, dict) else pairs):
                self[k] = v

    def __getitem__(self, sig):
        return self._d[id(sig)]

    def __setitem__(self, sig, v):
        self._d[id(sig)] = v
        self._k[id(sig)] = sig

    def __contains__(self, sig):
        return id(sig) in self._d

    def copy(self):
        return Env(self)

    def items(self):
        return [(self._k[i], v) for i, v in self._d.items()]

    def keys(self):
        return list(self._k.values())


def mask(w):
    return (1 << w) - 1


def norm(v, w, signed):
    """The unique value in the range of Shape(w, signed) congruent to v modulo 2**w."""
    if w == 0:
        return v * 0 if is_sym(v) else 0
    if signed:
        return ((v + (1 << (w - 1))) & mask(w)) - (1 << (w - 1))
    return v & mask(w)


def in_range(v, w, signed):
    if signed:
        if w == 0:
            return v == 0
        return sym.And(v >= -(1 << (w - 1)), v < (1 << (w - 1)))
    return sym.And(v >= 0, v < (1 << w))


def shape_range(w, signed):
    if signed and w > 0:
        return -(1 << (w - 1)), (1 << (w - 1)) - 1
    return 0, (1 << w) - 1


def pattern_matches(pattern, test_bits, width):
    """`pattern` is a normalised pattern string (MSB first) over 0/1/-; `test_bits` is the test
    value reduced modulo 2**width."""
    assert len(pattern) == width, (pattern, width)
    if width == 0:
        return True
    care = int("".join("0" if c == "-" else "1" for c in pattern), 2)
    want = int("".join("1" if c == "1" else "0" for c in pattern), 2)
    return (test_bits & care) == want


def any_of(conds):
    conds = list(conds)
    if not conds:
        return False
    return sym.Or(*conds) if any(is_sym(c) for c in conds) else any(conds)


def sem(expr, env):
    from amaranth.hdl import _ast as A
    if isinstance(expr, A.Const):
        return expr.value
    if isinstance(expr, A.Signal):
        return env[expr]
    if isinstance(expr, A.Operator):
        op = expr.operator
        ops = expr.operands
        shs = [o.shape() for o in ops]
        vs = [sem(o, env) for o in ops]
        if len(ops) == 1:
            (a,), (sa,) = vs, shs
            if op == "~":
                return norm(~a, sa.width, sa.signed)
            if op == "-":
                return -a
            if op == "+":
                return a
            if op in ("b", "r|"):
                return ite(a != 0, 1, 0)
            if op == "r&":
                return ite((a & mask(sa.width)) == mask(sa.width), 1, 0)
            if op == "r^":
                return popcount(a & mask(sa.width)) % 2 if is_sym(a) else bin(a & mask(sa.width)).count("1") % 2
            if op == "u":
                return norm(a, sa.width, False)
            if op == "s":
                return norm(a, sa.width, True)
        elif len(ops) == 2:
            a, b = vs
            if op == "+":
                return a + b
            if op == "-":
                return a - b
            if op == "*":
                return a * b
            if op == "//":
                return ite(b == 0, 0, a // ite(b == 0, 1, b))
            if op == "%":
                return ite(b == 0, 0, a % ite(b == 0, 1, b))
            if op == "&":
                return a & b
            if op == "|":
                return a | b
            if op == "^":
                return a ^ b
            if op == "<<":
                return a << b
            if op == ">>":
                return a >> b
            if op == "==":
                return ite(a == b, 1, 0)
            if op == "!=":
                return ite(a != b, 1, 0)
            if op == "<":
                return ite(a < b, 1, 0)
            if op == "<=":
                return ite(a <= b, 1, 0)
            if op == ">":
                return ite(a > b, 1, 0)
            if op == ">=":
                return ite(a >= b, 1, 0)
        raise NotImplementedError(f"spec: operator {op!r}/{len(ops)}")
    if isinstance(expr, A.Slice):
        a = sem(expr.value, env)
        return (a >> expr.start) & mask(expr.stop - expr.start)
    if isinstance(expr, A.Part):
        a = sem(expr.value, env)
        off = sem(expr.offset, env)
        return (a >> (off * expr.stride)) & mask(expr.width)
    if isinstance(expr, A.Concat):
        res = 0
        pos = 0
        for part in expr.parts:
            w = len(part)
            res = res | ((sem(part, env) & mask(w)) << pos)
            pos += w
        return res
    if isinstance(expr, A.SwitchValue):
        tw = len(expr.test)
        t = sem(expr.test, env) & mask(tw)
        res = 0
        # first matching case wins: fold from the last case backwards
        for patterns, value in reversed(expr.cases):
            v = sem(value, env)
            if patterns is None:
                cond = True
            else:
                cond = any_of(pattern_matches(p, t, tw) for p in patterns)
            res = ite(cond, v, res)
        return res
    if isinstance(expr, A.ArrayProxy):
        idx = sem(expr.index, env)
        elems = [sem(A.Value.cast(e), env) for e in expr.elems]
        res = elems[-1]
        for i in reversed(range(len(elems) - 1)):
            res = ite(idx == i, elems[i], res)
        return res
    raise NotImplementedError(f"spec: {type(expr).__name__}")


# ---------------------------------------------------------------------------------------------
# documented result shapes (docstrings of Value.__add__ ... and docs/guide.rst, "Operators")

def unify(shapes):
    """Smallest shape that can represent every value of every given (width, signed) shape."""
    shapes = list(shapes)
    if not shapes:
        return (0, False)
    signed = any(s for _w, s in shapes)
    if not signed:
        return (max(w for w, _s in shapes), False)
    return (max(max((w if s else w + 1) for w, s in shapes), 1), True)


def doc_shape(op, shapes):
    if len(shapes) == 1:
        (wa, sa), = shapes
        if op in ("~", "+"):
            return (wa, sa)
        if op == "-":
            return (wa + 1, True)
        if op in ("b", "r|", "r&", "r^"):
            return (1, False)
        if op == "u":
            return (wa, False)
        if op == "s":
            return (wa, True)
    else:
        (wa, sa), (wb, sb) = shapes
        if op == "+":
            w, s = unify(shapes)
            return (w + 1, s)
        if op == "-":
            w, s = unify(shapes)
            return (w + 1, True)
        if op == "*":
            return (wa + wb, sa or sb)
        if op == "//":
            return (wa + (1 if sb else 0), sa or sb)
        if op == "%":
            return (wb, sb)
        if op in ("<", "<=", "==", "!=", ">", ">="):
            return (1, False)
        if op in ("&", "|", "^"):
            return unify(shapes)
        if op == "<<":
            return (wa + 2 ** wb - 1, sa)
        if op == ">>":
            return (wa, sa)
    raise NotImplementedError(op)


# ---------------------------------------------------------------------------------------------
# assignment semantics (property C02 / C05)

def assign(lhs, value, env):
    """Returns a new env after `lhs.eq(<something evaluating to value>)`: the len(lhs) low bits
    of `value` are written to exactly the addressed bits; bits that fall outside a target are
    dropped.  `value` is the already truncated/extended RHS (any integer: only its low len(lhs)
    bits are used)."""
    new = Env(env)
    _assign(lhs, value, env, new)
    return new


def read_lvalue(lhs, env, new):
    """Current contents of an lvalue during a read-modify-write: the data bits come from `new` (the
    values being built up by earlier assignments of the same process), while part-select offsets and
    array indices are ordinary right-hand-side reads of `env` (the current values)."""
    from amaranth.hdl import _ast as A
    if isinstance(lhs, A.Signal):
        return new[lhs]
    if isinstance(lhs, A.Operator) and lhs.operator in ("u", "s"):
        inner = lhs.operands[0]
        return norm(read_lvalue(inner, env, new), len(inner), lhs.operator == "s")
    if isinstance(lhs, A.Slice):
        return (read_lvalue(lhs.value, env, new) >> lhs.start) & mask(lhs.stop - lhs.start)
    if isinstance(lhs, A.Part):
        iw = len(lhs.value)
        cur = read_lvalue(lhs.value, env, new) & mask(iw)
        off = sem(lhs.offset, env) * lhs.stride
        off_c = ite(off >= iw, iw, off)
        return (cur >> off_c) & mask(lhs.width)
    if isinstance(lhs, A.Concat):
        res, pos = 0, 0
        for part in lhs.parts:
            w = len(part)
            res = res | ((read_lvalue(part, env, new) & mask(w)) << pos)
            pos += w
        return res
    if isinstance(lhs, A.SwitchValue):
        tw = len(lhs.test)
        t = sem(lhs.test, env) & mask(tw)
        res = 0
        for patterns, elem in reversed(lhs.cases):
            v = read_lvalue(elem, env, new)
            cond = True if patterns is None else any_of(pattern_matches(p, t, tw) for p in patterns)
            res = ite(cond, v, res)
        return res
    raise NotImplementedError(f"spec: read of lvalue {type(lhs).__name__}")


def _assign(lhs, value, env, new, cond=True):
    """Writes under symbolic condition `cond` (non-forking)."""
    from amaranth.hdl import _ast as A
    if isinstance(lhs, A.Signal):
        sh = lhs.shape()
        new[lhs] = ite(cond, norm(value, sh.width, sh.signed), new[lhs])
        return
    if isinstance(lhs, A.Operator) and lhs.operator in ("u", "s"):
        _assign(lhs.operands[0], value, env, new, cond)
        return
    if isinstance(lhs, A.Slice):
        inner = lhs.value
        w = lhs.stop - lhs.start
        cur = read_lvalue(inner, env, new) & mask(len(inner))
        upd = (cur & ~(mask(w) << lhs.start)) | ((value & mask(w)) << lhs.start)
        _assign(inner, upd, env, new, cond)
        return
    if isinstance(lhs, A.Part):
        inner = lhs.value
        iw = len(inner)
        off = sem(lhs.offset, env) * lhs.stride
        w = lhs.width
        cur = read_lvalue(inner, env, new) & mask(iw)
        # bits of the window that fall outside `inner` are dropped: clamp the shift so that the
        # expression stays bounded (a shift by >= iw writes nothing)
        off_c = ite(off >= iw, iw, off)
        upd = ((cur & ~(mask(w) << off_c)) | ((value & mask(w)) << off_c)) & mask(iw)
        _assign(inner, upd, env, new, cond)
        return
    if isinstance(lhs, A.Concat):
        pos = 0
        for part in lhs.parts:
            w = len(part)
            _assign(part, (value >> pos) & mask(w), env, new, cond)
            pos += w
        return
    if isinstance(lhs, A.SwitchValue):
        tw = len(lhs.test)
        t = sem(lhs.test, env) & mask(tw)
        earlier = False
        for patterns, elem in lhs.cases:
            if patterns is None:
                m = True
            else:
                m = any_of(pattern_matches(p, t, tw) for p in patterns)
            here = sym.And(m, sym.Not(earlier)) if (is_sym(m) or is_sym(earlier)) else (m and not earlier)
            c = sym.And(cond, here) if (is_sym(cond) or is_sym(here)) else (cond and here)
            # the element receives the low len(lhs) bits, truncated to / dropped beyond its width
            _assign(elem, value, env, new, c)
            earlier = sym.Or(earlier, m) if (is_sym(m) or is_sym(earlier)) else (earlier or m)
        return
    raise NotImplementedError(f"spec: assignment to {type(lhs).__name__}")
