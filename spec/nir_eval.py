"""Symbolic evaluator for Amaranth's netlist IR, transcribed from the cell docstrings of
amaranth/hdl/_nir.py (Operator, Part, Match, Assignment/AssignmentList, FlipFlop, memory ports, IOBuffer).

`NirEval(netlist, inputs, state)` computes the value of every net from
  inputs  top-level input name -> integer (or SInt)
  state   flip-flop cell index -> current register contents; memory cell index -> list of rows;
          sync read port cell index -> current data register
`next_state()` returns the contents after the clock events given (`edges`: set of (clk net, level)).
All arithmetic is on Python ints / SInt (branch-free).
"""
from pyvc.sym import ite, to_sint, is_sym, popcount
from pyvc import sym
from .sem import mask, norm


class NirEval:
    def __init__(self, netlist, inputs=None, state=None, io_inputs=None):
        self.n = netlist
        self.inputs = inputs if inputs is not None else {}
        self.state = state if state is not None else {}
        self.io_inputs = io_inputs if io_inputs is not None else {}
        self._cell = {}
        self._busy = set()

    # --- nets and values
    def net(self, net):
        from amaranth.hdl import _nir
        net = self.n.resolve_net(net) if net < 0 else net
        if net in (0, 1):
            return int(net)
        cell, bit = net >> 16, net & 0xffff
        if cell == 0:
            top = self.n.cells[0]
            for name, (start, width) in top.ports_i.items():
                if start <= bit < start + width:
                    return (self.inputs[name] >> (bit - start)) & 1
            raise KeyError(f"top input bit {bit}")
        return (self.cell(cell) >> bit) & 1

    def value(self, val):
        """integer value of a Value (tuple of nets, LSB first); consecutive bits of one cell are sliced"""
        res = 0
        pos = 0
        n = len(val)
        while pos < n:
            net = val[pos]
            if net in (0, 1):
                res = res | (int(net) << pos)
                pos += 1
                continue
            cell, bit = net >> 16, net & 0xffff
            run = 1
            while pos + run < n and val[pos + run] >= 2 and (val[pos + run] >> 16) == cell and (val[pos + run] & 0xffff) == bit + run:
                run += 1
            if cell == 0:
                chunk = 0
                for k in range(run):
                    chunk = chunk | (self.net(val[pos + k]) << k)
            else:
                chunk = (self.cell(cell) >> bit) & mask(run)
            res = res | (chunk << pos)
            pos += run
        return res

    def svalue(self, val):
        return norm(self.value(val), len(val), True) if len(val) else 0

    # --- cells
    def cell(self, idx):
        if idx in self._cell:
            return self._cell[idx]
        if idx in self._busy:
            raise RecursionError(f"combinational cycle through cell {idx}")
        self._busy.add(idx)
        try:
            v = self._eval(idx, self.n.cells[idx])
        finally:
            self._busy.discard(idx)
        self._cell[idx] = v
        return v

    def _eval(self, idx, c):
        from amaranth.hdl import _nir
        if isinstance(c, _nir.Operator):
            return self._operator(c)
        if isinstance(c, _nir.Part):
            v = self.svalue(c.value) if c.value_signed else self.value(c.value)
            off = self.value(c.offset) * c.stride
            return (v >> off) & mask(c.width)
        if isinstance(c, _nir.Match):
            en = self.net(c.en)
            v = self.value(c.value)
            out = 0
            earlier = False
            for k, plist in enumerate(c.patterns):
                m = False
                for p in plist:
                    care = int("0" + "".join("0" if ch == "-" else "1" for ch in p), 2)
                    want = int("0" + "".join("1" if ch == "1" else "0" for ch in p), 2)
                    hit = (v & care) == want
                    m = hit if m is False else sym.Or(m, hit)
                here = sym.And(en != 0, m, sym.Not(earlier)) if m is not False else False
                out = out | (ite(here, 1, 0) << k)
                earlier = sym.Or(earlier, m) if m is not False else earlier
            return out
        if isinstance(c, _nir.AssignmentList):
            w = len(c.default)
            cur = self.value(c.default)
            for a in c.assignments:
                cond = self.net(a.cond)
                lw = len(a.value)
                if a.start >= w:
                    continue
                lw_eff = min(lw, w - a.start)
                if lw_eff <= 0:
                    continue
                v = self.value(a.value) & mask(lw_eff)
                upd = (cur & ~(mask(lw_eff) << a.start)) | (v << a.start)
                cur = ite(cond != 0, upd, cur)
            return cur
        if isinstance(c, _nir.FlipFlop):
            return self.state[idx]
        if isinstance(c, _nir.AsyncReadPort):
            rows = self.state[c.memory]
            a = self.value(c.addr)
            res = 0
            for i in reversed(range(len(rows))):
                res = ite(a == i, rows[i] & mask(c.width), res)
            return res
        if isinstance(c, _nir.SyncReadPort):
            return self.state[idx]
        if isinstance(c, _nir.IOBuffer):
            # input side: the pad value; while the buffer drives the pad, the pad shows the driven value
            w = len(c.port)
            ext = self.io_inputs.get(idx, 0)
            if c.dir is _nir.IODirection.Input:
                return ext
            oe = self.net(c.oe)
            o = self.value(c.o)
            return ite(oe != 0, o, ext)
        if isinstance(c, (_nir.Initial,)):
            return self.state.get(idx, 0)
        if isinstance(c, (_nir.AnyValue, _nir.Instance)):
            return self.state.get(idx, 0)
        raise NotImplementedError(type(c).__name__)

    def _operator(self, c):
        op = c.operator
        w = c.width
        ins = c.inputs
        if len(ins) == 1:
            a = self.value(ins[0])
            if op == "-":
                return (-a) & mask(w)
            if op == "~":
                return (~a) & mask(w)
            if op in ("b", "r|"):
                return ite(a != 0, 1, 0)
            if op == "r&":
                return ite(a == mask(len(ins[0])), 1, 0)
            if op == "r^":
                return (popcount(a) % 2) if is_sym(a) else bin(a).count("1") % 2
        elif len(ins) == 2:
            a, b = self.value(ins[0]), self.value(ins[1])
            sa, sb = (self.svalue(ins[0]), self.svalue(ins[1])) if op[0] == "s" else (a, b)
            if op == "+":
                return (a + b) & mask(w)
            if op == "-":
                return (a - b) & mask(w)
            if op == "*":
                return (a * b) & mask(w)
            if op == "&":
                return a & b
            if op == "|":
                return a | b
            if op == "^":
                return a ^ b
            if op == "u//":
                return ite(b == 0, 0, a // ite(b == 0, 1, b)) & mask(w)
            if op == "s//":
                return ite(sb == 0, 0, sa // ite(sb == 0, 1, sb)) & mask(w)
            if op == "u%":
                return ite(b == 0, 0, a % ite(b == 0, 1, b)) & mask(w)
            if op == "s%":
                return ite(sb == 0, 0, sa % ite(sb == 0, 1, sb)) & mask(w)
            if op == "<<":
                return (a << b) & mask(w)
            if op == "u>>":
                return (a >> b) & mask(w)
            if op == "s>>":
                return (self.svalue(ins[0]) >> b) & mask(w)
            if op == "==":
                return ite(a == b, 1, 0)
            if op == "!=":
                return ite(a != b, 1, 0)
            cmpv = {"u<": a < b, "u>": a > b, "u<=": a <= b, "u>=": a >= b}
            if op in cmpv:
                return ite(cmpv[op], 1, 0)
            cmps = {"s<": lambda: sa < sb, "s>": lambda: sa > sb, "s<=": lambda: sa <= sb, "s>=": lambda: sa >= sb}
            if op in cmps:
                return ite(cmps[op](), 1, 0)
        elif len(ins) == 3 and op == "m":
            s = self.value(ins[0])
            return ite(s != 0, self.value(ins[1]), self.value(ins[2]))
        raise NotImplementedError(f"NIR operator {op!r}/{len(ins)}")

    # --- sequential step
    def next_state(self, edges):
        """`edges`: dict net -> new level for the clock nets that have an edge now.  Asynchronous resets are
        level-sensitive: a flip-flop whose arst net is high holds init."""
        from amaranth.hdl import _nir
        new = {}
        # memories first need all write ports
        for idx, c in enumerate(self.n.cells):
            if isinstance(c, _nir.FlipFlop):
                lvl = edges.get(self.n.resolve_net(c.clk) if c.clk < 0 else c.clk)
                active = lvl is not None and lvl == (1 if c.clk_edge == "pos" else 0)
                cur = self.state[idx]
                nxt = self.value(c.data) if active else cur
                arst = self.net(c.arst)
                new[idx] = ite(arst != 0, c.init, nxt) if arst is not 0 else nxt
            elif isinstance(c, _nir.Memory):
                new[idx] = list(self.state[idx])
        for idx, c in enumerate(self.n.cells):
            if isinstance(c, _nir.SyncWritePort):
                lvl = edges.get(c.clk)
                if lvl is None or lvl != (1 if c.clk_edge == "pos" else 0):
                    continue
                rows = new[c.memory]
                a, dval, en = self.value(c.addr), self.value(c.data), self.value(c.en)
                for i in range(len(rows)):
                    rows[i] = ite(a == i, (rows[i] & ~en) | (dval & en), rows[i])
        for idx, c in enumerate(self.n.cells):
            if isinstance(c, _nir.SyncReadPort):
                lvl = edges.get(c.clk)
                cur = self.state[idx]
                if lvl is None or lvl != (1 if c.clk_edge == "pos" else 0):
                    new[idx] = cur
                    continue
                rows = self.state[c.memory]
                a = self.value(c.addr)
                cap = 0
                for i in reversed(range(len(rows))):
                    cap = ite(a == i, rows[i] & mask(c.width), cap)
                for wp_idx in c.transparent_for:
                    wp = self.n.cells[wp_idx]
                    wa, wd, we = self.value(wp.addr), self.value(wp.data), self.value(wp.en)
                    cap = ite(wa == a, (cap & ~we) | (wd & we), cap)
                new[idx] = ite(self.net(c.en) != 0, cap, cur)
        return new
