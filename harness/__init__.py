"""Amaranth-specific harness code: capture of the code the simulator generates, symbolic slot
proxies, kernel composition (DESIGN.md 3B / 3C)."""
