"""Staging: run the real simulator code generators and get hold of the code they generate.

Nothing under $VERIF_REPO is edited.  `amaranth.sim._pyrtl` looks up `compile` as a module global
(falling through to the builtin); binding a recording wrapper there makes every piece of generated
source text available, and the `run()` function object that `_FragmentCompiler` builds is the very
function the simulator would call -- it closes over `slots`, which here are the proxy objects of
this module, so running it with symbolic `curr`/`next` values *is* symbolic execution of the
generated code by CPython.

Slot proxies implement the *contracts* of `_PySignalState` / `_PyMemoryState` (`update`, `read`,
`write`), not their bodies: the bodies are verified against the same contracts separately
(checks for C08 / C11), so a caller is checked against the callee's contract.
"""
import builtins
import hashlib

from pyvc.sym import SInt, SBool, ite, to_sint, is_sym
from pyvc import sym


class SigSlot:
    """Contract view of _PySignalState: `curr`, `next`, `update(value, mask=~0)`."""
    def __init__(self, signal, index):
        self.signal = signal
        self.index = index
        self.is_comb = False
        self.curr = signal.init
        self.next = signal.init
        self.updates = []
        self.wakers = []

    def update(self, value, mask=~0):
        # contract of _PySignalState.update:  next' == (next & ~mask) | (value & mask)
        self.updates.append((value, mask))
        self.next = (self.next & ~mask) | (value & mask)

    def add_waker(self, waker):
        self.wakers.append(waker)


class MemSlot:
    """Contract view of _PyMemoryState: rows are `data[i]` (symbolic), `read`, `write`."""
    def __init__(self, memory, index):
        from amaranth.hdl import Shape
        self.memory = memory
        self.index = index
        self.shape = Shape.cast(memory.shape)
        self.depth = memory.depth
        self.data = list(memory._init._raw)
        self.writes = []             # (addr, value, mask) in program order
        self.wakers = []

    def read(self, addr):
        # contract: the committed row if 0 <= addr < depth, else 0
        res = 0
        for i in reversed(range(self.depth)):
            res = ite(addr == i, self.data[i], res)
        return res

    def write(self, addr, value, mask=None):
        self.writes.append((addr, value, mask))

    def add_waker(self, waker):
        self.wakers.append(waker)

    def committed(self):
        """Rows after commit, per the contract of write/commit: writes are applied in program
        order to a queue initialised from the committed row; out-of-range writes are ignored;
        signed rows are re-normalised."""
        from spec.sem import norm
        rows = list(self.data)
        w, s = self.shape.width, self.shape.signed
        for (addr, value, mask) in self.writes:
            for i in range(self.depth):
                if mask is None:
                    nv = value
                else:
                    nv = (value & mask) | (rows[i] & ~mask)
                if s:
                    nv = norm(nv, w, True)
                rows[i] = ite(addr == i, nv, rows[i])
        return rows


class StageState:
    """Stands in for _PyEngineState towards the compilers (same interface, BaseEngineState)."""
    def __init__(self):
        from amaranth.hdl._ast import SignalDict
        self.signals = SignalDict()
        self.memories = {}
        self.slots = []
        self.signal_wakers = []      # (signal, waker)
        self.memory_wakers = []

    def get_signal(self, signal):
        try:
            return self.signals[signal]
        except KeyError:
            index = len(self.slots)
            self.slots.append(SigSlot(signal, index))
            self.signals[signal] = index
            return index

    def get_memory(self, memory):
        try:
            return self.memories[memory]
        except KeyError:
            index = len(self.slots)
            self.slots.append(MemSlot(memory, index))
            self.memories[memory] = index
            return index

    def add_signal_waker(self, signal, waker):
        self.slots[self.get_signal(signal)].add_waker(waker)
        self.signal_wakers.append((signal, waker))

    def add_memory_waker(self, memory, waker):
        self.slots[self.get_memory(memory)].add_waker(waker)
        self.memory_wakers.append((memory, waker))

    def slot(self, signal):
        return self.slots[self.get_signal(signal)]


class Captured:
    def __init__(self):
        self.sources = []       # generated source texts, in order

    def digest(self):
        h = hashlib.sha256()
        for s in self.sources:
            h.update(s.encode())
        return h.hexdigest()[:16]


class capture:
    """Context manager: records every source text handed to compile() by amaranth.sim._pyrtl."""
    def __enter__(self):
        from amaranth.sim import _pyrtl
        self.mod = _pyrtl
        self.cap = Captured()
        cap = self.cap

        def recording_compile(source, filename, mode, *args, **kwargs):
            if isinstance(source, str) and mode == "exec" and not source.startswith("\n"):
                cap.sources.append(source)
            return builtins.compile(source, filename, mode, *args, **kwargs)
        self.had = "compile" in _pyrtl.__dict__
        self.old = _pyrtl.__dict__.get("compile")
        _pyrtl.compile = recording_compile
        return cap

    def __exit__(self, *exc):
        if self.had:
            self.mod.compile = self.old
        else:
            del self.mod.compile
        return False


def compile_fragment(fragment, state=None):
    """Runs the real _FragmentCompiler on an (already prepared) fragment.  Returns
    (state, processes, captured)."""
    from amaranth.sim._pyrtl import _FragmentCompiler
    state = state or StageState()
    with capture() as cap:
        processes = _FragmentCompiler(state)(fragment)
    return state, list(processes), cap


def compile_rhs(value, state=None, mode="curr"):
    """Runs the real _RHSValueCompiler on one value; returns (state, source text).  The text ends
    in an assignment to `result`."""
    from amaranth.sim._pyrtl import _RHSValueCompiler
    state = state or StageState()
    code = _RHSValueCompiler.compile(state, value, mode=mode)
    return state, code


def exec_env(state, **extra):
    """The globals the simulator gives generated code (see _FragmentCompiler.__call__)."""
    from amaranth.sim._pyrtl import _ValueCompiler, _StatementCompiler
    env = {"slots": state.slots, **_ValueCompiler.helpers, **_StatementCompiler.helpers}
    env.update(extra)
    return env


def elaborate(elaboratable):
    """The elaboration pipeline the simulator itself uses (sim/core.py Simulator.__init__)."""
    from amaranth.hdl._ir import Fragment
    return Fragment.get(elaboratable, platform=None).prepare()


def compile_design(elaboratable):
    """Elaborate + compile like PySimEngine.__init__.  Returns (design, state, procs) where procs
    is a list of (process, source_text) in generation order."""
    import types
    from amaranth.sim._pyrtl import _FragmentCompiler
    from amaranth.hdl import _ir
    design = elaboratable if isinstance(elaboratable, _ir.Design) else elaborate(elaboratable)
    state = StageState()
    codes = []
    from amaranth.sim import _pyrtl

    def recording_compile(source, filename, mode, *args, **kwargs):
        code = builtins.compile(source, filename, mode, *args, **kwargs)
        if isinstance(source, str) and source.startswith("def run():"):
            codes.append((source, code))
        return code
    had = "compile" in _pyrtl.__dict__
    old = _pyrtl.__dict__.get("compile")
    _pyrtl.compile = recording_compile
    try:
        processes = _FragmentCompiler(state)(design.fragment)
    finally:
        if had:
            _pyrtl.compile = old
        else:
            del _pyrtl.compile
    procs = []
    for source, code in codes:
        fcodes = [c for c in code.co_consts if isinstance(c, types.CodeType)]
        for p in processes:
            if p.run.__code__ in fcodes:
                procs.append((p, source))
                break
        else:
            raise AssertionError("generated code without a process")
    assert len(procs) == len(processes)
    return design, state, procs
