"""A reader for the RTLIL text `amaranth.back.rtlil` emits (grammar per the Yosys manual, "RTLIL text
representation": modules, wires, memories, cells with parameters and connections, processes with
nested switch/case/assign, module-level connect).  Strict: anything it does not recognise raises
`RTLILSyntaxError`, which C07 reports as "does not parse".
"""
import re


class RTLILSyntaxError(Exception):
    pass


_TOK = re.compile(r"""
    \s*(
      \{ | \} |
      \[\s*\d+\s*(?::\s*\d+\s*)?\] |
      \d+'[01xz\-m]* |
      "(?:[^"\\]|\\.)*" |
      [\\$][^\s]+ |
      -?\d+ |
      ,
    )""", re.X)


def tokenize(text):
    pos, out = 0, []
    text = text.strip()
    while pos < len(text):
        m = _TOK.match(text, pos)
        if not m:
            raise RTLILSyntaxError(f"cannot tokenize {text[pos:pos + 40]!r}")
        out.append(m.group(1))
        pos = m.end()
    return out


class Const:
    def __init__(self, bits):          # string MSB first over 0/1/x
        self.bits = bits

    def __len__(self):
        return len(self.bits)

    def __repr__(self):
        return f"{len(self.bits)}'{self.bits}"

    @property
    def value(self):
        return int(self.bits.replace("x", "0").replace("z", "0") or "0", 2)


class Ref:
    def __init__(self, name, lo=None, hi=None):
        self.name, self.lo, self.hi = name, lo, hi      # lo/hi inclusive, None = whole wire

    def __repr__(self):
        return f"{self.name}[{self.hi}:{self.lo}]" if self.lo is not None else self.name


class Concat:
    def __init__(self, parts):          # MSB first, as written
        self.parts = parts

    def __repr__(self):
        return "{" + " ".join(map(repr, self.parts)) + "}"


def parse_sigspec(tokens, i=0):
    """Parses one sigspec starting at tokens[i]; returns (sigspec, next index)."""
    if i >= len(tokens):
        raise RTLILSyntaxError("missing sigspec")
    t = tokens[i]
    if t == "{":
        parts = []
        i += 1
        while True:
            if i >= len(tokens):
                raise RTLILSyntaxError("unterminated { }")
            if tokens[i] == "}":
                return Concat(parts), i + 1
            p, i = parse_sigspec(tokens, i)
            parts.append(p)
    if re.fullmatch(r"\d+'[01xz\-m]*", t):
        n, bits = t.split("'")
        if int(n) == 0 and bits == "0":
            bits = ""
        if int(n) != len(bits):
            raise RTLILSyntaxError(f"constant {t} has {len(bits)} digits")
        return Const(bits), i + 1
    if re.fullmatch(r"-?\d+", t):
        v = int(t)
        return Const(format(v & 0xffffffff, "032b")), i + 1
    if t[0] in "\\$":
        if i + 1 < len(tokens) and tokens[i + 1].startswith("["):
            m = re.fullmatch(r"\[\s*(\d+)\s*(?::\s*(\d+)\s*)?\]", tokens[i + 1])
            hi = int(m.group(1))
            lo = int(m.group(2)) if m.group(2) is not None else hi
            if lo > hi:
                raise RTLILSyntaxError(f"reversed slice {t} {tokens[i + 1]}")
            return Ref(t, lo, hi), i + 2
        return Ref(t), i + 1
    raise RTLILSyntaxError(f"unexpected token {t!r} in sigspec")


class Wire:
    def __init__(self, name, width, port_kind=None, port_id=None, signed=False):
        self.name, self.width, self.port_kind, self.port_id, self.signed = name, width, port_kind, port_id, signed
        self.attrs = {}


class Cell:
    def __init__(self, kind, name):
        self.kind, self.name = kind, name
        self.params, self.ports, self.attrs = {}, {}, {}
        self.param_signed = {}


class Memory:
    def __init__(self, name, width, size):
        self.name, self.width, self.size = name, width, size
        self.attrs = {}


class Assign:
    def __init__(self, lhs, rhs):
        self.lhs, self.rhs = lhs, rhs


class Switch:
    def __init__(self, sel):
        self.sel = sel
        self.cases = []          # (patterns list of str | [] for default, contents)


class Process:
    def __init__(self, name):
        self.name = name
        self.contents = []
        self.attrs = {}


class Module:
    def __init__(self, name):
        self.name = name
        self.wires, self.cells, self.memories, self.processes = {}, {}, {}, {}
        self.connects = []
        self.attrs = {}
        self.order = []


def _param_value(tokens):
    if len(tokens) != 1:
        raise RTLILSyntaxError(f"parameter value {tokens}")
    t = tokens[0]
    if t.startswith('"'):
        return bytes(t[1:-1], "utf-8").decode("unicode_escape")
    if "'" in t:
        n, bits = t.split("'")
        if int(n) == 0 and bits == "0":
            bits = ""        # the emitter writes a zero-width constant as 0'0; Yosys truncates to the width
        if int(n) != len(bits):
            raise RTLILSyntaxError(f"constant {t}")
        return Const(bits)
    return int(t)


def parse(text):
    modules = {}
    lines = text.splitlines()
    i = 0
    pending_attrs = {}
    cur = None

    def parse_block(end_kw="end"):
        """process / case contents until the matching `end` or next `case`; returns (items, stop line)"""
        nonlocal i
        items = []
        while True:
            if i >= len(lines):
                raise RTLILSyntaxError("unexpected end of file in process")
            ln = lines[i].strip()
            if not ln:
                i += 1
                continue
            if ln.startswith("assign "):
                toks = tokenize(ln[len("assign "):])
                lhs, j = parse_sigspec(toks, 0)
                rhs, j = parse_sigspec(toks, j)
                if j != len(toks):
                    raise RTLILSyntaxError(f"trailing tokens in {ln!r}")
                items.append(Assign(lhs, rhs))
                i += 1
            elif ln.startswith("switch "):
                toks = tokenize(ln[len("switch "):])
                sel, j = parse_sigspec(toks, 0)
                if j != len(toks):
                    raise RTLILSyntaxError(f"trailing tokens in {ln!r}")
                sw = Switch(sel)
                i += 1
                while True:
                    ln2 = lines[i].strip()
                    if not ln2:
                        i += 1
                        continue
                    if ln2 == "end":
                        i += 1
                        break
                    if ln2 == "case" or ln2.startswith("case "):
                        pats = []
                        rest = ln2[4:].strip()
                        if rest:
                            for p in rest.split(","):
                                p = p.strip()
                                m = re.fullmatch(r"(\d+)'([01\-]*)", p)
                                if not m or int(m.group(1)) != len(m.group(2)):
                                    raise RTLILSyntaxError(f"bad case pattern {p!r}")
                                pats.append(m.group(2))
                        i += 1
                        body = parse_block()
                        sw.cases.append((pats, body))
                    else:
                        raise RTLILSyntaxError(f"unexpected {ln2!r} in switch")
                items.append(sw)
            elif ln == "end" or ln == "case" or ln.startswith("case "):
                return items
            else:
                raise RTLILSyntaxError(f"unexpected {ln!r} in process")

    while i < len(lines):
        ln = lines[i].strip()
        if not ln or ln.startswith("#"):
            i += 1
            continue
        if ln.startswith("attribute "):
            m = re.fullmatch(r"attribute (\\\S+) (.*)", ln)
            if not m:
                raise RTLILSyntaxError(ln)
            pending_attrs[m.group(1)] = m.group(2)
            i += 1
            continue
        if ln.startswith("module "):
            name = ln.split(None, 1)[1]
            if name in modules:
                raise RTLILSyntaxError(f"duplicate module {name}")
            cur = Module(name)
            cur.attrs, pending_attrs = pending_attrs, {}
            modules[name] = cur
            i += 1
            continue
        if cur is None:
            raise RTLILSyntaxError(f"{ln!r} outside a module")
        if ln == "end":
            cur = None
            i += 1
            continue
        if ln.startswith("wire "):
            toks = ln.split()
            name = toks[-1]
            opts = toks[1:-1]
            w = Wire(name, 1)
            k = 0
            while k < len(opts):
                if opts[k] == "width":
                    w.width = int(opts[k + 1]); k += 2
                elif opts[k] in ("input", "output", "inout"):
                    w.port_kind, w.port_id = opts[k], int(opts[k + 1]); k += 2
                elif opts[k] == "signed":
                    w.signed = True; k += 1
                else:
                    raise RTLILSyntaxError(f"wire option {opts[k]!r}")
            w.attrs, pending_attrs = pending_attrs, {}
            if name in cur.wires or name in cur.cells or name in cur.memories or name in cur.processes:
                raise RTLILSyntaxError(f"duplicate name {name} in {cur.name}")
            cur.wires[name] = w
            cur.order.append(w)
            i += 1
            continue
        if ln.startswith("memory "):
            m = re.fullmatch(r"memory width (\d+) size (\d+) (\S+)", ln)
            if not m:
                raise RTLILSyntaxError(ln)
            mem = Memory(m.group(3), int(m.group(1)), int(m.group(2)))
            mem.attrs, pending_attrs = pending_attrs, {}
            if mem.name in cur.wires or mem.name in cur.cells or mem.name in cur.memories:
                raise RTLILSyntaxError(f"duplicate name {mem.name}")
            cur.memories[mem.name] = mem
            i += 1
            continue
        if ln.startswith("cell "):
            _, kind, name = ln.split()
            c = Cell(kind, name)
            c.attrs, pending_attrs = pending_attrs, {}
            if name in cur.wires or name in cur.cells or name in cur.memories or name in cur.processes:
                raise RTLILSyntaxError(f"duplicate name {name} in {cur.name}")
            i += 1
            while True:
                l2 = lines[i].strip()
                i += 1
                if not l2:
                    continue
                if l2 == "end":
                    break
                if l2.startswith("parameter "):
                    toks = tokenize(l2[len("parameter "):]) if False else l2.split(None)
                    rest = l2[len("parameter "):]
                    sgn = False
                    if rest.startswith("signed "):
                        sgn, rest = True, rest[len("signed "):]
                    if rest.startswith("real "):
                        rest = rest[len("real "):]
                    pname, pval = rest.split(None, 1)
                    if pname in c.params:
                        raise RTLILSyntaxError(f"duplicate parameter {pname}")
                    c.params[pname] = _param_value(tokenize(pval))
                    c.param_signed[pname] = sgn
                elif l2.startswith("connect "):
                    rest = l2[len("connect "):]
                    pname, spec = rest.split(None, 1) if " " in rest else (rest, "")
                    toks = tokenize(spec)
                    sig, j = parse_sigspec(toks, 0)
                    if j != len(toks):
                        raise RTLILSyntaxError(f"trailing tokens in {l2!r}")
                    if pname in c.ports:
                        raise RTLILSyntaxError(f"duplicate port {pname}")
                    c.ports[pname] = sig
                else:
                    raise RTLILSyntaxError(f"unexpected {l2!r} in cell")
            cur.cells[name] = c
            cur.order.append(c)
            continue
        if ln.startswith("process "):
            p = Process(ln.split()[1])
            p.attrs, pending_attrs = pending_attrs, {}
            i += 1
            p.contents = parse_block()
            if lines[i].strip() != "end":
                raise RTLILSyntaxError(f"process not closed: {lines[i]!r}")
            i += 1
            cur.processes[p.name] = p
            cur.order.append(p)
            continue
        if ln.startswith("connect "):
            toks = tokenize(ln[len("connect "):])
            lhs, j = parse_sigspec(toks, 0)
            rhs, j = parse_sigspec(toks, j)
            if j != len(toks):
                raise RTLILSyntaxError(f"trailing tokens in {ln!r}")
            cur.connects.append((lhs, rhs))
            i += 1
            continue
        raise RTLILSyntaxError(f"unexpected line {ln!r}")
    if cur is not None:
        raise RTLILSyntaxError("module not closed")
    return modules


def width_of(sig, module):
    if isinstance(sig, Const):
        return len(sig)
    if isinstance(sig, Ref):
        if sig.name not in module.wires:
            raise KeyError(sig.name)
        if sig.lo is None:
            return module.wires[sig.name].width
        if sig.hi >= module.wires[sig.name].width:
            raise IndexError(f"{sig!r} out of bounds for wire of width {module.wires[sig.name].width}")
        return sig.hi - sig.lo + 1
    if isinstance(sig, Concat):
        return sum(width_of(p, module) for p in sig.parts)
    raise TypeError(sig)


def bits_of(sig, module):
    """LSB-first list of ('const', '0'/'1'/'x') or (wire name, bit index)."""
    if isinstance(sig, Const):
        return [("const", b) for b in reversed(sig.bits)]
    if isinstance(sig, Ref):
        w = module.wires[sig.name].width
        lo, hi = (0, w - 1) if sig.lo is None else (sig.lo, sig.hi)
        return [(sig.name, k) for k in range(lo, hi + 1)]
    if isinstance(sig, Concat):
        out = []
        for p in reversed(sig.parts):
            out.extend(bits_of(p, module))
        return out
    raise TypeError(sig)
