"""Concrete runs of the real simulator (used only for replaying counterexamples and for the
CPython cross-checks; never as the deciding step of a proof-level claim)."""
import itertools


def comb_table(module, inputs, outputs, assignments):
    """Simulate `module` with the real Simulator; for each assignment (tuple of ints, one per
    input signal) return the tuple of output values observed after settling."""
    from amaranth.sim import Simulator
    sim = Simulator(module)
    rows = []

    async def tb(ctx):
        for vals in assignments:
            for sig, v in zip(inputs, vals):
                ctx.set(sig, v)
            rows.append(tuple(ctx.get(o) for o in outputs))
    sim.add_testbench(tb)
    sim.run()
    return rows


def all_values(shape):
    from amaranth.hdl import Shape
    sh = Shape.cast(shape)
    if sh.signed and sh.width > 0:
        return range(-(1 << (sh.width - 1)), 1 << (sh.width - 1))
    return range(0, 1 << sh.width)


def product_values(signals, limit=200000):
    spaces = [list(all_values(s.shape())) for s in signals]
    total = 1
    for sp in spaces:
        total *= len(sp)
    if total > limit:
        return None
    return itertools.product(*spaces)
