"""Layer C: clocked designs as data structures (DESIGN.md 3C).

A `Design` elaborates a component with the real `Fragment.get(...).prepare()` and lets the real
`_FragmentCompiler` generate the `run()` bodies; those bodies are the operation bodies.  This
module composes them into clock events following the simulator kernel's two-phase discipline
(`PySimEngine.step_design`): processes read `curr` and write `next` through `update`; commit makes
`next` current and applies queued memory writes; combinational processes are then re-run until
nothing changes.  The fixed point is not assumed: after `rounds` rounds a *convergence certificate*
(one more round changes nothing) is emitted as an obligation.

The composition itself (which processes a clock edge wakes, the order of phases) is the trusted
part; the waker sets are read off the real `add_signal_waker` calls.
"""
import random

from pyvc.sym import SInt, to_sint, ite, And, Or, is_sym
from spec.sem import shape_range, norm
from . import capture


class Design:
    def __init__(self, elaboratable):
        self.design, self.state, self.procs = capture.compile_design(elaboratable)
        self.comb = [p for p, _src in self.procs if p.is_comb]
        self.sync = [p for p, _src in self.procs if not p.is_comb]
        self.sources = {id(p): src for p, src in self.procs}
        # process -> [(signal, polarity)] from the edge wakers the compiler registered
        self.wakes = {id(p): [] for p in self.sync}
        for sig, waker in self.state.signal_wakers:
            fv = waker.__code__.co_freevars
            if "polarity" in fv:
                cells = dict(zip(fv, (c.cell_contents for c in waker.__closure__)))
                self.wakes[id(cells["process"])].append((sig, cells["polarity"]))
        self.sig_slots = [s for s in self.state.slots if isinstance(s, capture.SigSlot)]
        self.mem_slots = [s for s in self.state.slots if isinstance(s, capture.MemSlot)]
        self._rounds = None

    # --- access
    def slot(self, signal):
        return self.state.slots[self.state.get_signal(signal)]

    def register(self, *signals):
        """Make sure the given (possibly unused) interface signals have slots."""
        for s in signals:
            self.state.get_signal(s)
        self.sig_slots = [s for s in self.state.slots if isinstance(s, capture.SigSlot)]

    def val(self, signal):
        return self.slot(signal).curr

    def set(self, signal, value):
        sl = self.slot(signal)
        sl.curr = value
        sl.next = value

    def mem(self, index=0):
        return self.mem_slots[index]

    def comb_driven(self):
        return [s for s in self.sig_slots if s.is_comb]

    # --- symbolic / concrete state
    def fresh(self, path, prefix="s"):
        """Every signal gets a fresh canonical value (curr == next); every memory row too."""
        vals = {}
        for k, sl in enumerate(self.state.slots):
            if isinstance(sl, capture.SigSlot):
                sh = sl.signal.shape()
                lo, hi = shape_range(sh.width, sh.signed)
                v = path.var(f"{prefix}{k}_{sl.signal.name}", lo, hi)
                sl.curr = sl.next = v
                sl.updates = []
                vals[k] = v
            else:
                lo, hi = shape_range(sl.shape.width, sl.shape.signed)
                sl.data = [path.var(f"{prefix}{k}_row{i}", lo, hi) for i in range(sl.depth)]
                sl.writes = []
        return vals

    def reset_state(self):
        """The initial state of the simulation (init values everywhere)."""
        for sl in self.state.slots:
            if isinstance(sl, capture.SigSlot):
                sl.curr = sl.next = sl.signal.init
                sl.updates = []
            else:
                sl.data = list(sl.memory._init._raw)
                sl.writes = []

    def randomize(self, rnd):
        for sl in self.state.slots:
            if isinstance(sl, capture.SigSlot):
                sh = sl.signal.shape()
                lo, hi = shape_range(sh.width, sh.signed)
                sl.curr = sl.next = rnd.randint(lo, hi)
            else:
                lo, hi = shape_range(sl.shape.width, sl.shape.signed)
                sl.data = [rnd.randint(lo, hi) for _ in range(sl.depth)]
                sl.writes = []

    # --- kernel phases
    def commit(self):
        changed = False
        for sl in self.sig_slots:
            if not is_sym(sl.curr) and not is_sym(sl.next):
                if sl.curr != sl.next:
                    changed = True
            else:
                changed = True
            sl.curr = sl.next
        for ms in self.mem_slots:
            if ms.writes:
                ms.data = ms.committed()
                ms.writes = []
                changed = True
        return changed

    def rounds(self):
        """Number of comb rounds after which random concrete states are stable (+1); the symbolic
        convergence certificate then proves it for all states."""
        if self._rounds is None:
            rnd = random.Random(1)
            worst = 0
            saved = [(sl.curr, sl.next) if isinstance(sl, capture.SigSlot) else (list(sl.data), list(sl.writes))
                     for sl in self.state.slots]
            for _ in range(12):
                self.randomize(rnd)
                for r in range(1, 40):
                    for p in self.comb:
                        p.run()
                    if not self.commit():
                        break
                worst = max(worst, r)
            for sl, sv in zip(self.state.slots, saved):
                if isinstance(sl, capture.SigSlot):
                    sl.curr, sl.next = sv
                else:
                    sl.data, sl.writes = sv
            self._rounds = min(worst, 30)
        return self._rounds

    def settle(self, path=None, name=None):
        """Run the combinational processes to their fixed point.  With `path`, emits the convergence
        certificate `name::comb-converged`."""
        for _ in range(self.rounds()):
            for p in self.comb:
                p.run()
            self.commit()
        if path is not None:
            for p in self.comb:
                p.run()
            conds = [to_sint(sl.next) == to_sint(sl.curr) for sl in self.sig_slots
                     if is_sym(sl.next) or is_sym(sl.curr) or sl.next != sl.curr]
            path.prove(f"{name}::comb-converged", And(*conds) if conds else True)
            for sl in self.sig_slots:
                sl.next = sl.curr

    def _triggers(self):
        sigs = []
        for p in self.sync:
            for sgn, _pol in self.wakes[id(p)]:
                if not any(sgn is t for t in sigs):
                    sigs.append(sgn)
        return sigs

    def apply(self, inputs, path=None, name=None, max_deltas=64):
        """The kernel's delta-cycle loop (PySimEngine.step_design) after a testbench / clock process
        has written `inputs` (list of (signal, value)):

            commit of the written signals  -> edge wakers of those that changed to their polarity fire
            repeat: run every runnable process once (all read `curr`, write `next`); commit; edge wakers
                    of the signals that changed fire

        Combinational processes are re-run in every delta (they are functions of `curr`, so running one
        whose inputs did not change is a no-op); clock / reset signals must have concrete values so that
        "changed to polarity" is decidable.  The loop ends when no clocked process is runnable and the
        combinational network has had `rounds()` quiet deltas; the convergence certificate is then
        emitted (with `path`)."""
        from pyvc.sym import Unsupported
        trig = self._triggers()

        def snap():
            out = []
            for t in trig:
                v = self.slot(t).curr
                if is_sym(v):
                    if getattr(v, "is_const", False):
                        v = v.lo
                    elif path is not None:
                        # a derived clock / reset (driven combinationally): its value is decided by the path
                        # condition; case-split on the feasible values (usually exactly one)
                        sl = self.slot(t)
                        same = sl.next is sl.curr
                        v = path.concretize(to_sint(v))
                        sl.curr = v
                        if same:
                            sl.next = v
                    else:
                        raise Unsupported(f"clock/reset signal {t.name} has a symbolic value")
                out.append(int(v))
            return out

        def woken_by(before, after):
            w = []
            for t, b, a in zip(trig, before, after):
                if a != b:
                    for p in self.sync:
                        if any(s is t and pol == a for s, pol in self.wakes[id(p)]) and p not in w:
                            w.append(p)
            return w
        before = snap()
        for sig, v in inputs:
            self.set(sig, v)
        runnable = woken_by(before, snap())
        all_woken = list(runnable)
        quiet = 0
        need = self.rounds()
        for _delta in range(max_deltas):
            for p in self.comb:
                p.run()
            for p in runnable:
                p.run()
            before = snap()
            self.commit()
            runnable = woken_by(before, snap())
            for p in runnable:
                if p not in all_woken:
                    all_woken.append(p)
            quiet = 0 if runnable else quiet + 1
            if quiet >= need:
                break
        else:
            raise Unsupported("design does not quiesce")
        if path is not None:
            for p in self.comb:
                p.run()
            conds = [to_sint(sl.next) == to_sint(sl.curr) for sl in self.sig_slots
                     if is_sym(sl.next) or is_sym(sl.curr) or sl.next != sl.curr]
            path.prove(f"{name}::comb-converged", And(*conds) if conds else True)
            for sl in self.sig_slots:
                sl.next = sl.curr
        return all_woken

    def edge(self, events, path=None, name=None):
        return self.apply(events, path, name)
