"""pyvc -- verification-condition generation for real Python code by exhaustive symbolic
execution with proxy values, discharged by z3 (cvc5 takes z3's unknowns).

See /verif/DESIGN.md, section 2.
"""
