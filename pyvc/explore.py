"""Exhaustive path exploration of real Python code over symbolic proxy values, and discharge of the
resulting verification conditions.

An *exploration* runs a callable `body(path)` once per feasible control-flow path.  Whenever the
code under verification needs the truth value of a symbolic condition, `Path.decide` is called:
it follows the recorded decision prefix, and beyond the prefix asks z3 which outcomes are
feasible under the assumptions and the path condition; if both are, it takes `True` and schedules
the `False` continuation for a later re-execution (deterministic replay of the prefix).  The
exploration terminates when the schedule is empty, so the set of paths is a complete partition of
the input space admitted by the assumptions -- nothing is sampled.

On each path the body registers *obligations* (`path.prove(name, cond)`); each is discharged by a
separate solver query `assumptions /\\ path-condition /\\ not cond` = unsat.
Verdicts: proved / refuted (with a model) / undecided (solver unknown or timeout).
"""
import time
import subprocess
import tempfile
import os
import z3

from . import sym
from .sym import SInt, SBool, Unsupported, _tobool
from . import uint as _uint

Z3_TIMEOUT_MS = int(os.environ.get("PYVC_Z3_TIMEOUT_MS", "20000"))
CVC5_TIMEOUT_S = int(os.environ.get("PYVC_CVC5_TIMEOUT_S", "40"))
MAX_PATHS = int(os.environ.get("PYVC_MAX_PATHS", "20000"))


class Obligation:
    __slots__ = ("name", "status", "backend", "time_s", "model", "path_index", "detail", "kind")

    def __init__(self, name, kind="post"):
        self.name = name
        self.kind = kind           # post | side | cover
        self.status = None         # proved | refuted | undecided
        self.backend = None
        self.time_s = 0.0
        self.model = None          # dict name -> int for refuted obligations
        self.path_index = None
        self.detail = None

    def as_dict(self):
        d = {"name": self.name, "kind": self.kind, "status": self.status, "backend": self.backend,
             "time_s": round(self.time_s, 4)}
        if self.model is not None:
            d["model"] = self.model
        if self.detail:
            d["detail"] = self.detail
        return d


class _PathAbort(Exception):
    """Internal: this path is infeasible."""


def _solve(constraints, timeout_ms=None):
    """Returns (verdict, model_or_None, backend, seconds); verdict in sat/unsat/unknown."""
    t0 = time.time()
    s = z3.Solver()
    s.set("timeout", timeout_ms or Z3_TIMEOUT_MS)
    s.add(*constraints)
    r = s.check()
    dt = time.time() - t0
    if r == z3.unsat:
        return "unsat", None, "z3", dt
    if r == z3.sat:
        return "sat", s.model(), "z3", dt
    # z3 gave up: hand the same query to cvc5
    try:
        smt2 = "(set-logic ALL)\n" + s.to_smt2()
        with tempfile.NamedTemporaryFile("w", suffix=".smt2", delete=False) as f:
            f.write(smt2)
            fn = f.name
        try:
            out = subprocess.run(["/usr/bin/cvc5", "--lang=smt2", f"--tlimit={CVC5_TIMEOUT_S * 1000}", fn],
                                 capture_output=True, text=True, timeout=CVC5_TIMEOUT_S + 5).stdout
        finally:
            os.unlink(fn)
        dt = time.time() - t0
        first = out.strip().splitlines()[0] if out.strip() else ""
        if first == "unsat":
            return "unsat", None, "cvc5", dt
        if first == "sat":
            return "sat", None, "cvc5", dt     # no model extraction from the CLI: replay by search
    except Exception:
        pass
    return "unknown", None, "z3+cvc5", time.time() - t0


class Path:
    def __init__(self, exploration, prefix, index):
        self.x = exploration
        self.prefix = prefix           # list of bools to follow
        self.taken = []                # decisions actually taken (bool, forced?)
        self.pc = []                   # z3 Bool terms
        self.index = index
        self.obligations = []          # (name, kind, z3 term) registered on this path
        self.notes = []

    # --- symbolic inputs (same names on every path => same z3 constants)
    def var(self, name, lo, hi):
        v = SInt.var(name, lo, hi)
        self.x._declare(name, v)
        rc = v.range_constraint()
        if not z3.is_true(rc):
            self.pc.append(rc)
        return v

    def uvar(self, name):
        """A fresh unbounded integer (tier U)."""
        v = _uint.UInt.var(name)
        self.x._declare(name, v)
        return v

    def boolvar(self, name):
        b = SBool(z3.Bool(name))
        self.x._declare(name, b)
        return b

    def assume(self, cond):
        """A precondition.  Recorded once per exploration (must be the same on every path)."""
        t = _tobool(cond)
        self.pc.append(t)
        if self.x._sat_check(self.pc) == "unsat":
            raise _PathAbort()

    # --- forking
    def decide(self, t):
        i = len(self.taken)
        if i < len(self.prefix):
            d = self.prefix[i]
            self.taken.append(d)
            self.pc.append(t if d else z3.Not(t))
            return d
        can_true = self.x._sat_check(self.pc + [t])
        can_false = self.x._sat_check(self.pc + [z3.Not(t)])
        if can_true == "unknown" or can_false == "unknown":
            # treat as feasible: exploring an infeasible path is sound (its obligations are
            # vacuous or provable), skipping a feasible one would not be
            can_true = "sat" if can_true != "unsat" else "unsat"
            can_false = "sat" if can_false != "unsat" else "unsat"
        if can_true == "sat" and can_false == "sat":
            self.x._schedule(self.prefix_of_taken() + [False])
            d = True
        elif can_true == "sat":
            d = True
        elif can_false == "sat":
            d = False
        else:
            raise _PathAbort()
        self.taken.append(d)
        self.pc.append(t if d else z3.Not(t))
        return d

    def prefix_of_taken(self):
        return list(self.taken)

    def concretize(self, v):
        n = v.hi - v.lo + 1
        if n > 4096:
            raise Unsupported(f"case split over {n} values")
        for k in range(v.lo, v.hi):
            if self.decide(z3.simplify((v == k).t)):
                return k
        # last value: still needs the constraint in the path condition
        self.decide(z3.simplify((v == v.hi).t))
        return v.hi

    # --- obligations
    def prove(self, name, cond):
        self.obligations.append((name, "post", z3.And(*self.pc) if self.pc else z3.BoolVal(True),
                                 _tobool(cond)))

    def side_obligation(self, name, cond):
        if self.x.collect_side:
            self.obligations.append((f"{self.x.name}::no {name}", "side",
                                     z3.And(*self.pc) if self.pc else z3.BoolVal(True), _tobool(cond)))

    def fail(self, name, detail=""):
        """An obligation that is violated on this whole path (e.g. an unexpected exception)."""
        self.obligations.append((name, "post", z3.And(*self.pc) if self.pc else z3.BoolVal(True),
                                 z3.BoolVal(False)))
        if detail:
            self.notes.append(detail)


class Exploration:
    """Runs `body(path)` over all feasible paths and discharges the registered obligations."""

    def __init__(self, name, body, collect_side=True, max_paths=None):
        self.name = name
        self.body = body
        self.collect_side = collect_side
        self.max_paths = max_paths or MAX_PATHS
        self.vars = {}
        self._todo = []
        self.paths = 0
        self.aborted_paths = 0
        self.results = []              # Obligation objects
        self.solver_time = 0.0
        self.unsupported = None
        self._cache = {}

    def _declare(self, name, v):
        self.vars[name] = v

    def _schedule(self, prefix):
        self._todo.append(prefix)

    def _sat_check(self, constraints):
        facts = _uint.LEMMAS.facts
        key = tuple(c.get_id() for c in constraints) + (len(facts),)
        r = self._cache.get(key)
        if r is None:
            r, _m, _b, dt = _solve(list(constraints) + list(facts), timeout_ms=5000)
            self.solver_time += dt
            self._cache[key] = r
        return r

    def run(self):
        self._todo = [[]]
        _uint.LEMMAS.reset()
        merged = {}                      # obligation name -> list of (pc, cond, path index)
        order = []
        while self._todo:
            prefix = self._todo.pop()
            if self.paths >= self.max_paths:
                self.unsupported = f"more than {self.max_paths} paths"
                break
            path = Path(self, prefix, self.paths)
            self.paths += 1
            sym._set_active(path)
            try:
                self.body(path)
            except _PathAbort:
                self.aborted_paths += 1
                continue
            except Unsupported as e:
                self.unsupported = f"unsupported: {e}"
                break
            finally:
                sym._set_active(None)
            for (name, kind, pc, cond) in path.obligations:
                if (name, kind) not in merged:
                    merged[(name, kind)] = []
                    order.append((name, kind))
                merged[(name, kind)].append((pc, cond, path.index))
        # one obligation per name: the conjunction over paths of (pc => cond); solved per path so
        # that every query stays small, and reported as one verdict
        for (name, kind) in order:
            ob = Obligation(name, kind)
            ob.status = "proved"
            backends = set()
            for (pc, cond, pidx) in merged[(name, kind)]:
                if z3.is_true(z3.simplify(cond)):
                    backends.add("simplifier")
                    continue
                verdict, model, backend, dt = _solve([pc, z3.Not(cond)] + list(_uint.LEMMAS.facts))
                self.solver_time += dt
                ob.time_s += dt
                backends.add(backend)
                if verdict == "sat":
                    ob.status = "refuted"
                    ob.path_index = pidx
                    ob.model = self._model_dict(model) if model is not None else None
                    break
                if verdict == "unknown":
                    ob.status = "undecided"
            ob.backend = "+".join(sorted(backends)) or "simplifier"
            self.results.append(ob)
        return self

    def _model_dict(self, model):
        out = {}
        for name, v in self.vars.items():
            out[name] = _uint.concrete(v, model)
        return out

    # --- summary helpers
    @property
    def ok(self):
        return self.unsupported is None and all(o.status == "proved" for o in self.results) \
            and len(self.results) > 0

    def refuted(self):
        return [o for o in self.results if o.status == "refuted"]

    def undecided(self):
        return [o for o in self.results if o.status == "undecided"]
