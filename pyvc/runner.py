"""Check driver: runs a property's tasks in a process pool, aggregates obligations, handles
canaries, known findings, replays, evidence and exit codes (DESIGN.md section 6).

Exit codes: 0 held; 1 violation (VIOLATION line printed); 2 undecided; 3 checker problem
(unsupported construct, crash, canary not refuted, self-test failure).
"""
import importlib
import json
import hashlib
import multiprocessing
import os
import signal
import sys
import time
import traceback

VERIF = os.path.dirname(os.path.dirname(os.path.abspath(__file__)))
TASK_TIMEOUT_S = int(os.environ.get("PYVC_TASK_TIMEOUT_S", "900"))


class TaskResult(dict):
    pass


def _run_one(arg):
    modname, task = arg
    t0 = time.time()
    mod = importlib.import_module(modname)

    def on_alarm(signum, frame):
        raise TimeoutError("task timeout")
    signal.signal(signal.SIGALRM, on_alarm)
    signal.alarm(TASK_TIMEOUT_S)
    try:
        res = guarded(repr(task)[:200], mod.run_task, task)
    except TimeoutError:
        res = {"task": repr(task), "obligations": [], "undecided": "task timeout"}
    except Exception:
        res = {"task": repr(task), "obligations": [], "crash": traceback.format_exc()}
    finally:
        signal.alarm(0)
    res["wall_s"] = round(time.time() - t0, 3)
    return res


def _from_code_under_test(tb):
    """True if the innermost frame of the traceback is in the repository under verification."""
    repo = os.path.realpath(os.environ.get("VERIF_REPO", "/repo")) + os.sep
    last = traceback.extract_tb(tb)[-1]
    return os.path.realpath(last.filename).startswith(repo)


def guarded(name, fn, *args, **kwargs):
    """Runs one unit of a task.  An exception raised *by the code under verification* on a legal
    input is an exception-safety violation (a refuted obligation whose failing input is the unit
    itself); an exception raised by the checker's own code is re-raised (checker crash)."""
    import sys as _sys
    from .sym import Unsupported
    try:
        return fn(*args, **kwargs)
    except (TimeoutError, Unsupported, MemoryError):
        raise
    except Exception as e:
        tb = _sys.exc_info()[2]
        if not _from_code_under_test(tb):
            raise
        text = traceback.format_exc()
        return {"task": name, "paths": 0, "solver_s": 0.0, "obligations": [{
            "name": f"{name}::no-exception", "kind": "post", "status": "refuted", "backend": "cpython",
            "time_s": 0.0, "model": {"exception": repr(e)},
            "failing_input": {"unit": name, "exception": repr(e), "traceback": text[-1500:],
                              "how": "the real code raised while building / compiling / running this legal design"}}]}


def from_exploration(task_id, x, extra=None):
    """Standard task result from a pyvc Exploration."""
    d = {"task": task_id, "paths": x.paths, "solver_s": round(x.solver_time, 4),
         "obligations": [o.as_dict() for o in x.results]}
    if x.unsupported:
        d["unsupported"] = x.unsupported
    if extra:
        d.update(extra)
    return d


def merge_results(task_id, parts, extra=None):
    d = {"task": task_id, "paths": 0, "solver_s": 0.0, "obligations": []}
    for p in parts:
        d["paths"] += p.get("paths", 0)
        d["solver_s"] += p.get("solver_s", 0.0)
        d["obligations"].extend(p["obligations"])
        for k in ("unsupported", "crash", "undecided"):
            if k in p:
                d[k] = p[k]
    if extra:
        d.update(extra)
    return d


def load_known_findings(prop):
    path = os.path.join(VERIF, "known_findings.json")
    if not os.path.exists(path):
        return []
    with open(path) as f:
        data = json.load(f)
    return [e for e in data.get("findings", []) if e.get("property") == prop]


def _match_finding(findings, task_id, obname):
    import re
    for f in findings:
        if re.fullmatch(f["task"], task_id) and re.fullmatch(f.get("obligation", ".*"), obname):
            return f
    return None


def write_replay(prop, task, ob, extra):
    os.makedirs(os.path.join(VERIF, "replays"), exist_ok=True)
    h = hashlib.sha256((repr(task) + ob["name"]).encode()).hexdigest()[:10]
    path = os.path.join(VERIF, "replays", f"{prop}-{h}.json")
    data = {"property": prop, "task": task, "obligation": ob["name"], "status": ob["status"],
            "backend": ob.get("backend"), "model": ob.get("model"), "solver_output": ob.get("detail")}
    data.update(extra or {})
    with open(path, "w") as f:
        json.dump(data, f, indent=1, default=repr)
    return path


def main(argv=None):
    argv = argv or sys.argv[1:]
    if argv and argv[0] == "replay":
        with open(argv[1]) as f:
            data = json.load(f)
        mod = importlib.import_module(f"checks.{data['property'].lower()}")
        still = mod.replay(data)
        print("replay:", "STILL FAILS" if still else "passes")
        return 1 if still else 0
    prop = argv[0]
    tier = os.environ.get("VERIF_TIER", "quick")
    if "--tier" in argv:
        tier = argv[argv.index("--tier") + 1]
    seed = int(os.environ.get("VERIF_SEED", "0"))
    jobs = int(os.environ.get("VERIF_JOBS", str(os.cpu_count() or 4)))
    t0 = time.time()
    if tier == "thorough":
        # larger solver and task budgets: a verdict must not flip to "undecided" because the machine is busy
        global TASK_TIMEOUT_S
        from . import explore as _explore
        if "PYVC_Z3_TIMEOUT_MS" not in os.environ:
            _explore.Z3_TIMEOUT_MS = 120000
        if "PYVC_CVC5_TIMEOUT_S" not in os.environ:
            _explore.CVC5_TIMEOUT_S = 180
        if "PYVC_TASK_TIMEOUT_S" not in os.environ:
            TASK_TIMEOUT_S = 5400

    import amaranth
    repo = os.environ.get("VERIF_REPO", "/repo")
    assert os.path.realpath(amaranth.__file__).startswith(os.path.realpath(repo) + os.sep), \
        f"amaranth imported from {amaranth.__file__}, not from {repo}"

    # encoding self-test (CPython cross-check of the symbolic integer encoding)
    from . import selftest
    try:
        n_self = selftest.run(seed=seed, rounds=12)
    except AssertionError as e:
        print(f"CHECKER-ERROR property={prop} encoding self-test failed: {e}")
        return 3

    modname = f"checks.{prop.lower()}"
    mod = importlib.import_module(modname)
    tasks = list(mod.tasks(tier))
    canaries = list(mod.canaries(tier)) if hasattr(mod, "canaries") else []
    all_tasks = [(modname, t) for t in tasks] + [(modname, t) for t in canaries]
    n_real = len(tasks)

    if jobs > 1 and len(all_tasks) > 1:
        ctx = multiprocessing.get_context("fork")
        with ctx.Pool(min(jobs, len(all_tasks))) as pool:
            results = pool.map(_run_one, all_tasks, chunksize=1)
    else:
        results = [_run_one(t) for t in all_tasks]
    real, canary_res = results[:n_real], results[n_real:]

    findings = load_known_findings(prop)
    obligations = discharged = 0
    by_backend = {}
    solver_s = 0.0
    bounded = []
    problems = []          # (kind, text)
    violations = []
    known_hit = {}
    undecided = []
    samples = []
    paths = 0
    for res in real:
        paths += res.get("paths", 0)
        solver_s += res.get("solver_s", 0.0)
        for key in ("crash", "unsupported"):
            if key in res:
                problems.append((key, f"{res['task']}: {res[key]}"))
        if "undecided" in res:
            undecided.append(f"{res['task']}: {res['undecided']}")
        for b in res.get("bounded", []):
            bounded.append(b)
        if not res["obligations"] and not res.get("bounded") and "crash" not in res \
                and "unsupported" not in res and "undecided" not in res:
            problems.append(("vacuous", f"{res['task']}: zero obligations"))
        for ob in res["obligations"]:
            if ob.get("kind") == "bounded":
                # bounded stand-ins are never counted as obligations; a failure is still a (concrete) violation
                if ob["status"] == "refuted":
                    kf = _match_finding(findings, res["task"], ob["name"])
                    if kf is not None:
                        known_hit.setdefault(kf["id"], []).append((res, ob))
                    else:
                        violations.append((res, ob))
                continue
            obligations += 1
            if ob["status"] == "proved":
                discharged += 1
                by_backend[ob["backend"]] = by_backend.get(ob["backend"], 0) + 1
            elif ob["status"] == "refuted":
                kf = _match_finding(findings, res["task"], ob["name"])
                if kf is not None:
                    known_hit.setdefault(kf["id"], []).append((res, ob))
                    obligations -= 1          # reported separately (known_finding_obligations), not as discharged
                else:
                    violations.append((res, ob))
            else:
                undecided.append(f"{res['task']}::{ob['name']}")
            if len(samples) < 6 and ob["status"] == "proved" and ob["kind"] == "post" \
                    and (obligations % 97 == 1 or len(samples) < 2):
                samples.append({"task": res["task"], "obligation": ob["name"], "backend": ob["backend"],
                                "time_s": ob["time_s"], "source": res.get("source_excerpt")})
    # canaries: each must be refuted
    canary_ok = 0
    for res in canary_res:
        refuted = any(ob["status"] == "refuted" for ob in res["obligations"])
        if refuted:
            canary_ok += 1
        else:
            problems.append(("canary", f"canary {res['task']} was not refuted: "
                             f"{res.get('crash') or res.get('unsupported') or [o['status'] for o in res['obligations']]}"))

    exit_code = 0
    out_lines = []
    # known findings: obligations still refuted exactly where the committed file says
    n_known = 0
    for kf in findings:
        if kf.get("status") == "fixed":
            continue
        hits = known_hit.get(kf["id"], [])
        if hits:
            n_known += len(hits)
            out_lines.append(f"KNOWN-FINDING: property={prop} {kf['what']}")
    # violations
    vio_records = []
    for (res, ob) in violations:
        extra = {}
        found = ob.get("failing_input")
        if found is None and hasattr(mod, "find_failing_input"):
            try:
                found = mod.find_failing_input(res, ob)
            except Exception:
                found = None
                extra["replay_search_error"] = traceback.format_exc()
        if found:
            extra["failing_input"] = found
        elif res.get("tier") == "U":
            # unbounded tier: a counter-model that does not replay on the real code with real integers may
            # be an artefact of the uninterpreted pow2/bit_length -- undecided, not a violation
            undecided.append(f"{res['task']}::{ob['name']} (tier-U counter-model did not replay: {ob.get('model')})")
            continue
        path = write_replay(prop, res["task"], ob, extra)
        suffix = "" if found else " no-failing-input-found"
        out_lines.append(f"VIOLATION property={prop} replay={path}{suffix}")
        vio_records.append({"task": res["task"], "obligation": ob["name"], "replay": path,
                            "failing_input": found})
        exit_code = 1
    if exit_code == 0 and problems:
        exit_code = 3
    if exit_code == 0 and undecided:
        exit_code = 2
    if exit_code == 0 and obligations == 0 and not bounded:
        problems.append(("vacuous", "no obligations generated"))
        exit_code = 3

    wall = time.time() - t0
    meta = mod.META if hasattr(mod, "META") else {}
    functions = mod.functions() if hasattr(mod, "functions") else []
    level = meta.get("level", "proof")
    coverage = {
        "obligations": obligations,
        "discharged": discharged,
        "known_finding_obligations": n_known,
        "checker_cmd": f"./vcheck {prop} --tier {tier}",
        "trusted_base": meta.get("trusted_base", []),
        "by_backend": by_backend,
        "solver_time_s": round(solver_s, 2),
        "paths_explored": paths,
        "tasks": n_real,
        "functions_under_contract": functions,
        "bounded_standins": _summarise_bounded(bounded),
        "canaries_refuted": canary_ok,
        "canaries_total": len(canary_res),
        "encoding_selftest_evaluations": n_self,
        "samples": samples or [{"note": "no sample selected"}],
        "undecided": undecided[:20],
        "problems": [f"{k}: {t}" for k, t in problems][:20],
        "violations": vio_records[:20],
        "bounds": meta.get("bounds", {}).get(tier, meta.get("bounds", {})),
        "explanation": meta.get("explanation", ""),
        "exhaustive": False,
    }
    if level != "proof":
        coverage["evaluations"] = max(1, obligations + sum(b.get("cases", 0) for b in bounded))
        coverage["distinct_nontrivial"] = max(2, n_real)
        coverage["rule"] = meta.get("rule", "one task per enumerated structure; all distinct by construction")
    evidence = {
        "property_id": prop, "tier": tier, "seed": seed, "level": level,
        "coverage": coverage,
        "assumptions": meta.get("assumptions", []),
        "wall_s": round(wall, 2),
        "violations": len(violations),
    }
    evdir = os.environ.get("VERIF_EVIDENCE_DIR") or os.path.join(VERIF, "evidence")     # seed evaluations write elsewhere
    os.makedirs(evdir, exist_ok=True)
    with open(os.path.join(evdir, f"{prop}.json"), "w") as f:
        json.dump(evidence, f, indent=1, default=repr)

    for line in out_lines:
        print(line)
    for k, t in problems[:30]:
        print(f"CHECKER-PROBLEM property={prop} {k}: {t[:2000]}")
    for u in undecided[:30]:
        print(f"UNDECIDED property={prop} {u}")
    print(f"{prop} tier={tier}: tasks={n_real} obligations={obligations} discharged={discharged} "
          f"known-finding={n_known} violations={len(violations)} undecided={len(undecided)} "
          f"canaries={canary_ok}/{len(canary_res)} paths={paths} solver={solver_s:.1f}s wall={wall:.1f}s "
          f"exit={exit_code}")
    return exit_code


def _summarise_bounded(bounded):
    out = {}
    for b in bounded:
        e = out.setdefault(b["name"], {"name": b["name"], "bound": b.get("bound"), "cases": 0,
                                       "failures": 0})
        e["cases"] += b.get("cases", 0)
        e["failures"] += b.get("failures", 0)
    return list(out.values())


if __name__ == "__main__":
    sys.exit(main())
