"""Symbolic integers / booleans with *exact* Python integer semantics.

`SInt` wraps a z3 bit-vector term whose width is derived from a conservatively tracked interval
[lo, hi] of the mathematical value, so no operation can overflow: every operation first computes
the interval of its mathematical result, then evaluates in a width that contains it.  There is
therefore no "machine arithmetic treated as mathematical" assumption: the encoding *is* unbounded
integer arithmetic restricted to values whose range is statically bounded (inputs must be created
with explicit bounds).  Unbounded (tier U) integers are in `pyvc.uint`.

`SBool` wraps a z3 Bool.  `bool(SBool)` asks the active exploration (see `pyvc.explore`) to take a
decision: that is how the real, unmodified Python code under verification is forked on `if`,
`match`, `and`/`or`, conditional expressions, `while` -- CPython itself runs the code.
"""
import z3

__all__ = ["SInt", "SBool", "ite", "Unsupported", "is_sym", "concrete", "popcount", "to_sint"]


class Unsupported(Exception):
    """The code under verification left the subset the encoding models.  Never a violation."""


_active = None       # the active Path (set by pyvc.explore)


def _set_active(path):
    global _active
    _active = path


def get_active():
    return _active


def _width(lo, hi):
    """Minimal signed two's complement width containing lo..hi (>= 1)."""
    w = 1
    if hi >= 0:
        w = max(w, hi.bit_length() + 1)
    else:
        w = max(w, (~hi).bit_length() + 1)
    if lo >= 0:
        w = max(w, lo.bit_length() + 1)
    else:
        w = max(w, (~lo).bit_length() + 1)
    return w


MAX_WIDTH = 4096


def _sx(t, w):
    cur = t.size()
    if cur == w:
        return t
    if cur > w:
        raise AssertionError("internal: narrowing")
    return z3.SignExt(w - cur, t)


class SBool:
    __slots__ = ("t",)

    def __init__(self, t):
        self.t = t

    # --- forking
    def __bool__(self):
        t = z3.simplify(self.t)
        if z3.is_true(t):
            return True
        if z3.is_false(t):
            return False
        if _active is None:
            raise Unsupported("bool() of a symbolic value outside an exploration")
        return _active.decide(t)

    # --- logic (non-forking; used by specs)
    def __invert__(self):      # ~b on a Python bool is -1/-2; on SBool we follow int semantics
        return ~to_sint(self)

    def And(self, other):
        return SBool(z3.And(self.t, _tobool(other)))

    def Or(self, other):
        return SBool(z3.Or(self.t, _tobool(other)))

    def Not(self):
        return SBool(z3.Not(self.t))

    def Implies(self, other):
        return SBool(z3.Implies(self.t, _tobool(other)))

    def __eq__(self, other):
        if isinstance(other, (SBool, bool)):
            return SBool(self.t == _tobool(other))
        return to_sint(self) == other

    def __ne__(self, other):
        if isinstance(other, (SBool, bool)):
            return SBool(self.t != _tobool(other))
        return to_sint(self) != other

    __hash__ = None

    def __index__(self):
        return int(bool(self))

    def __int__(self):
        return int(bool(self))

    def __repr__(self):
        return f"SBool({self.t})"

    def __format__(self, spec):
        return to_sint(self).__format__(spec)


def _arith_fwd(name):
    def f(self, other):
        return getattr(to_sint(self), name)(other)
    f.__name__ = name
    return f


for _n in ("add", "sub", "mul", "floordiv", "mod", "and", "or", "xor", "lshift", "rshift",
           "lt", "le", "gt", "ge"):
    setattr(SBool, f"__{_n}__", _arith_fwd(f"__{_n}__"))
    if _n not in ("lt", "le", "gt", "ge"):
        setattr(SBool, f"__r{_n}__", _arith_fwd(f"__r{_n}__"))
SBool.__neg__ = lambda self: -to_sint(self)
SBool.__pos__ = lambda self: to_sint(self)
SBool.__abs__ = lambda self: to_sint(self)


def _tobool(x):
    if isinstance(x, SBool):
        return x.t
    if isinstance(x, SInt):
        return (x != 0).t
    if isinstance(x, bool):
        return z3.BoolVal(x)
    if isinstance(x, int):
        return z3.BoolVal(x != 0)
    raise Unsupported(f"cannot use {type(x).__name__} as a condition")


def to_sint(x):
    if isinstance(x, SInt):
        return x
    if isinstance(x, SBool):
        t = z3.simplify(x.t)
        if z3.is_true(t):
            return SInt.const(1)
        if z3.is_false(t):
            return SInt.const(0)
        return SInt(z3.If(t, z3.BitVecVal(1, 2), z3.BitVecVal(0, 2)), 0, 1)
    if isinstance(x, bool):
        return SInt.const(int(x))
    if isinstance(x, int):
        return SInt.const(x)
    raise Unsupported(f"cannot use {type(x).__name__} as an integer")


def is_sym(x):
    return isinstance(x, (SInt, SBool))


class _SStr(str):
    """What `format(sym, spec)` returns.  `format(x, 'b').count('1')` is the population count."""
    def __new__(cls, text, value, spec):
        self = str.__new__(cls, text)
        self.value = value
        self.spec = spec
        return self

    def count(self, sub, *args):
        if self.spec == "b" and sub == "1" and not args:
            # format(x, 'b') of a negative integer is '-' followed by the digits of |x|
            return popcount(abs(self.value))
        raise Unsupported("str.count on formatted symbolic value")


_format_log = []      # (marker, SInt, spec): read back by harnesses checking Print/Format


def format_log():
    return _format_log


class SInt:
    __slots__ = ("t", "lo", "hi")

    def __init__(self, t, lo, hi):
        assert lo <= hi, (lo, hi)
        w = _width(lo, hi)
        if w > MAX_WIDTH:
            raise Unsupported(f"value range needs {w} bits")
        if t.size() != w:
            if t.size() < w:
                t = _sx(t, w)
            else:
                t = z3.Extract(w - 1, 0, t)
        self.t = t
        self.lo = lo
        self.hi = hi

    # --- construction
    @staticmethod
    def const(v):
        return SInt(z3.BitVecVal(v, _width(v, v)), v, v)

    @staticmethod
    def var(name, lo, hi):
        """A fresh integer in lo..hi (inclusive).  The range constraint is returned by
        `.range_constraint()` and must be assumed by the caller (explore.Path.var does)."""
        w = _width(lo, hi)
        return SInt(z3.BitVec(name, w), lo, hi)

    def range_constraint(self):
        w = self.t.size()
        cs = []
        if self.lo != -(1 << (w - 1)):
            cs.append(self.t >= z3.BitVecVal(self.lo, w))
        if self.hi != (1 << (w - 1)) - 1:
            cs.append(self.t <= z3.BitVecVal(self.hi, w))
        return z3.And(*cs) if cs else z3.BoolVal(True)

    @property
    def is_const(self):
        return self.lo == self.hi

    def _at(self, w):
        return _sx(self.t, w)

    # --- conversions that need a concrete value
    def __index__(self):
        if self.lo == self.hi:
            return self.lo
        if _active is not None:
            return _active.concretize(self)
        raise Unsupported("a symbolic integer is used where CPython needs a concrete one "
                          "(index, range(), int())")

    __int__ = __index__

    def __hash__(self):
        # used as a dict key / set member by code under verification (e.g. a write queue keyed by address): the value is
        # case-split to a concrete one on the active path (exact), and hashes like that int
        return hash(self.__index__())

    def __bool__(self):
        return bool(self != 0)

    def __repr__(self):
        return f"SInt({z3.simplify(self.t)} in [{self.lo},{self.hi}])"

    def __format__(self, spec):
        marker = f"\x00{len(_format_log)}\x01"
        _format_log.append((marker, self, spec))
        return _SStr(marker, self, spec)

    def bit_length(self):
        # bit_length(x) = number of bits of |x|
        a = abs(self)
        n = max(abs(self.lo), abs(self.hi)).bit_length()
        res = SInt.const(0)
        for k in range(n, 0, -1):
            res = ite(a >= (1 << (k - 1)), ite(res == 0, SInt.const(k), res), res)
        return res

    # --- arithmetic
    def __add__(self, o):
        o = _coerce(o)
        if o is NotImplemented:
            return o
        lo, hi = self.lo + o.lo, self.hi + o.hi
        w = max(_width(lo, hi), self.t.size(), o.t.size())
        return SInt(_fit(self._at(w) + o._at(w), w, lo, hi), lo, hi)

    __radd__ = __add__

    def __sub__(self, o):
        o = _coerce(o)
        if o is NotImplemented:
            return o
        lo, hi = self.lo - o.hi, self.hi - o.lo
        w = max(_width(lo, hi), self.t.size(), o.t.size())
        return SInt(_fit(self._at(w) - o._at(w), w, lo, hi), lo, hi)

    def __rsub__(self, o):
        o = _coerce(o)
        if o is NotImplemented:
            return o
        return o.__sub__(self)

    def __neg__(self):
        lo, hi = -self.hi, -self.lo
        w = max(_width(lo, hi), self.t.size())
        return SInt(_fit(-self._at(w), w, lo, hi), lo, hi)

    def __pos__(self):
        return self

    def __abs__(self):
        if self.lo >= 0:
            return self
        r = ite(self < 0, -self, self)
        lo = 0 if self.hi >= 0 else -self.hi
        hi = max(abs(self.lo), abs(self.hi))
        return SInt(_fit(r.t, r.t.size(), lo, hi), lo, hi)

    def __invert__(self):
        lo, hi = ~self.hi, ~self.lo
        w = max(_width(lo, hi), self.t.size())
        return SInt(_fit(~self._at(w), w, lo, hi), lo, hi)

    def __mul__(self, o):
        o = _coerce(o)
        if o is NotImplemented:
            return o
        ps = [self.lo * o.lo, self.lo * o.hi, self.hi * o.lo, self.hi * o.hi]
        lo, hi = min(ps), max(ps)
        w = max(_width(lo, hi), self.t.size(), o.t.size())
        return SInt(_fit(self._at(w) * o._at(w), w, lo, hi), lo, hi)

    __rmul__ = __mul__

    def _divmod(self, o):
        """Python floor division and modulo.  Registers the `o != 0` side obligation."""
        if _active is not None and o.lo <= 0 <= o.hi:
            _active.side_obligation("ZeroDivisionError", o != 0)
        M = max(abs(self.lo), abs(self.hi))
        w = max(_width(-M - 1, M + 1), o.t.size() + 1, self.t.size() + 1)
        a, b = self._at(w), o._at(w)
        zero = z3.BitVecVal(0, w)
        q = a / b                       # signed, truncating
        r = z3.SRem(a, b)               # sign of dividend
        adj = z3.And(r != zero, (r < zero) != (b < zero))
        qf = z3.If(adj, q - 1, q)
        rf = z3.If(adj, r + b, r)
        qlo, qhi = -M, M
        if o.lo > 0 and self.lo >= 0:
            qlo, qhi = self.lo // o.hi, self.hi // o.lo
        rlo, rhi = min(o.lo + 1, 0), max(o.hi - 1, 0)
        if o.lo > 0 and self.lo >= 0:
            rhi = min(rhi, self.hi)
        return SInt(_fit(qf, w, qlo, qhi), qlo, qhi), SInt(_fit(rf, w, rlo, rhi), rlo, rhi)

    def __floordiv__(self, o):
        o = _coerce(o)
        if o is NotImplemented:
            return o
        return self._divmod(o)[0]

    def __rfloordiv__(self, o):
        o = _coerce(o)
        if o is NotImplemented:
            return o
        return o._divmod(self)[0]

    def __mod__(self, o):
        o = _coerce(o)
        if o is NotImplemented:
            return o
        return self._divmod(o)[1]

    def __rmod__(self, o):
        o = _coerce(o)
        if o is NotImplemented:
            return o
        return o._divmod(self)[1]

    def __divmod__(self, o):
        o = _coerce(o)
        if o is NotImplemented:
            return o
        return self._divmod(o)

    def __truediv__(self, o):
        raise Unsupported("true division of a symbolic integer")

    def __pow__(self, o):
        if isinstance(o, int) and o >= 0 and o <= 4:
            r = SInt.const(1)
            for _ in range(o):
                r = r * self
            return r
        raise Unsupported("** with symbolic operand")

    def __rpow__(self, o):
        if o == 2:
            return SInt.const(1) << self
        raise Unsupported("** with symbolic exponent")

    # --- bitwise
    def __and__(self, o):
        o = _coerce(o)
        if o is NotImplemented:
            return o
        w = max(self.t.size(), o.t.size())
        if self.lo >= 0 and o.lo >= 0:
            lo, hi = 0, min(self.hi, o.hi)
        elif self.lo >= 0:
            lo, hi = 0, self.hi
        elif o.lo >= 0:
            lo, hi = 0, o.hi
        else:
            lo, hi = -(1 << (w - 1)), (1 << (w - 1)) - 1
        return SInt(_fit(self._at(w) & o._at(w), w, lo, hi), lo, hi)

    __rand__ = __and__

    def __or__(self, o):
        o = _coerce(o)
        if o is NotImplemented:
            return o
        w = max(self.t.size(), o.t.size())
        if self.lo >= 0 and o.lo >= 0:
            k = max(self.hi.bit_length(), o.hi.bit_length())
            lo, hi = 0, (1 << k) - 1
        elif self.hi < 0 and o.lo >= 0:
            lo, hi = self.lo, -1
        elif o.hi < 0 and self.lo >= 0:
            lo, hi = o.lo, -1
        else:
            lo, hi = -(1 << (w - 1)), (1 << (w - 1)) - 1
        return SInt(_fit(self._at(w) | o._at(w), w, lo, hi), lo, hi)

    __ror__ = __or__

    def __xor__(self, o):
        o = _coerce(o)
        if o is NotImplemented:
            return o
        w = max(self.t.size(), o.t.size())
        if self.lo >= 0 and o.lo >= 0:
            k = max(self.hi.bit_length(), o.hi.bit_length())
            lo, hi = 0, (1 << k) - 1
        else:
            lo, hi = -(1 << (w - 1)), (1 << (w - 1)) - 1
        return SInt(_fit(self._at(w) ^ o._at(w), w, lo, hi), lo, hi)

    __rxor__ = __xor__

    def __lshift__(self, o):
        o = _coerce(o)
        if o is NotImplemented:
            return o
        if o.lo < 0:
            if _active is not None:
                _active.side_obligation("ValueError: negative shift count", o >= 0)
        olo, ohi = max(o.lo, 0), o.hi
        if ohi < 0:
            olo = ohi = 0
        if ohi > 2048:
            raise Unsupported(f"left shift by up to {ohi}")
        lo = self.lo << (ohi if self.lo < 0 else olo)
        hi = self.hi << (ohi if self.hi > 0 else olo)
        w = max(_width(lo, hi), o.t.size(), self.t.size())
        return SInt(_fit(self._at(w) << o._at(w), w, lo, hi), lo, hi)

    def __rlshift__(self, o):
        o = _coerce(o)
        if o is NotImplemented:
            return o
        return o.__lshift__(self)

    def __rshift__(self, o):
        o = _coerce(o)
        if o is NotImplemented:
            return o
        if o.lo < 0:
            if _active is not None:
                _active.side_obligation("ValueError: negative shift count", o >= 0)
        olo, ohi = max(o.lo, 0), max(o.hi, 0)
        lo = self.lo >> (olo if self.lo < 0 else ohi)
        hi = self.hi >> (olo if self.hi >= 0 else ohi)
        w = max(self.t.size(), o.t.size())
        return SInt(_fit(self._at(w) >> o._at(w), w, lo, hi), lo, hi)

    def __rrshift__(self, o):
        o = _coerce(o)
        if o is NotImplemented:
            return o
        return o.__rshift__(self)

    # --- comparison
    def _cmp(self, o, op):
        o = _coerce(o)
        if o is NotImplemented:
            return o
        w = max(self.t.size(), o.t.size())
        return SBool(op(self._at(w), o._at(w)))

    def __eq__(self, o):
        if o is None or isinstance(o, (str, tuple, list)):
            return False
        r = self._cmp(o, lambda a, b: a == b)
        return False if r is NotImplemented else r

    def __ne__(self, o):
        if o is None or isinstance(o, (str, tuple, list)):
            return True
        r = self._cmp(o, lambda a, b: a != b)
        return True if r is NotImplemented else r

    def __lt__(self, o):
        return self._cmp(o, lambda a, b: a < b)

    def __le__(self, o):
        return self._cmp(o, lambda a, b: a <= b)

    def __gt__(self, o):
        return self._cmp(o, lambda a, b: a > b)

    def __ge__(self, o):
        return self._cmp(o, lambda a, b: a >= b)


def _fit(t, w, lo, hi):
    """`t` is a w-bit term whose value is known (by the interval argument) to lie in lo..hi:
    truncate to the minimal width."""
    nw = _width(lo, hi)
    if nw < w:
        return z3.Extract(nw - 1, 0, t)
    if nw > w:
        return z3.SignExt(nw - w, t)
    return t


def _coerce(o):
    if isinstance(o, SInt):
        return o
    if isinstance(o, SBool):
        return to_sint(o)
    if isinstance(o, int):       # includes bool
        return SInt.const(int(o))
    return NotImplemented


def ite(c, a, b):
    """Non-forking conditional for spec functions (works on concrete values too)."""
    if isinstance(c, SInt):
        c = c != 0
    if not isinstance(c, SBool):
        return a if c else b
    ct = z3.simplify(c.t)
    if z3.is_true(ct):
        return a
    if z3.is_false(ct):
        return b
    if isinstance(a, (SBool, bool)) and isinstance(b, (SBool, bool)):
        return SBool(z3.If(ct, _tobool(a), _tobool(b)))
    if isinstance(a, tuple) and isinstance(b, tuple) and len(a) == len(b):
        return tuple(ite(c, x, y) for x, y in zip(a, b))
    a, b = to_sint(a), to_sint(b)
    lo, hi = min(a.lo, b.lo), max(a.hi, b.hi)
    w = max(_width(lo, hi), a.t.size(), b.t.size())
    return SInt(_fit(z3.If(ct, a._at(w), b._at(w)), w, lo, hi), lo, hi)


def popcount(v):
    v = to_sint(v)
    assert v.lo >= 0
    n = v.hi.bit_length()
    acc = SInt.const(0)
    for k in range(n):
        acc = acc + ((v >> k) & 1)
    return acc


def And(*xs):
    ts = [_tobool(x) for x in xs]
    return SBool(z3.And(*ts)) if ts else SBool(z3.BoolVal(True))


def Or(*xs):
    ts = [_tobool(x) for x in xs]
    return SBool(z3.Or(*ts)) if ts else SBool(z3.BoolVal(False))


def Not(x):
    return SBool(z3.Not(_tobool(x)))


def Implies(a, b):
    return SBool(z3.Implies(_tobool(a), _tobool(b)))


def concrete(x, model):
    """Value of a symbolic term in a z3 model, as a Python int / bool (signed)."""
    if isinstance(x, SInt):
        v = model.eval(x.t, model_completion=True)
        return v.as_signed_long()
    if isinstance(x, SBool):
        return z3.is_true(model.eval(x.t, model_completion=True))
    if isinstance(x, (tuple, list)):
        return type(x)(concrete(e, model) for e in x)
    if isinstance(x, dict):
        return {k: concrete(v, model) for k, v in x.items()}
    if hasattr(x, "concrete_in"):
        return x.concrete_in(model)
    return x
