"""Module-global shims: the code under verification is run unmodified, but a few *names* it looks up
in its module globals (`int`, `isinstance`, `range`, `len`, `operator`) are rebound -- for the
duration of one exploration -- to versions that behave exactly like the builtins on concrete values
and treat symbolic integers as `int`s.  Nothing under $VERIF_REPO is edited.  Each use is listed
as an assumption in the evidence."""
import builtins
import operator as _operator
import types

from .sym import SInt, SBool, is_sym
from .uint import UInt, uite


def _symint(x):
    return isinstance(x, (SInt, UInt))


class _IntMeta(type):
    def __instancecheck__(cls, obj):
        return _symint(obj) or isinstance(obj, builtins.int)

    def __subclasscheck__(cls, sub):
        return issubclass(sub, builtins.int)

    def __call__(cls, *args, **kwargs):
        if len(args) == 1 and not kwargs and (_symint(args[0]) or isinstance(args[0], SBool)):
            from .sym import to_sint
            return args[0] if _symint(args[0]) else to_sint(args[0])
        return builtins.int(*args, **kwargs)


class IntShim(metaclass=_IntMeta):
    pass


class SRange:
    """Model of a `range` object with symbolic bounds and a concrete non-zero step."""
    def __init__(self, start, stop, step=1):
        assert isinstance(step, int) and step != 0
        self.start, self.stop, self.step = start, stop, step

    def length(self):
        if self.step > 0:
            n = (self.stop - self.start + (self.step - 1)) // self.step
        else:
            n = (self.start - self.stop + (-self.step - 1)) // (-self.step)
        return uite(n > 0, n, 0)

    def __getitem__(self, i):
        if i == 0:
            return self.start
        if i == -1:
            return self.start + (self.length() - 1) * self.step
        raise NotImplementedError

    def __bool__(self):
        return bool(self.length() > 0)

    def __contains__(self, x):
        if self.step > 0:
            c = _and(x >= self.start, x < self.stop)
        else:
            c = _and(x <= self.start, x > self.stop)
        c = _and(c, (x - self.start) % abs(self.step) == 0)
        return bool(c)

    def __repr__(self):
        return f"range({self.start}, {self.stop}, {self.step})"


def _and(a, b):
    from . import sym
    return sym.And(a, b)


class CRange:
    """A concrete range whose membership test also accepts symbolic integers (builtins.range falls back to a
    linear search with == for non-int arguments)."""
    def __init__(self, r):
        self._r = r

    def __contains__(self, x):
        if _symint(x):
            r = self._r
            if len(r) == 0:
                return False
            lo, hi = (r[0], r[-1]) if r.step > 0 else (r[-1], r[0])
            c = _and(x >= lo, x <= hi)
            if abs(r.step) != 1:
                c = _and(c, (x - r[0]) % abs(r.step) == 0)
            return bool(c)
        return x in self._r

    def __iter__(self):
        return iter(self._r)

    def __len__(self):
        return len(self._r)

    def __getitem__(self, i):
        return self._r[i]

    def __reversed__(self):
        return reversed(self._r)

    def __eq__(self, other):
        return self._r == (other._r if isinstance(other, CRange) else other)

    def __hash__(self):
        return hash(self._r)

    def __repr__(self):
        return repr(self._r)

    start = property(lambda self: self._r.start)
    stop = property(lambda self: self._r.stop)
    step = property(lambda self: self._r.step)

    def index(self, x):
        return self._r.index(x)

    def count(self, x):
        return self._r.count(x)


class _RangeMeta(type):
    def __instancecheck__(cls, obj):
        return isinstance(obj, (SRange, CRange, builtins.range))

    def __call__(cls, *args):
        if any(_symint(a) for a in args):
            return SRange(*args) if len(args) > 1 else SRange(0, args[0])
        return CRange(builtins.range(*args))


class RangeShim(metaclass=_RangeMeta):
    pass


def shim_isinstance(obj, cls):
    if cls is builtins.int or cls is IntShim:
        return _symint(obj) or builtins.isinstance(obj, builtins.int)
    if cls is builtins.range or cls is RangeShim:
        return builtins.isinstance(obj, (SRange, CRange, builtins.range))
    if builtins.isinstance(cls, tuple):
        return any(shim_isinstance(obj, c) for c in cls)
    return builtins.isinstance(obj, cls)


def shim_len(x):
    if isinstance(x, SRange):
        return x.length()
    if hasattr(x, "__slen__"):          # proxy containers with a symbolic size
        return x.__slen__()
    return builtins.len(x)


def shim_index(x):
    if _symint(x):
        return x
    return _operator.index(x)


operator_shim = types.SimpleNamespace(**{k: getattr(_operator, k) for k in dir(_operator) if not k.startswith("__")})
operator_shim.index = shim_index

SHIMS = {"int": IntShim, "isinstance": shim_isinstance, "range": RangeShim, "len": shim_len,
         "operator": operator_shim}


class shimmed:
    """with shimmed(module, ...): rebinds the shim names in the given modules' globals."""
    def __init__(self, *modules, names=("int", "isinstance", "range", "len", "operator")):
        self.modules = modules
        self.names = names
        self.saved = []

    def __enter__(self):
        for m in self.modules:
            for n in self.names:
                d = m.__dict__
                self.saved.append((d, n, n in d, d.get(n)))
                d[n] = SHIMS[n]
        return self

    def __exit__(self, *exc):
        for d, n, had, old in reversed(self.saved):
            if had:
                d[n] = old
            else:
                del d[n]
        self.saved = []
        return False
