"""Tier U: unbounded symbolic integers (z3 `Int`), for contracts that must hold for all widths.

Python ints are unbounded, so `Int` is exact for + - * // % and comparisons.  Powers of two and
`int.bit_length` are uninterpreted functions `pow2`, `blen` whose defining facts are *instantiated
as lemmas at the terms that occur* (never quantified):

    a >= 0 -> pow2(a) >= 1        a == 0 -> pow2(a) == 1        a >= 1 -> pow2(a) == 2*pow2(a-1)
    a >= 0 -> pow2(a) > a         a < b  -> 2*pow2(a) <= pow2(b)          (all registered pairs)
    blen(x) >= 0;  x == 0 -> blen(x) == 0;  x > 0 -> pow2(blen(x)-1) <= x < pow2(blen(x));
    x < 0 -> blen(x) == blen(-x)

Shifts and masks are lowered by idiom, tracked with a `kind` tag on the value:
    1 << k          -> pow2(k)                     x << k      -> x * pow2(k)
    x >> k          -> x div pow2(k)  (floor)      pow2(k) - 1 -> tag mask(k)
    x & mask(k)     -> x mod pow2(k)               -pow2(k)    -> tag negpow2(k)
    x | negpow2(k)  -> (x mod pow2(k)) - pow2(k)   x & 1       -> x mod 2
Any other bitwise operation between symbolic operands is `Unsupported` (never a violation).

Every lemma is a true fact about the real 2**a / bit_length, so adding them is sound; what may
happen is a *spurious* `sat` (an interpretation of pow2 that is not 2**a) -- therefore a counter-model
in this tier is believed only after it replays on the real function with real integers.
"""
import z3
from .sym import SBool, Unsupported, _tobool
from . import sym

POW2 = z3.Function("pow2", z3.IntSort(), z3.IntSort())
BLEN = z3.Function("blen", z3.IntSort(), z3.IntSort())


class Lemmas:
    """Lemma instances collected for the current exploration."""
    def __init__(self):
        self.facts = []
        self.pow_args = []
        self._seen = set()

    def reset(self):
        self.__init__()

    def add(self, f):
        self.facts.append(f)

    def pow2(self, a, recurse=True):
        a = z3.simplify(a)
        key = a.get_id()
        t = POW2(a)
        if key in self._seen:
            return t
        self._seen.add(key)
        self.add(z3.Implies(a >= 0, t >= 1))
        self.add(z3.Implies(a == 0, t == 1))
        self.add(z3.Implies(a >= 0, t > a))
        for b in self.pow_args:
            tb = POW2(b)
            self.add(z3.Implies(a < b, 2 * t <= tb))
            self.add(z3.Implies(b < a, 2 * tb <= t))
        self.pow_args.append(a)
        if recurse:
            tm = self.pow2(a - 1, recurse=False)
            self.add(z3.Implies(a >= 1, t == 2 * tm))
        return t

    def blen(self, x):
        x = z3.simplify(x)
        key = ("blen", x.get_id())
        L = BLEN(x)
        if key in self._seen:
            return L
        self._seen.add(key)
        self.add(L >= 0)
        self.add(z3.Implies(x == 0, L == 0))
        pl = self.pow2(L)
        pm = self.pow2(L - 1, recurse=False)
        ax = z3.If(x < 0, -x, x)
        self.add(z3.Implies(x != 0, z3.And(L >= 1, pm <= ax, ax < pl)))
        return L


LEMMAS = Lemmas()


def _coerce(o):
    if isinstance(o, UInt):
        return o
    if isinstance(o, SBool):
        return UInt(z3.If(o.t, z3.IntVal(1), z3.IntVal(0)))
    if isinstance(o, bool):
        return UInt(z3.IntVal(int(o)))
    if isinstance(o, int):
        return UInt(z3.IntVal(o), const=o)
    return NotImplemented


class UInt:
    __slots__ = ("t", "kind", "const")

    def __init__(self, t, kind=None, const=None):
        self.t = t
        self.kind = kind
        self.const = const

    @staticmethod
    def var(name):
        return UInt(z3.Int(name))

    __hash__ = None

    def __repr__(self):
        return f"UInt({z3.simplify(self.t)})"

    def __bool__(self):
        return bool(self != 0)

    def __index__(self):
        if self.const is not None:
            return self.const
        raise Unsupported("an unbounded symbolic integer is used where CPython needs a concrete one")

    __int__ = __index__

    def __format__(self, spec):
        return f"<{z3.simplify(self.t)}>"

    def bit_length(self):
        return UInt(LEMMAS.blen(self.t))

    # arithmetic
    def __add__(self, o):
        o = _coerce(o)
        if o is NotImplemented:
            return o
        return UInt(self.t + o.t)

    __radd__ = __add__

    def __sub__(self, o):
        o = _coerce(o)
        if o is NotImplemented:
            return o
        kind = None
        if self.kind and self.kind[0] == "pow2" and o.const == 1:
            kind = ("mask", self.kind[1])
        return UInt(self.t - o.t, kind)

    def __rsub__(self, o):
        o = _coerce(o)
        if o is NotImplemented:
            return o
        return o.__sub__(self)

    def __neg__(self):
        kind = ("negpow2", self.kind[1]) if self.kind and self.kind[0] == "pow2" else None
        return UInt(-self.t, kind)

    def __pos__(self):
        return self

    def __abs__(self):
        return UInt(z3.If(self.t < 0, -self.t, self.t))

    def __invert__(self):
        kind = ("negpow2", self.kind[1]) if self.kind and self.kind[0] == "mask" else None
        return UInt(-self.t - 1, kind)

    def __mul__(self, o):
        o = _coerce(o)
        if o is NotImplemented:
            return o
        return UInt(self.t * o.t)

    __rmul__ = __mul__

    def _floordiv(self, o):
        act = sym.get_active()
        if act is not None and o.const is None:
            act.side_obligation("ZeroDivisionError", SBool(o.t != 0))
        # Python floor division; z3 div is floor for positive divisors, ceiling for negative
        q = z3.If(o.t > 0, self.t / o.t, (-self.t) / (-o.t))
        return UInt(q)

    def __floordiv__(self, o):
        o = _coerce(o)
        if o is NotImplemented:
            return o
        return self._floordiv(o)

    def __rfloordiv__(self, o):
        o = _coerce(o)
        if o is NotImplemented:
            return o
        return o._floordiv(self)

    def __mod__(self, o):
        o = _coerce(o)
        if o is NotImplemented:
            return o
        q = self._floordiv(o)
        return UInt(self.t - o.t * q.t)

    def __rmod__(self, o):
        o = _coerce(o)
        if o is NotImplemented:
            return o
        return o.__mod__(self)

    def __lshift__(self, o):
        o = _coerce(o)
        if o is NotImplemented:
            return o
        act = sym.get_active()
        if act is not None and o.const is None:
            act.side_obligation("ValueError: negative shift count", SBool(o.t >= 0))
        p = LEMMAS.pow2(o.t)
        if self.const == 1:
            return UInt(p, ("pow2", o.t))
        if self.const == -1:
            return UInt(-p, ("negpow2", o.t))
        return UInt(self.t * p)

    def __rlshift__(self, o):
        o = _coerce(o)
        if o is NotImplemented:
            return o
        return o.__lshift__(self)

    def __rshift__(self, o):
        o = _coerce(o)
        if o is NotImplemented:
            return o
        act = sym.get_active()
        if act is not None and o.const is None:
            act.side_obligation("ValueError: negative shift count", SBool(o.t >= 0))
        p = LEMMAS.pow2(o.t)
        return UInt(self.t / p)        # p >= 1: z3 div is floor

    def __rrshift__(self, o):
        o = _coerce(o)
        if o is NotImplemented:
            return o
        return o.__rshift__(self)

    def __pow__(self, o):
        raise Unsupported("** on unbounded symbolic integers")

    def __rpow__(self, o):
        if o == 2:
            return UInt(LEMMAS.pow2(self.t), ("pow2", self.t))
        raise Unsupported("** with symbolic exponent")

    def __and__(self, o):
        o = _coerce(o)
        if o is NotImplemented:
            return o
        for a, b in ((self, o), (o, self)):
            if b.kind and b.kind[0] == "mask":
                p = LEMMAS.pow2(b.kind[1])
                return UInt(a.t - p * (a.t / p))          # a mod 2^k  (p >= 1)
            if b.const == 1:
                return UInt(a.t % 2)
            if b.const == 0:
                return UInt(z3.IntVal(0), const=0)
            if b.const == -1:
                return a
            if b.const is not None and b.const > 0 and (b.const & (b.const + 1)) == 0:
                return UInt(a.t % (b.const + 1))
        raise Unsupported("general & between unbounded symbolic integers")

    __rand__ = __and__

    def __or__(self, o):
        o = _coerce(o)
        if o is NotImplemented:
            return o
        for a, b in ((self, o), (o, self)):
            if b.kind and b.kind[0] == "negpow2":
                p = LEMMAS.pow2(b.kind[1])
                return UInt((a.t - p * (a.t / p)) - p)     # (a mod 2^k) - 2^k
            if b.const == 0:
                return a
        raise Unsupported("general | between unbounded symbolic integers")

    __ror__ = __or__

    def __xor__(self, o):
        raise Unsupported("^ between unbounded symbolic integers")

    __rxor__ = __xor__

    # comparison
    def __eq__(self, o):
        if o is None or isinstance(o, (str, tuple, list)):
            return False
        o = _coerce(o)
        if o is NotImplemented:
            return False
        return SBool(self.t == o.t)

    def __ne__(self, o):
        if o is None or isinstance(o, (str, tuple, list)):
            return True
        o = _coerce(o)
        if o is NotImplemented:
            return True
        return SBool(self.t != o.t)

    def __lt__(self, o):
        o = _coerce(o)
        return o if o is NotImplemented else SBool(self.t < o.t)

    def __le__(self, o):
        o = _coerce(o)
        return o if o is NotImplemented else SBool(self.t <= o.t)

    def __gt__(self, o):
        o = _coerce(o)
        return o if o is NotImplemented else SBool(self.t > o.t)

    def __ge__(self, o):
        o = _coerce(o)
        return o if o is NotImplemented else SBool(self.t >= o.t)


def pow2(k):
    """Spec-side 2**k."""
    if isinstance(k, UInt):
        return UInt(LEMMAS.pow2(k.t), ("pow2", k.t))
    return (1 << k) if k >= 0 else 0      # guarded by w >= 1 / w >= 0 in every use


def uite(c, a, b):
    if not isinstance(c, SBool):
        return a if c else b
    if isinstance(a, (SBool, bool)) and isinstance(b, (SBool, bool)):
        return SBool(z3.If(c.t, _tobool(a), _tobool(b)))
    a, b = _coerce(a), _coerce(b)
    return UInt(z3.If(c.t, a.t, b.t))


def concrete(x, model):
    if isinstance(x, UInt):
        return model.eval(x.t, model_completion=True).as_long()
    return sym.concrete(x, model)
