"""Source acquisition: locate a function in the repository's *current* source by qualified name
and hash its text, so the evidence says exactly which code the obligations were generated from."""
import ast
import hashlib
import os


def repo_root():
    return os.environ.get("VERIF_REPO", "/repo")


def find_node(tree, qualname):
    parts = qualname.split(".")
    node = tree
    for part in parts:
        if part == "<locals>":
            continue
        found = None
        for child in ast.walk(node) if node is not tree and False else ast.iter_child_nodes(node):
            if isinstance(child, (ast.FunctionDef, ast.AsyncFunctionDef, ast.ClassDef)) and child.name == part:
                found = child
                break
        if found is None:
            # nested inside statements (if/for/with) of the parent
            for child in ast.walk(node):
                if child is node:
                    continue
                if isinstance(child, (ast.FunctionDef, ast.AsyncFunctionDef, ast.ClassDef)) and child.name == part:
                    found = child
                    break
        if found is None:
            raise KeyError(qualname)
        node = found
    return node


def function_source(relpath, qualname):
    path = os.path.join(repo_root(), relpath)
    with open(path) as f:
        text = f.read()
    tree = ast.parse(text)
    node = find_node(tree, qualname)
    seg = ast.get_source_segment(text, node)
    return seg, node


def describe(relpath, qualname, **extra):
    try:
        seg, node = function_source(relpath, qualname)
        d = {"function": f"{relpath}:{qualname}", "line": node.lineno,
             "sha256": hashlib.sha256(seg.encode()).hexdigest()[:16]}
    except (KeyError, OSError) as e:
        d = {"function": f"{relpath}:{qualname}", "missing": True}
    d.update(extra)
    return d
