"""CPython cross-check of the symbolic integer encoding: every operator of `SInt` is evaluated on
random and boundary operands by substituting constants into the z3 term and simplifying, and the
result is compared with what CPython computes on the same integers.  Run on every check
invocation (cheap); a disagreement is a checker crash (exit 3), not a violation."""
import random
import operator
import z3
from .sym import SInt, SBool, ite, popcount, to_sint


def _ev(term, subst):
    t = z3.simplify(z3.substitute(term, *subst))
    return t


def _val(x, subst):
    if isinstance(x, SBool):
        t = _ev(x.t, subst)
        assert z3.is_true(t) or z3.is_false(t), t
        return z3.is_true(t)
    x = to_sint(x)
    t = _ev(x.t, subst)
    v = t.as_signed_long()
    assert x.lo <= v <= x.hi, ("interval unsound", v, x.lo, x.hi)
    return v


OPS = [
    ("add", operator.add), ("sub", operator.sub), ("mul", operator.mul),
    ("floordiv", operator.floordiv), ("mod", operator.mod),
    ("and", operator.and_), ("or", operator.or_), ("xor", operator.xor),
    ("lshift", operator.lshift), ("rshift", operator.rshift),
    ("eq", operator.eq), ("ne", operator.ne), ("lt", operator.lt), ("le", operator.le),
    ("gt", operator.gt), ("ge", operator.ge),
]
UNOPS = [("neg", operator.neg), ("invert", operator.invert), ("abs", abs),
         ("bit_length", lambda x: x.bit_length()),
         ("bool", lambda x: to_sint(x) != 0 if isinstance(x, SInt) else x != 0)]


def run(seed=0, rounds=300):
    rnd = random.Random(seed)
    n = 0
    for _ in range(rounds):
        lo1 = rnd.choice([0, -1, -8, -16, 3, -200, 0, 0])
        hi1 = lo1 + rnd.choice([0, 1, 7, 15, 16, 255, 300])
        lo2 = rnd.choice([0, -1, -8, 1, 0, 0, -3])
        hi2 = lo2 + rnd.choice([0, 1, 3, 7, 9, 20])
        a = SInt.var("sa", lo1, hi1)
        b = SInt.var("sb", lo2, hi2)
        pts = [(x, y) for x in {lo1, hi1, rnd.randint(lo1, hi1), rnd.randint(lo1, hi1), min(max(0, lo1), hi1)}
               for y in {lo2, hi2, rnd.randint(lo2, hi2), min(max(0, lo2), hi2), min(max(1, lo2), hi2)}]
        for name, op in OPS:
            if name in ("lshift", "rshift") and lo2 < 0:
                continue
            r = op(a, b)
            r2 = op(b, a) if name not in ("lshift", "rshift") or lo1 >= 0 and hi1 < 64 else None
            for (x, y) in pts:
                subst = [(a.t, z3.BitVecVal(x, a.t.size())), (b.t, z3.BitVecVal(y, b.t.size()))]
                if not (name in ("floordiv", "mod") and y == 0):
                    got = _val(r, subst)
                    exp = op(x, y)
                    assert got == exp, (name, x, y, got, exp, (lo1, hi1, lo2, hi2))
                    n += 1
                if r2 is not None and not (name in ("floordiv", "mod") and x == 0):
                    got = _val(r2, subst)
                    exp = op(y, x)
                    assert got == exp, ("r" + name, y, x, got, exp)
                    n += 1
                # mixed with concrete
                if not (name in ("floordiv", "mod") and y == 0):
                    got = _val(op(a, y), subst)
                    assert got == op(x, y), (name, "concrete rhs", x, y, got)
                    got = _val(op(x, b), subst)
                    assert got == op(x, y), (name, "concrete lhs", x, y, got)
                    n += 2
        for name, op in UNOPS:
            r = op(a)
            for x in {lo1, hi1, rnd.randint(lo1, hi1), min(max(0, lo1), hi1)}:
                subst = [(a.t, z3.BitVecVal(x, a.t.size()))]
                got = _val(r, subst)
                exp = op(x)
                assert got == exp, (name, x, got, exp)
                n += 1
        c = a < b
        r = ite(c, a, b)
        for (x, y) in pts:
            subst = [(a.t, z3.BitVecVal(x, a.t.size())), (b.t, z3.BitVecVal(y, b.t.size()))]
            assert _val(r, subst) == (x if x < y else y)
            n += 1
        if lo1 >= 0:
            r = popcount(a)
            for x in {lo1, hi1, rnd.randint(lo1, hi1)}:
                subst = [(a.t, z3.BitVecVal(x, a.t.size()))]
                assert _val(r, subst) == bin(x).count("1")
                n += 1
    return n


if __name__ == "__main__":
    print("selftest evaluations:", run())
