#!/usr/bin/env python3
"""Writes /verif/MANIFEST.json from the claims table below (kept in one place so the manifest is
always valid and in step with the checks that exist)."""
import json, os
V = os.path.dirname(os.path.dirname(os.path.abspath(__file__)))
from claims import CLAIMS, NOT_APPLICABLE   # noqa

checks = []
for pid, c in CLAIMS.items():
    checks.append({
        "property_id": pid,
        "quick_cmd": f"./vcheck {pid} --tier quick",
        "thorough_cmd": f"./vcheck {pid} --tier thorough",
        "evidence_file": f"/verif/evidence/{pid}.json",
        "replay_cmd_template": "./vcheck replay {path}",
        "engine": "pyvc",
        "level_claimed": {"category": c.get("category", "proof"), "text": c["text"], "design_ref": c["design_ref"]},
        "level_note": c["note"],
        "technique": c["technique"],
    })
m = {
    "version": 1,
    "setup_cmd": "./setup.sh",
    "hooks": {"guard": "AMARANTH_VERIF", "enable": "none needed: generated code is captured by rebinding amaranth.sim._pyrtl.compile from the harness; no hook commits exist",
              "baseline_off_cmd": "cd /repo && /venv/bin/python -m pytest -ra -q -p no:cacheprovider --timeout=900 --continue-on-collection-errors",
              "source_commits": [], "add_only": True},
    "engines": [{"name": "pyvc", "path": "/verif/pyvc", "serves_properties": sorted(CLAIMS),
                 "kind_free_text": "verification-condition generation from the real Python source by exhaustive symbolic execution on proxy values (exact integer encoding), sidecar contracts/specs, z3 with cvc5 fallback"}],
    "checks": checks,
    "not_applicable": [{"property_id": k, "reason": v} for k, v in NOT_APPLICABLE.items()],
    "notes": "See DESIGN.md. Exit codes of every check: 0 held, 1 violation, 2 undecided, 3 checker problem.",
}
json.dump(m, open(os.path.join(V, "MANIFEST.json"), "w"), indent=1)
print("wrote MANIFEST.json with", len(checks), "checks,", len(NOT_APPLICABLE), "not applicable")
