#!/bin/sh
# Runs every registered check (quick) on the current /repo tree and validates manifest + evidence.
cd "$(dirname "$0")/.." || exit 2
tier="${1:-quick}"
rc=0
for p in $(python3 -c "import json;print(' '.join(c['property_id'] for c in json.load(open('MANIFEST.json'))['checks']))"); do
  ./vcheck $p --tier $tier > /tmp/run_all_$p.log 2>&1; e=$?
  tail -1 /tmp/run_all_$p.log | cut -c1-220
  [ $e -ne 0 ] && rc=1
done
.venv/bin/python - <<'PY'
import json, jsonschema, glob
m = json.load(open('MANIFEST.json'))
jsonschema.validate(m, json.load(open('/root/.vp/MANIFEST.schema.json')))
es = json.load(open('/root/.vp/EVIDENCE.schema.json'))
for c in m['checks']:
    e = json.load(open(c['evidence_file']))
    jsonschema.validate(e, es)
    cov = e['coverage']
    assert e['level'] != 'proof' or cov['obligations'] == cov['discharged'], (c['property_id'], cov['obligations'], cov['discharged'])
    assert e['level'] == c['level_claimed']['category'], (c['property_id'], e['level'], c['level_claimed']['category'])
print('manifest and evidence valid for', len(m['checks']), 'checks')
PY
exit $rc
