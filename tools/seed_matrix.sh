#!/bin/sh
# usage: seed_matrix.sh [seed ...]  -- runs every seeded change against its property's quick check and records the outcome
# in seeded/<id>/meta.json ("ran", "detected", "refuted_obligations") and in seeded/MATRIX.md.  /repo is reverted after each.
cd /verif
seeds="$@"; [ -z "$seeds" ] && seeds=$(ls seeded | grep -v MATRIX)
for s in $seeds; do
  sd=/verif/seeded/$s
  prop=$(python3 -c "import json;print(json.load(open('$sd/meta.json'))['property'])")
  cd /repo; if ! git diff --quiet; then echo "repo dirty"; exit 2; fi
  if ! git apply "$sd/patch.diff" 2>/tmp/apply.err; then echo "$s: PATCH DOES NOT APPLY"; continue; fi
  cd /verif; cp evidence/$prop.json /tmp/ev_saved_$prop.json 2>/dev/null
  ./vcheck "$prop" --tier quick > /tmp/seed_$s.out 2>&1; rc=$?
  git -C /repo checkout -- .
  cp /tmp/ev_saved_$prop.json evidence/$prop.json 2>/dev/null
  python3 - "$s" "$prop" "$rc" <<'PY'
import json, re, sys
s, prop, rc = sys.argv[1], sys.argv[2], int(sys.argv[3])
out = open(f"/tmp/seed_{s}.out").read()
obs = []
for m in re.finditer(r"^VIOLATION property=\S+ replay=(\S+)", out, re.M):
    try:
        obs.append(json.load(open(m.group(1)))["obligation"])
    except Exception:
        pass
p = f"/verif/seeded/{s}/meta.json"
meta = json.load(open(p))
meta["ran"] = f"git -C /repo apply seeded/{s}/patch.diff; ./vcheck {prop} --tier quick; git -C /repo checkout -- ."
meta["detected"] = rc == 1
meta["exit_code"] = rc
meta["violations"] = len(obs)
meta["refuted_obligations"] = obs[:5]
json.dump(meta, open(p, "w"), indent=1)
print(s, prop, "exit", rc, len(obs), "violations;", "; ".join(obs[:2])[:200])
PY
done
