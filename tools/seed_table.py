#!/usr/bin/env python3
"""Writes seeded/MATRIX.md from the seeded/*/meta.json files (filled in by tools/seed_matrix.sh)."""
import json, os, glob
V = os.path.dirname(os.path.dirname(os.path.abspath(__file__)))
rows = []
for p in sorted(glob.glob(os.path.join(V, "seeded", "*", "meta.json"))):
    m = json.load(open(p))
    sid = os.path.basename(os.path.dirname(p))
    obs = m.get("refuted_obligations") or []
    rows.append(f"| {sid} | {m['property']} | {m.get('summary', '')[:160].replace('|', '/')} | "
                f"{'yes' if m.get('detected') else 'NO'} ({m.get('violations', '?')}) | {'; '.join(o.replace('|', '/') for o in obs[:2])[:200]} |")
with open(os.path.join(V, "seeded", "MATRIX.md"), "w") as f:
    f.write("# Seeded property-breaking changes vs. the quick check of the property they break\n\n"
            "Regenerate: `tools/seed_matrix.sh && tools/seed_table.py` (applies each patch to /repo, runs the check, reverts).\n\n"
            "| seed | property | change | detected (violations) | first refuted obligations |\n|---|---|---|---|---|\n" + "\n".join(rows) + "\n")
print(len(rows), "rows")
