#!/bin/sh
# usage: eval_seed_wt.sh <PROP> <worktree> <seed-id>
# Takes a seed a sub-agent left in <worktree>/_seed, confirms it there (demo passes without / fails with the patch, pinned suite
# still passes), runs the property's quick check against the patched worktree (VERIF_REPO=<worktree>, /repo untouched) and records
# the outcome in seeded/<seed-id>/meta.json.
prop="$1"; wt="$2"; sid="$3"
cd /verif || exit 2
[ -f "$wt/_seed/patch.diff" ] || { echo "$sid: no seed delivered"; exit 1; }
mkdir -p seeded/$sid; cp "$wt"/_seed/* seeded/$sid/
git -C "$wt" checkout -q -- . ; rm -rf "$wt/_seed"
git -C "$wt" checkout -q --detach "$(git -C /repo rev-parse HEAD)"     # evaluate on top of the current /repo commit
PYTHONPATH="$wt" ./tools/confirm_seed.sh "$wt" /verif/seeded/$sid /verif/seeded/$sid/confirm.json
python3 -c "
import json,sys; c=json.load(open('/verif/seeded/$sid/confirm.json'))
ok=c.get('applies') and c.get('demo_exit_clean')==0 and c.get('demo_exit_mutated') not in (0,None) and c.get('baseline_ok_with_patch')
print('$sid confirm:', 'OK' if ok else 'NOT CONFIRMED', {k:c.get(k) for k in ('applies','demo_exit_clean','demo_exit_mutated','baseline_ok_with_patch')}); sys.exit(0 if ok else 1)" || exit 1
( cd "$wt" && git apply /verif/seeded/$sid/patch.diff ) || { echo "$sid: patch does not apply"; exit 1; }
cp evidence/$prop.json /tmp/ev_saved_$prop.json 2>/dev/null
VERIF_REPO="$wt" ./vcheck "$prop" --tier quick > /tmp/seed_$sid.out 2>&1; rc=$?
cp /tmp/ev_saved_$prop.json evidence/$prop.json 2>/dev/null
git -C "$wt" checkout -q -- .
python3 - "$sid" "$prop" "$rc" <<'PY'
import json, re, sys
s, prop, rc = sys.argv[1], sys.argv[2], int(sys.argv[3])
out = open(f"/tmp/seed_{s}.out").read()
obs = []
for m in re.finditer(r"^VIOLATION property=\S+ replay=(\S+)", out, re.M):
    try:
        obs.append(json.load(open(m.group(1)))["obligation"])
    except Exception:
        pass
p = f"/verif/seeded/{s}/meta.json"
meta = json.load(open(p))
meta["ran"] = f"patch applied in a scratch worktree; VERIF_REPO=<worktree> ./vcheck {prop} --tier quick"
meta["detected"] = rc == 1
meta["exit_code"] = rc
meta["violations"] = len(obs)
meta["refuted_obligations"] = obs[:5]
json.dump(meta, open(p, "w"), indent=1)
print(s, prop, "exit", rc, len(obs), "violations;", "; ".join(obs[:2])[:200])
PY
