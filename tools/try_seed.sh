#!/bin/sh
# usage: try_seed.sh <seed-dir> [PROP] [tier]  -- applies the seeded patch to /repo, runs the check, reverts.
sd="$1"; prop="${2:-$(python3 -c "import json,sys;print(json.load(open('$sd/meta.json'))['property'])")}"; tier="${3:-quick}"
cd /repo || exit 2
if ! git diff --quiet; then echo "repo dirty"; exit 2; fi
git apply "$sd/patch.diff" 2>/tmp/apply.err || { echo "PATCH DOES NOT APPLY: $(head -3 /tmp/apply.err)"; exit 2; }
cd /verif; cp evidence/$prop.json /tmp/evidence_saved_$prop.json 2>/dev/null
./vcheck "$prop" --tier "$tier" > /tmp/try_seed.out 2>&1; rc=$?
git -C /repo checkout -- .
cp /tmp/evidence_saved_$prop.json evidence/$prop.json 2>/dev/null
grep -c "^VIOLATION" /tmp/try_seed.out | sed "s/^/violations: /"
grep "^VIOLATION" /tmp/try_seed.out | head -3
tail -1 /tmp/try_seed.out | cut -c1-300
echo "exit=$rc"
