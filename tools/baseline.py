#!/usr/bin/env python3
"""Runs the repository's pinned test suite (command from /root/.vp/BASELINE.json) on a tree and
compares the set of passing tests with the baseline's stable_pass list.
usage: baseline.py [repo_dir]   -- exit 0 iff every stable-pass test still passes."""
import json, subprocess, sys, tempfile, os, ast
import xml.etree.ElementTree as ET
repo = sys.argv[1] if len(sys.argv) > 1 else "/repo"
b = json.load(open("/root/.vp/BASELINE.json"))
stable = b["stable_pass"]
if isinstance(stable, str):
    stable = ast.literal_eval(stable)
with tempfile.TemporaryDirectory() as d:
    xml = os.path.join(d, "r.xml")
    env = dict(os.environ); env.pop("AMARANTH_VERIF", None); env["PYTHONDONTWRITEBYTECODE"] = "1"
    subprocess.run(["/venv/bin/python", "-m", "pytest", "-q", "-p", "no:cacheprovider", "--timeout=900",
                    "--continue-on-collection-errors", f"--junitxml={xml}"], cwd=repo, env=env,
                   stdout=subprocess.DEVNULL, stderr=subprocess.DEVNULL)
    passed = set()
    for tc in ET.parse(xml).getroot().iter("testcase"):
        if not any(c.tag in ("failure", "error", "skipped") for c in tc):
            passed.add(f"{tc.get('classname')}::{tc.get('name')}")
missing = [t for t in stable if t not in passed]
print(f"baseline: {len(stable)} stable-pass tests, {len(passed)} passed now, {len(missing)} regressed")
for t in missing[:20]:
    print("  REGRESSED", t)
sys.exit(1 if missing else 0)
