#!/bin/sh
# usage: reeval_seed_wt.sh <PROP> <worktree> <seed-id>  -- re-runs the property's quick check against an already recorded seed,
# applied in a scratch worktree moved to /repo's current commit (VERIF_REPO=<worktree>; /repo untouched); updates meta.json.
prop="$1"; wt="$2"; sid="$3"
cd /verif || exit 2
git -C "$wt" checkout -q -- . ; git -C "$wt" clean -qfd
git -C "$wt" checkout -q --detach "$(git -C /repo rev-parse HEAD)"
( cd "$wt" && git apply /verif/seeded/$sid/patch.diff ) || { echo "$sid: patch does not apply"; exit 1; }
out=/tmp/seed_$sid.out
VERIF_EVIDENCE_DIR=/tmp/ev_$sid VERIF_REPO="$wt" ./vcheck "$prop" --tier quick > $out 2>&1; rc=$?
git -C "$wt" checkout -q -- .
python3 - "$sid" "$prop" "$rc" <<'PY'
import json, re, sys
s, prop, rc = sys.argv[1], sys.argv[2], int(sys.argv[3])
out = open(f"/tmp/seed_{s}.out").read()
obs = []
for m in re.finditer(r"^VIOLATION property=\S+ replay=(\S+)", out, re.M):
    try:
        obs.append(json.load(open(m.group(1)))["obligation"])
    except Exception:
        pass
p = f"/verif/seeded/{s}/meta.json"
meta = json.load(open(p))
if not meta.get("detected"):
    meta["first_run"] = {"detected": False, "exit_code": meta.get("exit_code")}
meta["ran"] = f"patch applied in a scratch worktree; VERIF_REPO=<worktree> ./vcheck {prop} --tier quick"
meta["detected"] = rc == 1
meta["exit_code"] = rc
meta["violations"] = len(obs)
meta["refuted_obligations"] = obs[:5]
json.dump(meta, open(p, "w"), indent=1)
print(s, prop, "exit", rc, len(obs), "violations;", "; ".join(obs[:2])[:200])
PY
