"""Claims table: one entry per property that has a registered check."""
CLAIMS = {
 "C01": {
  "text": "Staged contract proof: for every operator/slice/part/concat/choice/array/derived-operator template with operand widths up to W (3 quick, 6 thorough) the code the real simulator code generator emits is symbolically executed and z3 proves, for ALL operand values including un-normalised intermediate values, that it computes the exact documented result, that the result fits the reported shape, and that the reported shape is the documented one. The node contract is the inductive step over expression trees, so all nesting depths are covered for the enumerated shapes.",
  "design_ref": "DESIGN.md 3B, 4/C01",
  "note": "Widths enumerated up to W (not unbounded); spec/sem.py is trusted as the reference semantics; pyvc encoding and z3/cvc5 trusted; structural-induction step is a prose argument.",
  "technique": "contract-based deductive verification: staged contracts on generated code, VCs by exhaustive symbolic execution, z3",
 },
 "C02": {
  "text": "Staged contract proof of the statement semantics: for every enumerated module template (each assignable target kind nested to depth 2, right-hand sides narrower/equal/wider and signed/unsigned, comb and sync, control-flow programs) the real simulator code generators are run and z3 proves for ALL signal values that every signal's next value equals the reference fold 'initial/previous value overridden by the active assignments in program order', a whole-view postcondition so bits outside the addressed window or not driven by the fragment must be unchanged. Separately the statements the real Module DSL builds for If/Elif/Else, Switch/Case/Default programs and FSMs (incl. nested) are proved to mean what the reference interpreter of the program says (first non-zero test, first matching pattern, default, program order; initial state, ongoing(), transitions).",
  "design_ref": "DESIGN.md 3B, 4/C02",
  "note": "Structures are enumerated (widths <= W, nesting depth <= 2, If chains <= 4 tests, FSMs <= 5 states); spec/sem.py and spec/stmt.py trusted as reference; _PySignalState.update used through its contract; netlist lowering of the same semantics is C04's.",
  "technique": "contract-based deductive verification: staged statement contracts + DSL lowering contracts, VCs by exhaustive symbolic execution, z3",
 },
 "C05": {
  "text": "Function contracts on the real testbench evaluator (eval_value, _eval_matches, _eval_assign_inner, eval_assign) executed on proxy values over all paths: for every enumerated expression and assignable-target structure (the C01/C02 templates, memory rows included) z3 proves for ALL signal states and written values that a read returns exactly the reference value (canonical in the expression's shape) and that a write changes exactly the bits the reference assignment changes, every other bit of every signal untouched; DriverConflict raised iff the target is comb-driven. The reference functions are the ones the compiled circuit code is proved against in C01/C02, so agreement with the circuit follows.",
  "design_ref": "DESIGN.md 3A, 4/C05",
  "note": "Structures enumerated (widths <= W); spec/sem.py trusted; slot update/read/write used through their contracts; the settle step after set() is C08's.",
  "technique": "contract-based deductive verification: function contracts on the real evaluator, VCs by exhaustive symbolic execution, z3",
 },
 "C10": {
  "text": "Function contracts on the real helpers run unmodified on symbolic integers. Unbounded (every integer, every width; z3 Int with pow2/bit_length lemmas instantiated at the occurring terms): ceil_log2 and bits_for return the least sufficient width, Shape.__init__ rejects exactly the illegal widths, Shape.cast of a range (start/stop unbounded, steps enumerated) gives the narrowest shape containing both end elements, signed iff one is negative, width 0 for empty and {0}; Shape._cast_plain_enum folds members as the narrowest common shape of their constant shapes (1..3 members = base and inductive step); Const(v) picks the narrowest shape. Bounded-width exact bit-vector tier (labelled bounded): exact_log2, Const normalisation is the unique in-range value congruent mod 2^w, Const.cast of Cat/Slice equals evaluation, _get_init_value wraps like Const and rejects out-of-range initial values of range-shaped signals with SyntaxError, MemoryData.Init rows go through the same function.",
  "design_ref": "DESIGN.md 3A, 4/C10",
  "note": "Tier U trusts the pow2/bit_length lemma schema and the shift/mask idiom lowering (spurious counter-models are filtered by replay on the real functions); module-global shims for int/isinstance/range/len/operator.index; normalisation obligations are bounded to widths <= 8 (quick) / 12 (thorough).",
  "technique": "contract-based deductive verification: function contracts, VCs from symbolic execution of the real functions, z3 (Int with instantiated lemmas / bit-vectors)",
 },
 "C12": {
  "text": "Inductive refinement proof: the registers and memory of the real SyncFIFO / SyncFIFOBuffered (elaborated and compiled by the real code) are the representation, one clock edge with arbitrary (w_en, w_data, r_en) is the operation whose body is the generated run() code, and z3 proves from EVERY well-formed state that the representation invariant is preserved, that the ghost queue becomes dequeue_if(r_en&r_rdy, enqueue_if(w_en&w_rdy, queue)), that w_rdy/r_rdy/r_data/level outputs relate to the queue as stated (including the liveness clauses as state predicates / one-step unrolling), and that the reset state is well formed and empty. Holds for every strobe sequence of any length; depth/width enumerated.",
  "design_ref": "DESIGN.md 3C, 4/C12",
  "note": "Depths {0..4} quick / {0..6, 8} thorough, widths {0,1,2}; kernel composition model (edge = woken sync processes, commit, comb settling with a proved convergence certificate) is trusted; slot contracts verified in C08/C11.",
  "technique": "contract-based deductive verification: representation invariant + abstract view over generated process code, VCs by symbolic execution, z3",
 },
 "C17": {
  "text": "Per-operation contracts on the real FFSynchronizer, AsyncFFSynchronizer, ResetSynchronizer and PulseSynchronizer: the flops are the representation, clock edges and asynchronous input transitions are the operations (bodies = the generated run() code, composed by the kernel's delta-cycle loop). Proved from EVERY state and for every data value: stage k takes stage k-1 at each output edge and nothing changes otherwise, so an input value reaches the output exactly at the stages-th edge (k-step unrolling) and the output shows init before; asynchronous assertion sets the output at once without a clock edge and release takes exactly `stages` edges; for the pulse synchroniser a ghost-counter invariant (input pulses - output pulses == toggles in flight) is preserved by input edges, output edges and simultaneous edges under the stated environment precondition, and stages+1 output edges drain everything in flight. _check_stages exceptional postconditions.",
  "design_ref": "DESIGN.md 3C, 4/C17",
  "note": "stages in {2,3} quick / {2..5} thorough, widths {1,2(,3)}; kernel composition model trusted (edge wakers read off the real add_signal_waker calls); slot contract of update from C08.",
  "technique": "contract-based deductive verification: per-edge contracts and ghost counters over generated process code, z3",
 },
 "C18": {
  "text": "Port algebra contracts decided by exhaustive enumeration of a finite space (all widths <= bound, every inversion mask, every index/slice/concatenation/inversion of SingleEndedPort, DifferentialPort and SimulationPort against a list-of-bits reference: length, per-bit inversion, direction, underlying bit identity). Buffer and FFBuffer on simulation ports and on composed port expressions: the generated code is proved, for ALL signal values, to drive port.o with o XOR mask, every port.oe bit with oe, and to present (looped-back o while enabled, else port.i) XOR mask on i, with exactly one register stage each way for FFBuffer (one-edge lemma from arbitrary state, nothing changes without an edge). Single use of every real I/O port bit: closed obligations on the real build_netlist (DriverConflict iff a bit is used twice).",
  "design_ref": "DESIGN.md 3C, 4/C18",
  "note": "Widths <= 2 quick / 3 thorough; the fabric-side placement of the inversion in netlists for real ports is left to C04's netlist evaluator; kernel composition model trusted.",
  "technique": "contract-based deductive verification: finite exhaustive port-algebra contracts + buffer process contracts, z3",
 },
 "C08": {
  "category": "proof",
  "text": "Function contracts on the real simulator state classes, executed on proxy values over all paths and discharged by z3 for all values: _PySignalState.update/commit (masked merge into next, pending iff changed, curr'=next, wakers iff changed and retained correctly), commutation of masked updates with disjoint masks, _PyMemoryState.read/write/commit (queue merge, out-of-range no-op, signed renormalisation, commutation for different rows / disjoint masks, commit returns changed), _PyEngineState.commit (converged iff nothing changed), edge_waker, _PyTimeline.advance (now' = min deadline, exactly the nearest wakers fire and are removed, the rest untouched), PyClockProcess.run with a ghost toggle schedule (first toggle at phase, then every period//2, exact integers). Syntactic frame rule on captured run() bodies and the ordered-source rule for testbench order. The property is claimed at the level of these frame/commutation/time lemmas; the coroutine-scheduler clauses are listed as uncovered.",
  "design_ref": "DESIGN.md 3A/3D, 4/C08",
  "note": "Order-independence follows from pairwise commutation by a diamond argument stated in prose; NOT decided: set() returning only after settling, tick/sample ordering, process-replaces-circuit equivalence; Period exactness for integer arguments is a bounded stand-in; widths <= 4/8, depth <= 2/3, <= 3 timeline wakers.",
  "technique": "contract-based deductive verification: function contracts on real simulator classes by symbolic execution + z3; syntactic frame rules",
 },
 "C11": {
  "text": "Memory process contracts: for every enumerated port configuration of the real lib.memory.Memory (shapes incl. zero-width and signed, depths incl. 1 and non-powers of two, 0..2(3) write ports with granularities, asynchronous / synchronous / transparent read ports, one or two domains) the generated run() code is symbolically executed through the kernel composition and z3 proves, for ALL row contents, addresses, data and enables, that after an edge every row equals the old row with exactly the enabled granules replaced (out-of-range writes ignored, signed rows canonical), asynchronous ports output the addressed row, synchronous ports capture the pre-edge row patched by same-edge writes of their transparency set and hold when disabled, and edges of other domains change nothing. The storage class (_PyMemoryState read/write/commit) is verified against the contract the configurations use. Closed obligations on the emitted RTLIL: $meminit_v2 DATA equals the initial rows, WIDTH/WORDS, dense distinct PORTIDs, per-granule EN replication, TRANSPARENCY_MASK bits, CLK_ENABLE.",
  "design_ref": "DESIGN.md 3B/3C, 4/C11",
  "note": "Configurations enumerated; simultaneous writes of two ports to the same granule of the same row excluded; reads beyond depth unspecified; full simulator/RTLIL behavioural agreement beyond the parameter lemmas is not decided; kernel composition trusted.",
  "technique": "contract-based deductive verification: memory process templates vs array-of-rows model, z3; closed RTLIL parameter obligations",
 },
}
NOT_APPLICABLE = {
 "C14": "reflective generators, attribute proxies and a 120-line lock-step loop over heterogeneous objects (flatten, is_compliant, connect) are outside the subset a VC generator built here models soundly; the reachable flip algebra is too small to carry the property (DESIGN.md 4/C14)",
}
for _p in ["C03","C04","C06","C07","C09","C13","C15","C16","C19","C20"]:
    NOT_APPLICABLE.setdefault(_p, "check not built yet in this session (work in progress; see DESIGN.md section 4 for the plan)")
