"""Claims table: one entry per property that has a registered check."""
CLAIMS = {
 "C01": {
  "text": "Staged contract proof: for every operator/slice/part/concat/choice/array/derived-operator template with operand widths up to W (3 quick, 6 thorough) the code the real simulator code generator emits is symbolically executed and z3 proves, for ALL operand values including un-normalised intermediate values, that it computes the exact documented result, that the result fits the reported shape, and that the reported shape is the documented one. The node contract is the inductive step over expression trees, so all nesting depths are covered for the enumerated shapes.",
  "design_ref": "DESIGN.md 3B, 4/C01",
  "note": "Widths enumerated up to W (not unbounded); spec/sem.py is trusted as the reference semantics; pyvc encoding and z3/cvc5 trusted; structural-induction step is a prose argument.",
  "technique": "contract-based deductive verification: staged contracts on generated code, VCs by exhaustive symbolic execution, z3",
 },
}
NOT_APPLICABLE = {
 "C14": "reflective generators, attribute proxies and a 120-line lock-step loop over heterogeneous objects (flatten, is_compliant, connect) are outside the subset a VC generator built here models soundly; the reachable flip algebra is too small to carry the property (DESIGN.md 4/C14)",
}
for _p in ["C02","C03","C04","C05","C06","C07","C08","C09","C10","C11","C12","C13","C15","C16","C17","C18","C19","C20"]:
    NOT_APPLICABLE.setdefault(_p, "check not built yet in this session (work in progress; see DESIGN.md section 4 for the plan)")
