#!/bin/sh
# usage: confirm_seed.sh <worktree> <mutant-dir> <out-json>
# Confirms a seeded mutation in a scratch worktree: demo passes without / fails with the patch, and the
# pinned test suite's stable-pass set still passes with the patch applied.
wt="$1"; md="$2"; out="$3"
cd "$wt" || exit 2
git checkout -q -- . 
/venv/bin/python "$md/demo.py" >/tmp/seed_demo_clean.$$ 2>&1; clean=$?
git apply "$md/patch.diff" || { echo "{\"applies\": false}" > "$out"; exit 1; }
/venv/bin/python "$md/demo.py" >/tmp/seed_demo_mut.$$ 2>&1; mut=$?
python3 /verif/tools/baseline.py "$wt" > /tmp/seed_base.$$ 2>&1; base=$?
git checkout -q -- .
python3 - "$clean" "$mut" "$base" /tmp/seed_demo_mut.$$ /tmp/seed_base.$$ > "$out" <<'PY'
import sys, json
clean, mut, base, mf, bf = sys.argv[1:]
print(json.dumps({"applies": True, "demo_exit_clean": int(clean), "demo_exit_mutated": int(mut),
  "baseline_ok_with_patch": int(base) == 0, "demo_output_mutated": open(mf).read()[-600:],
  "baseline_summary": open(bf).read()[:200]}, indent=1))
PY
rm -f /tmp/seed_demo_clean.$$ /tmp/seed_demo_mut.$$ /tmp/seed_base.$$
