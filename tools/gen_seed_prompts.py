"""Writes the prompts given to the seeding sub-agents (one scratch worktree of /repo per property under /tmp/wt).
The sub-agents see the property text and the summaries of earlier seeds, nothing from /verif."""
import json, subprocess, glob
props={json.loads(l)['id']: json.loads(l) for l in open('/verif/properties.jsonl')}
for pid in sorted(props):
    tag=f"{pid}f"
    subprocess.run(["git","-C","/repo","worktree","add","--detach",f"/tmp/wt/{tag}","HEAD","-q"],check=True)
    prev=[]
    for f in sorted(glob.glob(f'/verif/seeded/{pid}-m*/meta.json')):
        try: prev.append(json.load(open(f))['summary'])
        except Exception: pass
    txt=json.dumps(props[pid],indent=1)
    prevtxt="\n".join(" - "+p for p in prev)
    open(f'/tmp/wt/prompt_{tag}.txt','w').write(f"""You are working in a scratch git worktree of the amaranth-lang/amaranth repository at /tmp/wt/{tag} (Python HDL). Work ONLY inside that directory; never touch /repo or /verif.

Here is a semantic property that amaranth is supposed to satisfy:

{txt}

Your job: make ONE small, realistic source change (the kind of regression a maintainer could plausibly introduce: an off-by-one, a dropped case, a swapped operand, a wrong default, a missing normalisation, a refactor that loses a corner case, state shared by mistake...) under /tmp/wt/{tag}/amaranth that BREAKS this property for some inputs, while
 (1) the package still imports, and
 (2) the existing test suite still passes exactly as before. First run it ONCE on the unchanged tree and keep the list of passing tests, then make your change and run it again:
     cd /tmp/wt/{tag} && PYTHONPATH=/tmp/wt/{tag} /venv/bin/python -m pytest -q -rA -p no:cacheprovider --timeout=900 --continue-on-collection-errors
     (many tests fail already because external tools are missing; the set of passing tests must not shrink).
Do NOT use `git stash` (it is shared between worktrees). To get the unchanged tree back temporarily use `git diff > /tmp/wt/{tag}/my.patch && git checkout -- amaranth`, and `git apply /tmp/wt/{tag}/my.patch` to re-apply.
Use PYTHONPATH=/tmp/wt/{tag} so that the scratch copy is the one imported (check amaranth.__file__).
The change must be subtle: it must only show for inputs the test suite does not exercise. Read the property and its anchors carefully, list for yourself the clauses and the functions involved, cross out the ones already used below, and pick one that is left -- preferably an option, a default, a less-used class, an unusual shape / width / signedness, a multi-domain or multi-instance situation, or a sequence of API calls rather than a single call.

These changes were already made by others -- do NOT repeat them or close variants; pick a DIFFERENT mechanism, function or clause of the property:
{prevtxt}

Deliver, in /tmp/wt/{tag}/_seed/ :
  patch.diff   output of `git diff` for your change (only files under amaranth/)
  demo.py      a standalone script (run as: PYTHONPATH=<tree> /venv/bin/python demo.py) that exits 0 on the unchanged tree and exits 1, printing what went wrong, on the changed tree
  meta.json    {{"property": "{pid}", "summary": "<what you changed>", "needs": "<what kind of input is needed for the violation to show>", "files": [...]}}
Verify demo.py yourself on both trees. Leave the worktree with your change applied and `git diff` containing only your change. Report briefly (5 lines) what you did.""")
print("ok")
